"""Development tool (not a registered check): run the checks against every seeded change.

For each /verif/seeded/<id>/patch.diff: make a scratch worktree of /repo outside /repo and /verif, apply the
patch there, run `python -m ubcheck <props>` with UBCHECK_SRC pointing at it and UBCHECK_OUT at a scratch
directory, record exit codes and the rules that fired, remove the worktree.
usage: seeded.py [--dir DIR] [--props C01,C02|all] [ids...]"""
import json, os, subprocess, sys, tempfile, shutil, argparse
sys.path.insert(0, os.path.dirname(os.path.abspath(__file__)))
from _corpus import tree_with_patch, remove
os.environ.setdefault("UBCHECK_EVAL_PROCS", "2")

ap = argparse.ArgumentParser()
ap.add_argument("--dir", default="/verif/seeded")
ap.add_argument("--props", default="own")
ap.add_argument("ids", nargs="*")
a = ap.parse_args()
ids = a.ids or sorted(os.listdir(a.dir))
import re
allprops = sorted(f[:-3].upper() for f in os.listdir("/verif/ubcheck/rules") if re.fullmatch(r"c\d\d\.py", f))
summary = {}


def one(sid):
    d = os.path.join(a.dir, sid)
    patch = os.path.join(d, "patch.diff")
    if not os.path.exists(patch):
        return None
    out = tempfile.mkdtemp(prefix="ubout_")
    wt, envx, base, err = tree_with_patch(d, "ubseed_")
    try:
        if err:
            return f"{sid} PATCH DOES NOT APPLY {err}"
        own = sid.split("-")[0]
        props = allprops if a.props == "all" else ([own] if a.props == "own" else a.props.split(","))
        res = {}
        for p in props:
            if p not in allprops:
                res[p] = "no-check"; continue
            env = dict(os.environ, UBCHECK_SRC=os.path.join(wt, "src"), UBCHECK_OUT=out, **envx)
            r = subprocess.run(["/venv/bin/python", "-m", "ubcheck", p], cwd="/verif", env=env, capture_output=True, text=True)
            rules = sorted({w.split("=")[1] for line in r.stdout.splitlines() if "rule=" in line for w in line.split() if w.startswith("rule=")})
            res[p] = f"rc={r.returncode} {','.join(rules)}"
            if r.returncode == 2:
                res[p] += " " + " ".join(l for l in r.stdout.splitlines() if l.startswith("ANALYSIS-ERROR"))[:300]
        flagged = [p for p, v in res.items() if v.startswith("rc=1")]
        return f"{sid} " + ("CAUGHT by " + ",".join(flagged) if flagged else "MISSED") + (f" [base {base}]" if base else "") + " " + json.dumps(res)
    finally:
        remove(wt)
        shutil.rmtree(out, ignore_errors=True)


from concurrent.futures import ThreadPoolExecutor
with ThreadPoolExecutor(int(os.environ.get("JOBS", "14"))) as ex:
    for line in ex.map(one, ids):
        if line:
            print(line, flush=True)
