"""A registered Literal whose store fails the modified-time query: run() raises AttributeError from uberjob's own
error translation (CallError(e.node) needs a Call) instead of a CallError naming the failure."""
import uberjob
from uberjob import ValueStore


class Broken(ValueStore):
    def read(self): return 5
    def write(self, value): pass
    def get_modified_time(self): raise OSError("storage offline")


p = uberjob.Plan(); r = uberjob.Registry()
lit = p.lit(5)
r.add(lit, Broken())
try:
    uberjob.run(p, registry=r, output=lit, progress=None)
    print("no error"); raise SystemExit(0)
except uberjob.CallError as e:
    print("CallError, cause:", repr(e.__cause__)); raise SystemExit(0)
except Exception as e:
    print("DEFECT:", type(e).__name__, e); raise SystemExit(1)
