"""Development tool: what do the checks report on an OLDER commit of /repo (before later fix: commits)?  Writes
selftest/base_known/<commit>.json, used by the harnesses for corpus patches that are kept against that commit.
The output must be read: every entry has to be one of the defects repaired since (listed as fixed in known_findings.json).
usage: make_base_known.py <commit>"""
import json, os, subprocess, sys, tempfile
commit = sys.argv[1]
wt = tempfile.mkdtemp(prefix="ubbase_"); os.rmdir(wt)
subprocess.run(["git", "-C", "/repo", "worktree", "add", "-q", "--detach", wt, commit], check=True)
out = tempfile.mkdtemp(prefix="ubout_")
try:
    env = dict(os.environ, UBCHECK_SRC=wt + "/src", UBCHECK_OUT=out)
    env.pop("UBCHECK_BASE_KNOWN", None)
    subprocess.run(["/venv/bin/python", "-m", "ubcheck", "all"], cwd="/verif", env=env, capture_output=True)
    found = []
    for f in sorted(os.listdir(out + "/reports")):
        d = json.load(open(f"{out}/reports/{f}"))
        for o in d["new_findings"]:
            inst = o["instance"]
            if "/" in inst and not inst.startswith(("POOL/", "ENGINE/", "RUN/", "STORE/")):
                inst = "*" + inst[inst.index("/"):]  # the defect, wherever a refactoring of this old tree has moved the code to
            found.append({"status": "known", "property": d["property_id"], "rule": o["rule"], "instance": inst, "statement": "*",
                          "short": "(repaired by a later fix: commit) " + o["why"][:120]})
    short = subprocess.run(["git", "-C", "/repo", "rev-parse", "--short", commit], capture_output=True, text=True).stdout.strip()
    p = os.path.join(os.path.dirname(os.path.abspath(__file__)), "base_known", short + ".json")
    json.dump({"comment": f"what the checks report on /repo commit {short}: defects repaired by later fix: commits; used by the selftest harnesses "
                          f"for corpus patches kept against that commit (ubcheck honours it only together with UBCHECK_SRC)", "findings": found},
              open(p, "w"), indent=1)
    for x in found:
        print(x["property"], x["rule"], x["instance"], "|", x["statement"][:60])
finally:
    subprocess.run(["git", "-C", "/repo", "worktree", "remove", "--force", wt])
