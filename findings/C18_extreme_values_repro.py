import datetime as dt, uberjob
from uberjob.stores import LiteralSource
for label, kw, src in (("fresh_time=datetime.max", {"fresh_time": dt.datetime.max}, None), ("modified_time=datetime.min", {}, dt.datetime.min)):
    p = uberjob.Plan(); r = uberjob.Registry()
    x = r.source(p, LiteralSource(1, src if src is not None else dt.datetime(2020, 1, 1)))
    try:
        print(label, "->", uberjob.run(p, registry=r, output=x, progress=None, **kw))
    except Exception as e:
        print(label, "-> raised", type(e).__name__, repr(e.__cause__ or e)[:100])
