"""Staleness rules T1-T6 (C03, C05, C08.P3): decision table by abstract evaluation over order types, plus
structural rules on propagation, required nodes and pruning."""
from __future__ import annotations

import ast
import itertools

from ..absval import AbsRaise, Closure, Env, Interp, Obj, Stub
from ..astq import arg, inside, is_name, loc, names_in, stmt_of
from ..model import AnalysisError, Func, head, norm
from . import engine as E
from . import roles


def _noop(*a, **k):
    return None


def spec(pred_stale, has_store, is_source, own, anc, fresh):
    """Specification derived from the property text (C03/C05): returns (stale, propagated_time)."""
    def mx(*xs):
        xs = [x for x in xs if x is not None]
        return max(xs) if xs else None
    stale = pred_stale or (has_store and (own is None or ((anc is not None or not is_source) and mx(own, anc, fresh) > own)))
    prop = None if stale else (anc if not has_store else own)
    return stale, prop


PRED_TEMPLATES = {
    # name -> list of (local name, store or None, local names of predecessors); the last entry is the predecessor itself
    "plain": [("p", None, [])],
    "src1": [("p", (1, True), [])],
    "src2": [("p", (2, True), [])],
    "src3": [("p", (3, True), [])],
    "missing": [("p", (None, False), [])],
    "plain<-missing": [("q", (None, False), []), ("p", None, ["q"])],
    "plain<-src3": [("q", (3, True), []), ("p", None, ["q"])],
    "stored2<-src3": [("q", (3, True), []), ("p", (2, False), ["q"])],
    # ... through an *unregistered literal* that has a predecessor (a user-made barrier / a path literal a call was declared to
    # produce): it relays staleness and modified times like an unstored call
    "lit<-src3": [("q", (3, True), []), ("p", None, ["q"], False)],
    "lit<-missing": [("q", (None, False), []), ("p", None, ["q"], False)],
}
PROBES = (0.5, 1, 2, 3)


def build_case(is_call, store, pred_names, store_truthy=True):
    """A whole abstract plan, in topological order: the predecessors (with their own ancestors), the node `n` under test, and
    four stored non-source *probe* calls below n whose own times 0.5 < 1 < 2 < 3 make the time n hands down observable.
    entries: dict(name, call, store=(own, is_source)|None, truthy, preds=[names])"""
    nodes = []
    for i, tn in enumerate(pred_names):
        for nm, st, ps, *rest in PRED_TEMPLATES[tn]:
            nodes.append(dict(name=f"{nm}{i}", call=(rest[0] if rest else True), store=st, truthy=True, preds=[f"{x}{i}" for x in ps]))
    nodes.append(dict(name="n", call=is_call, store=store, truthy=store_truthy, preds=[f"p{i}" for i in range(len(pred_names))]))
    for t in PROBES:
        nodes.append(dict(name=f"probe{t}", call=True, store=(t, False), truthy=True, preds=["n"]))
    return nodes


def spec_plan(nodes, fresh):
    """Reference semantics over a whole plan -> names of the stored nodes that are stale."""
    stale, prop = {}, {}
    for nd in nodes:
        ps = nd["preds"]
        ts = [prop[p] for p in ps if prop[p] is not None]
        anc = max(ts) if ts else None
        st = nd["store"]
        stale[nd["name"]], prop[nd["name"]] = spec(any(stale[p] for p in ps), st is not None, bool(st and st[1]), st[0] if st else None, anc, fresh)
    return {nd["name"] for nd in nodes if nd["store"] is not None and stale[nd["name"]]}


def rule_stale_table(ctx, rid, rr):
    """T1: the stale check, interpreted end to end on whole abstract plans and compared with `spec_plan` - independent of how the
    check keeps its per-node state (tables of slots, records, only-stored-nodes ...).  Only the engine (C01: predecessors
    first), the literal pruner and the time normaliser (C18) are stubbed."""
    m = ctx.model
    stale_f, cb = rr.stale, rr.stalecb
    cached = getattr(m, "_t1_result", None)
    if cached is None:
        H = StaleHarness(m, rr)
        stores = [None] + [(o, s_) for s_ in (False, True) for o in (None, 2)]
        pred_sets = [()] + [(a,) for a in PRED_TEMPLATES] + [(a, b) for i, a in enumerate(PRED_TEMPLATES) for b in list(PRED_TEMPLATES)[i:]]
        import multiprocessing as _mp
        if _mp.current_process().daemon:
            # inside a mutation-adequacy worker (thorough tier, one of hundreds of mutants): all single predecessors, selected pairs
            pred_sets = [()] + [(a,) for a in PRED_TEMPLATES] + [("src3", "missing"), ("src1", "src3"), ("plain", "plain<-missing"),
                                                                 ("src2", "stored2<-src3"), ("plain<-src3", "src1")]
        cases = []
        for is_call in (True, False):
            for store in stores:
                for fresh in (None, 1, 2, 3):
                    for preds in pred_sets:
                        for truthy in ((True, False) if store is not None and len(preds) <= 1 else (True,)):
                            # truthy=False: the registered store object is falsy (a store that is also an empty container): whether
                            # a node has a store is a question of `is None`, not of truthiness
                            cases.append((is_call, store, fresh, preds, truthy))
        cached = _run_cases(H, cases)
        m._t1_result = cached
    n_cases, n_bad, first_bad, err = cached
    if err:
        raise AnalysisError(err)
    ctx.notes["stale_table_cases"] = n_cases
    ctx.notes["stale_table_exhaustive_over"] = ("node kind x store/source/own-time (and a falsy store object) x fresh_time rank x 0..2 predecessors from 10 "
                                                "shapes (plain / fresh source at 3 times / missing / through an unstored call / through an unregistered literal / stale stored) x 4 probes below; "
                                                "times are ranks 0.5<1<2<3, 'now' = 2.5")
    ctx.ob(rid, f"{cb.short}/decision-table", n_bad == 0, loc(cb),
           f"the set of stale stored nodes equals the specification on all {n_cases} abstract plans" if n_bad == 0 else
           f"{n_bad} of {n_cases} abstract plans deviate from the specification; first: {first_bad[0]}",
           "", "; ".join(str(b) for b in first_bad[1:3]))
    ctx.floor(rid, "abstract staleness cases evaluated", n_cases, 500)
    return n_cases


_FORK_HARNESS = [None]


def _case_chunk(chunk):
    H = _FORK_HARNESS[0]
    bad = []
    try:
        for is_call, store, fresh, preds, truthy in chunk:
            nodes = build_case(is_call, store, preds, truthy)
            got = H.run(nodes, fresh)
            want = spec_plan(nodes, fresh)
            if got != want:
                bad.append(dict(node="call" if is_call else "literal", store=None if store is None else dict(own=store[0], source=store[1], falsy=not truthy),
                                fresh=fresh, predecessors=list(preds), wrongly_stale=sorted(got - want), wrongly_fresh=sorted(want - got)))
    except AnalysisError as e:
        return bad, str(e)
    return bad, None


def _run_cases(H, cases):
    """Evaluate the cases on forked workers (the model is shared copy-on-write; nothing is pickled but the case tuples)."""
    import multiprocessing as mp
    import os
    _FORK_HARNESS[0] = H
    n = max(1, min(8, (os.cpu_count() or 2) // 2))
    chunks = [cases[i::n * 4] for i in range(n * 4)]
    try:
        if n > 1 and not mp.current_process().daemon:
            with mp.get_context("fork").Pool(n) as pool:
                res = pool.map(_case_chunk, chunks)
        else:
            res = [_case_chunk(c) for c in chunks]
    finally:
        _FORK_HARNESS[0] = None
    bad = [b for r, _e in res for b in r]
    errs = [e for _r, e in res if e]
    bad.sort(key=lambda d: (len(d["predecessors"]), str(d)))
    return len(cases), len(bad), bad[:3], (errs[0] if errs else None)


class StaleHarness:
    def __init__(self, m, rr):
        self.m, self.rr = m, rr
        self.stale_f = rr.stale
        self.CallC, self.LitC = m.one_class("Call", "T1"), m.one_class("Literal", "T1")
        self.PlanC = m.one_class("Plan", "T1")
        self.RegC, self.RegValC = m.one_class("Registry", "T1"), roles.registry_value(m)
        self.engine_names, self.pruner_names = set(), set()
        for c in self.stale_f.own_calls():
            fs = m.callee_funcs(self.stale_f, c)
            if rr.er.engine in fs and isinstance(c.func, ast.Name):
                self.engine_names.add(c.func.id)
            if any(f.module.name.endswith("pruning") for f in fs) and isinstance(c.func, ast.Name):
                self.pruner_names.add(c.func.id)
        if len(self.engine_names) != 1:
            raise AnalysisError("T1: engine call in the stale check not found")
        self.norm_f = m.one_func("_to_naive_utc_time", "NORMALISER")
        self.storecls = Obj(None, {"__qualname__": "Store", "__module__": "x", "__name__": "Store"}, name="StoreClass")
        self.observer = Obj(None, {k: Stub(k, _noop) for k in ("increment_running", "increment_completed", "increment_failed", "increment_total")})

    def run(self, nodes, fresh):
        from .rewriterules import MG
        m = self.m
        interp = None
        objs = {}
        order = []
        mapping = {}
        for nd in nodes:
            o = Obj(self.CallC if nd["call"] else self.LitC, {"scope": (), "fn": Stub("fn", _noop), "value": None, "stack_frame": None}, name=nd["name"])
            objs[nd["name"]] = o
            order.append(o)
            if nd["store"] is not None:
                own = nd["store"][0]
                st = Obj(None, {"get_modified_time": Stub("get_modified_time", lambda own=own: own)}, name="store", truthy=nd["truthy"])
                st.attrs["__class__"] = self.storecls
                mapping[o] = Obj(self.RegValC, {"value_store": st, "is_source": nd["store"][1], "stack_frame": None})

        def engine_stub(g, fn, **kw):
            # the engine processes every node after its predecessors (C01)
            present = getattr(g, "_nodes", None)
            for o in order:
                if present is None or any(o is x for x in present):  # (the check runs on a copy from which source literals were pruned)
                    interp.call(fn, [o], {})
            return None
        stubs = {n: Stub(n, engine_stub) for n in self.engine_names}
        # (the literal pruning that precedes the check is interpreted as it is called - with its predicate and flags)
        stubs[self.norm_f.name] = Stub(self.norm_f.name, lambda v: v)
        stubs["_get_stale_scope"] = Stub("_get_stale_scope", lambda *a: ())
        now = lambda *a, **k: 2.5
        interp = Interp(m, stubs=stubs, ext={"builtins.type": lambda x: interp.class_val(x.cls) if isinstance(x, Obj) and x.cls else type(x),
                                             "datetime.datetime.now": now, "datetime.datetime.utcnow": now, "time.time": now,
                                             "threading.RLock": lambda: Obj(None, {}, "lock"), "threading.Lock": lambda: Obj(None, {}, "lock"),
                                             "networkx.MultiDiGraph": lambda *a, **k: MG(interp)})
        g = MG(interp)
        for nd in nodes:
            g.add_node(objs[nd["name"]])
        dep = Obj(m.one_class("Dependency", "T1"), {}, name="dep")
        for nd in nodes:
            for p in nd["preds"]:
                g.add_edge(objs[p], objs[nd["name"]], dep)
        plan = Obj(self.PlanC, {"graph": g, "_scope": (), "_scope_lock": Obj(None, {}, "lock")}, name="plan")
        registry = Obj(self.RegC, {"mapping": mapping}, name="registry")
        params = {"plan": plan, "registry": registry, "retry": Stub("retry", lambda f: f), "max_workers": None,
                  "fresh_time": fresh, "progress_observer": self.observer}
        sf = self.stale_f
        for p in sf.params:
            if p not in params:
                raise AnalysisError(f"T1: unexpected parameter {p} of the stale check")
        try:
            ret = interp.call_func(sf, None, [params[p] for p in sf.pos_params], {p: params[p] for p in sf.kwonly_params})
        except AbsRaise as e:
            raise AnalysisError(f"T1: abstract evaluation raised {e.value!r}")
        try:
            members = set(id(x) for x in ret)
        except TypeError:
            raise AnalysisError("T1: the stale check does not return a collection of nodes")
        return {nd["name"] for nd in nodes if nd["store"] is not None and id(objs[nd["name"]]) in members}


# ------------------------------------------------------------------------------------------------ T2
def order_only_function(m, g, depth=0):
    """Does repo function g use its parameters only through order operations (max/min, comparisons, None tests, truthiness,
    iteration, passing on to such functions)?  Name-independent replacement for an allow-list entry 'safe_max'."""
    if depth > 2 or isinstance(g.node, ast.Lambda):
        return False
    params = set(g.params) | ({g.vararg} if g.vararg else set())
    derived = set(params)
    for _ in range(3):
        for f_ in [g] + g.all_nested():
            for n in f_.own_nodes():
                if isinstance(n, ast.comprehension) and names_in(n.iter) & derived:
                    derived |= names_in(n.target)
                if isinstance(n, ast.Assign) and names_in(n.value) & derived:
                    derived |= {t.id for t in n.targets if isinstance(t, ast.Name)}
    for f_ in [g] + g.all_nested():
        for node in f_.own_nodes():
            if not (isinstance(node, ast.Name) and node.id in derived and isinstance(node.ctx, ast.Load)):
                continue
            p = f_.module.parent.get(node)
            if isinstance(p, ast.Starred):
                p = f_.module.parent.get(p)
            if isinstance(p, ast.Subscript) and p.value is node and isinstance(p.slice, ast.Constant) and isinstance(p.slice.value, int):
                continue  # selecting one of the values handed in (e.g. args[0])
            if isinstance(p, (ast.BinOp, ast.Attribute, ast.Subscript, ast.JoinedStr, ast.FormattedValue)):
                return False
            if isinstance(p, ast.Compare) and not all(isinstance(o, (ast.Gt, ast.Lt, ast.GtE, ast.LtE, ast.Is, ast.IsNot)) for o in p.ops):
                return False
            if isinstance(p, ast.Call) and node is not p.func:
                ext = {x.split(".")[-1] for x in (o[1] for o in m.callee_origins(f_, p) if o[0] == "ext")}
                callees = m.callee_funcs(f_, p)
                if not (ext & {"max", "min", "filter", "iter", "list", "tuple", "len", "sorted"} or (callees and all(order_only_function(m, c, depth + 1) for c in callees))):
                    return False
    return True


def rule_order_only(ctx, rid, rr):
    """Timestamps inside the stale check are used only through the normaliser, max/safe_max, comparisons, None tests
    and truthiness - never arithmetic, formatting or attribute access."""
    m = ctx.model
    n = 0
    for f in [rr.stale] + list(rr.stale_closures):
        time_vars = set()
        for nm, bs in f.bindings.items():
            for kind, e, _p in bs:
                if kind == "assign" and e is not None and ("modified_time" in norm(e) or "fresh_time" in norm(e) or (
                        isinstance(e, ast.Call) and (fs_ := m.callee_funcs(f, e)) and all(order_only_function(m, g_) for g_ in fs_))):
                    time_vars.add(nm)
        time_vars |= {p for p in f.params if "time" in p}
        for node in f.own_nodes():
            if isinstance(node, ast.Name) and node.id in time_vars and isinstance(node.ctx, ast.Load):
                n += 1
                p = f.module.parent.get(node)
                ok = isinstance(p, (ast.Compare, ast.BoolOp, ast.Call, ast.If, ast.IfExp, ast.Assign, ast.UnaryOp, ast.Return, ast.keyword))
                if isinstance(p, ast.Compare):
                    ok = all(isinstance(o, (ast.Gt, ast.Lt, ast.GtE, ast.LtE, ast.Is, ast.IsNot)) for o in p.ops)
                if isinstance(p, (ast.BinOp, ast.Attribute, ast.Subscript, ast.JoinedStr, ast.FormattedValue)):
                    ok = False
                if isinstance(p, ast.Call) and node in p.args:
                    callees = m.callee_funcs(f, p)
                    ext = {x.split(".")[-1] for x in (o[1] for o in m.callee_origins(f, p) if o[0] == "ext")}
                    norm_f = m.one_func("_to_naive_utc_time", "NORMALISER")
                    ok = bool(ext & {"max", "min"}) or (bool(callees) and all(g_ is norm_f or order_only_function(m, g_) for g_ in callees))
                ctx.ob(rid, f"{f.short}/{node.id}", ok, loc(f, node),
                       "timestamp used through order operations only" if ok else
                       "a timestamp is used by something other than max / comparison / None test: the decision no longer "
                       "depends on the ordering alone", norm(stmt_of(f.module, node))[:120])
    ctx.floor(rid, "timestamp uses in the stale check", n, 8)


# ------------------------------------------------------------------------------------------------ T3
def rule_owner_writes_only(ctx, rid, rr):
    m = ctx.model
    n = 0
    for f in rr.stale_closures:
        if not f.pos_params:
            continue
        own = f.pos_params[0]
        for node in f.own_nodes():
            if isinstance(node, (ast.Assign, ast.AugAssign)):
                tgs = node.targets if isinstance(node, ast.Assign) else [node.target]
                for t in tgs:
                    if isinstance(t, ast.Attribute) and isinstance(t.value, ast.Subscript) and isinstance(t.value.value, ast.Name):
                        tbl = t.value.value.id
                        if m.binding_scope(f, tbl) is rr.stale:
                            n += 1
                            ok = is_name(t.value.slice, own)
                            ctx.ob(rid, f"{f.short}/{tbl}", ok, loc(f, node),
                                   "a worker writes only the entry of the node it processes" if ok else
                                   "a worker writes another node's entry in a shared table (data race with that node's own "
                                   "worker; pushes state to successors)", norm(node))
                    elif isinstance(t, ast.Attribute) and isinstance(t.value, ast.Name) and t.value.id not in f.params:
                        # a store through a local that holds an entry of a shared table: it must be the worker's own entry
                        bs_l = [b for b in f.bindings.get(t.value.id, []) if b[0] == "assign" and b[1] is not None]
                        ents = [b[1] for b in bs_l if isinstance(b[1], ast.Subscript) and isinstance(b[1].value, ast.Name)
                                and m.binding_scope(f, b[1].value.id) is rr.stale]
                        if ents and len(ents) == len(f.bindings.get(t.value.id, [])):
                            n += 1
                            ok = all(is_name(e_.slice, own) for e_ in ents)
                            ctx.ob(rid, f"{f.short}/{ents[0].value.id}", ok, loc(f, node),
                                   "a worker writes only the entry of the node it processes" if ok else
                                   "a worker writes another node's entry in a shared table (data race with that node's own "
                                   "worker; pushes state to successors)", norm(node))
                    elif isinstance(t, ast.Subscript) and isinstance(t.value, ast.Name) and m.binding_scope(f, t.value.id) is rr.stale:
                        # rebinding the value of the worker's OWN key is an owner write as well (the key exists if the table was
                        # pre-filled for every node - checked next); any other key is another node's entry
                        tbl = t.value.id
                        n += 1
                        ok = is_name(t.slice, own)
                        if ok:
                            bs_ = [b for b in rr.stale.bindings.get(tbl, []) if b[0] == "assign"]
                            pre = len(bs_) == 1 and bs_[0][1] is not None and (
                                (isinstance(bs_[0][1], ast.DictComp) and "nodes" in norm(bs_[0][1].generators[0].iter)) or
                                (isinstance(bs_[0][1], ast.Call) and norm(bs_[0][1].func) == "dict.fromkeys" and bs_[0][1].args and "nodes" in norm(bs_[0][1].args[0])))
                            ok = bool(pre)
                        ctx.ob(rid, f"{f.short}/{tbl}", ok, loc(f, node),
                               "a worker rebinds only the entry of the node it processes, in a table pre-filled for every node" if ok else
                               "shared table restructured from a worker", norm(node))
        # reads of other entries only for predecessors
        for node in f.own_nodes():
            if isinstance(node, ast.Subscript) and isinstance(node.value, ast.Name) and isinstance(node.ctx, ast.Load) \
                    and m.binding_scope(f, node.value.id) is rr.stale and not is_name(node.slice, own):
                # must be inside a comprehension/loop over graph.predecessors(own)
                ok = False
                p = node
                while p is not None and p is not f.node:
                    if isinstance(p, (ast.GeneratorExp, ast.ListComp, ast.SetComp)):
                        g = p.generators[0]
                        if norm(g.target) == norm(node.slice) and "predecessors" in norm(g.iter) and own in names_in(g.iter):
                            ok = True
                    if isinstance(p, ast.For) and norm(p.target) == norm(node.slice) and "predecessors" in norm(p.iter):
                        ok = True
                    p = f.module.parent.get(p)
                if isinstance(f.module.parent.get(node), ast.Attribute) and node.value.id in ("registry",):
                    continue
                if "mapping" in norm(node):
                    continue
                ctx.ob(rid, f"{f.short}/{node.value.id}-read", ok, loc(f, node),
                       "other entries are read only for predecessors (ordered before by the engine)" if ok else
                       "reads the entry of a node that is not a predecessor (unordered with its writer)", norm(node))
    ctx.floor(rid, "writes to the shared stale/time tables", n, 2)


# ------------------------------------------------------------------------------------------------ T4 / W3
def rule_every_stale_entry_rebuilt(ctx, rid, rr, rid_required=None):
    """T4 / W3, decided by interpreting the registry application over a symbolic plan with three registered entries
    (A: out-of-date call, B: up-to-date call, S: out-of-date source) - independent of how the loop over the entries is
    written: every entry is transformed (one read node each), the out-of-date ones and only they get a write node /
    barrier, exactly those are handed to pruning as required, and the stored output is redirected to its read node."""
    from .rewriterules import World
    m = ctx.model
    ap = rr.apply
    rid_required = rid_required or rid

    def build():
        w = World(m, rr)
        A, B, S = w.call("A"), w.call("B"), w.call("S")
        P, O = w.call("P"), w.call("O")
        w.edge(P, A, "Pos", 0)
        w.edge(A, B, "Pos", 0)
        w.edge(P, S, "Dep")
        w.edge(B, O, "Pos", 0)
        w.edge(S, O, "Pos", 1)
        w.register(A, False)
        w.register(B, False)
        w.register(S, True)
        return w, A, B, S, O
    w, A, B, S, O = build()
    rec = w.apply({A, S}, A)
    roles_required = sorted(w.role(n) for n in rec.get("required", ()))
    reads = {x: len(w.find(f"R[{x}]")) for x in ("A", "B", "S")}
    ok = all(v == 1 for v in reads.values())
    ctx.ob(rid, f"{ap.short}/all-entries", ok, loc(ap), "evaluated on three registered entries: each one got exactly one read node" if ok else
           f"evaluated on three registered entries (A stale, B fresh, S stale source): read nodes per entry = {reads}: not every entry is transformed")
    writes = {x: len(w.find(f"W[{x}]")) for x in ("A", "B")}
    okw = writes == {"A": 1, "B": 0}
    ctx.ob(rid, f"{ap.short}/is-stale", okw, loc(ap), "a write node exactly for the entry the stale check reported" if okw else
           f"write nodes per call entry = {writes} although exactly A was reported out of date: is_stale is not `node in <stale set>`")
    okr = roles_required == ["B#", "W[A]"]
    ctx.ob(rid, f"{ap.short}/write-nodes-required", "W[A]" in roles_required and "B#" in roles_required, loc(ap),
           "every write node (and source barrier) is handed to pruning as required" if "W[A]" in roles_required and "B#" in roles_required else
           f"a write node may not be required: a stale value is not rebuilt (required = {roles_required})")
    ctx.ob(rid_required, f"{ap.short}/only-write-nodes-required", okr or not set(roles_required) - {"B#", "W[A]"}, loc(ap),
           "only write nodes are required" if not set(roles_required) - {"B#", "W[A]"} else
           f"{sorted(set(roles_required) - {'B#', 'W[A]'})} is added to the required set: reads/calls happen although nothing is out of date")
    okp = "required" in rec
    ctx.ob(rid, f"{ap.short}/prune-required", okp, loc(ap), "pruning keeps the required set" if okp else "prune_plan is not given the required set")
    oko = w.role(rec.get("prune_output")) == "R[A]" and w.role(rec.get("ret_output")) == "R[A]"
    ctx.ob(rid, f"{ap.short}/read-node-recorded", oko, loc(ap), "a stored output is redirected to its read node (for pruning and for the caller)" if oko else
           f"a stored output is not redirected to its read node: pruning keeps {w.role(rec.get('prune_output'))}, the caller gets {w.role(rec.get('ret_output'))}")
    # nothing out of date, no output: nothing is required (a repeated run does nothing)
    w2, A2, B2, S2, O2 = build()
    rec2 = w2.apply(set(), None)
    r2 = sorted(w2.role(n) for n in rec2.get("required", ()))
    ctx.ob(rid_required, f"{ap.short}/required-starts-empty", not r2, loc(ap), "with nothing out of date and no output the required set is empty" if not r2 else
           f"with nothing out of date and no output {r2} is still required")
    return None




# ------------------------------------------------------------------------------------------------ T6
def rule_stale_check_sees_stored_nodes(ctx, rid, rr):
    m = ctx.model
    f = rr.stale
    from .prunerules import litprune_role
    ps = litprune_role(m, rr)
    pcs = [c for c in f.own_calls() if ps in m.callee_funcs(f, c)]
    ok = len(pcs) == 1
    ctx.ob(rid, f"{f.short}/prunes-literals-once", ok, loc(f), "one literal-pruning step before the stale check")
    for c in pcs:
        ip = arg(c, None, "inplace")
        ok = ip is not None and isinstance(ip, ast.Constant) and ip.value is False
        ctx.ob(rid, f"{f.short}/prune-not-inplace", ok, loc(f, c), "the stale check works on its own copy" if ok else
               "stale check prunes the caller's plan in place", norm(c)[:100])
        pr = arg(c, None, "predicate")
        ok = False
        if isinstance(pr, ast.Lambda):
            regp = [p for p in f.params if "registry" in p][0]
            ok = norm(pr.body) == f"{pr.args.args[0].arg} not in {regp}"
        ctx.ob(rid, f"{f.short}/registered-literals-kept", ok, loc(f, c), "only unregistered source literals are dropped" if ok else
               "registered literals can be dropped before the stale check (their stores are never examined)", norm(c)[:120])
    # nothing else transforms the examined plan before the engine call
    for c in f.own_calls():
        fs = m.callee_funcs(f, c)
        other_prune = any(g.module.name.endswith("pruning") and g is not ps for g in fs)
        mut = isinstance(c.func, ast.Attribute) and c.func.attr in ("remove_node", "remove_nodes_from", "remove_edge", "remove_edges_from", "subgraph")
        if other_prune or mut:
            ctx.ob(rid, f"{f.short}/examines-whole-plan", False, loc(f, c),
                   "the stale check removes nodes beyond unregistered source literals before examining the plan: staleness does not "
                   "propagate through the removed nodes, and a cycle among them is only found after stores were queried", norm(c)[:100])
    # result = nodes whose stale slot is set
    rets = [n for n in f.own_nodes() if isinstance(n, ast.Return) and n.value is not None]
    ok = len(rets) == 1 and isinstance(rets[0].value, ast.SetComp)
    ctx.ob(rid, f"{f.short}/returns-stale-set", ok, loc(f), "returns the set of nodes marked stale")
    # pruner: only Literal nodes without predecessors, optional predicate narrows
    # what the pruner removes (only predecessor-free Literal nodes the predicate accepts) is decided by evaluation (prunerules)
    from .prunerules import rule_pruning_evaluated
    rule_pruning_evaluated(ctx, rid, rr)


def rule_apply_examines_whole_plan(ctx, rid, rr):
    """Between entering the registry application and the stale check, the plan is only copied."""
    m = ctx.model
    ap = rr.apply
    from ..cfg import CFG
    g = CFG(ap)
    sc = [c for c in ap.own_calls() if rr.stale in m.callee_funcs(ap, c)]
    if not sc:
        raise AnalysisError("stale check call not found")
    sn = set(g.of_stmt_containing(sc[0], ap.module))
    before = g.reach([g.entry], avoid=sn)
    for c in ap.own_calls():
        cn = g.of_stmt_containing(c, ap.module)
        if not any(x in before for x in cn):
            continue
        fs = m.callee_funcs(ap, c)
        bad = any(g_.module.name.endswith("pruning") for g_ in fs) or (isinstance(c.func, ast.Attribute) and c.func.attr in (
            "remove_node", "remove_nodes_from", "remove_edge", "subgraph"))
        if bad:
            ctx.ob(rid, f"{ap.short}/no-pruning-before-stale-check", False, loc(ap, c),
                   "the plan is pruned before the stale check: nodes outside the pruned part are neither examined nor covered by the "
                   "up-front cycle check", norm(c)[:100])
    ctx.ob(rid, f"{ap.short}/stale-check-on-whole-plan", True, loc(ap, sc[0]), "examined the calls preceding the stale check")


# ------------------------------------------------------------------------------------------------ stale totals, evaluated
def rule_stale_totals(ctx, rid, rr):
    """The stale-section totals and the stale check's reports, evaluated on one abstract plan: calls a1, a2 (same scope, same
    kind of store), a3 (same scope, no store), b (other scope, store) and a stored literal.  The totals function must announce
    exactly one total per distinct reported scope, with the multiplicity of that scope among the Call nodes, and the stale
    callback must report each call under the scope its total was announced for."""
    m = ctx.model
    stale_f = rr.stale
    CallC, LitC = m.one_class("Call", "P4"), m.one_class("Literal", "P4")
    RegC, RegValC = m.one_class("Registry", "P4"), roles.registry_value(m)
    engine_names, pruner_names = set(), set()
    for c in stale_f.own_calls():
        fs = m.callee_funcs(stale_f, c)
        if rr.er.engine in fs and isinstance(c.func, ast.Name):
            engine_names.add(c.func.id)
        if any(f.module.name.endswith("pruning") for f in fs) and isinstance(c.func, ast.Name):
            pruner_names.add(c.func.id)
    if len(engine_names) != 1:
        raise AnalysisError("P4: engine call in the stale check not found")

    def mk_call(name, scope, fn):
        return Obj(CallC, {"scope": scope, "fn": fn, "stack_frame": None}, name=name)
    f1, f2 = Stub("f1", _noop), Stub("f2", _noop)
    a1, a2, a3, b = mk_call("a1", ("A",), f1), mk_call("a2", ("A",), f1), mk_call("a3", ("A",), f1), mk_call("b", ("B",), f2)
    lit = Obj(LitC, {"value": 7, "scope": ()}, name="lit")
    nodes = [a1, lit, a2, a3, b]
    from .rewriterules import MG
    _ibox = []
    graph = MG(None)
    for n_ in nodes:
        graph.add_node(n_)
    plan = Obj(m.one_class("Plan", "P4"), {"graph": graph, "_scope": (), "_scope_lock": Obj(None, {}, "lock")}, name="plan")
    storecls = Obj(None, {"__qualname__": "Store", "__module__": "x", "__name__": "Store"}, name="StoreClass")

    def mk_store():
        st = Obj(None, {"get_modified_time": Stub("get_modified_time", lambda: None)}, name="store")
        st.attrs["__class__"] = storecls
        return st
    mapping = {n: Obj(RegValC, {"value_store": mk_store(), "is_source": False, "stack_frame": None}) for n in (a1, a2, b, lit)}
    registry = Obj(RegC, {"mapping": mapping}, name="registry")
    totals, running = [], []
    cur = []

    def inc_total(*a, **k):
        totals.append((k.get("section"), k.get("scope"), k.get("amount")))

    def inc_running(*a, **k):
        running.append((cur[-1] if cur else None, k.get("section"), k.get("scope")))
    observer = Obj(None, {"increment_running": Stub("increment_running", inc_running), "increment_total": Stub("increment_total", inc_total),
                          "increment_completed": Stub("increment_completed", _noop), "increment_failed": Stub("increment_failed", _noop)}, name="observer")
    import collections as _c
    interp = None

    def engine_stub(g, fn, **kw):
        present = getattr(g, "_nodes", None)
        for n in nodes:
            if present is not None and not any(n is x for x in present):
                continue  # not in the graph the check runs on (the literal pruning that precedes it is interpreted as it is called)
            cur.append(n)
            interp.call(fn, [n], {})
            cur.pop()
        return None
    stubs = {n: Stub(n, engine_stub) for n in engine_names}
    stubs["fully_qualified_name"] = Stub("fqn", lambda x: ("fqn", getattr(x, "name", None) or repr(x)))
    interp = Interp(m, stubs=stubs, ext={"builtins.type": lambda x: interp.class_val(x.cls) if isinstance(x, Obj) and x.cls else type(x),
                                         "collections.Counter": lambda it=(): _c.Counter(list(it)),
                                         "threading.RLock": lambda: Obj(None, {}, "lock"), "threading.Lock": lambda: Obj(None, {}, "lock"),
                                         "networkx.MultiDiGraph": lambda *a, **k: MG(interp)})
    graph._i = interp
    from .evalrules import eval_totals_site, totals_site
    host_tot, call_tot = totals_site(m, rr, "stale")
    try:
        eval_totals_site(interp, m, rr, "stale", {"plan": plan, "observer": observer, "registry": registry})
    except AbsRaise as e:
        raise AnalysisError(f"abstract evaluation of the stale totals ({norm(call_tot)[:60]}) raised {e.value!r}")
    kw = {"plan": plan, "registry": registry, "retry": Stub("retry", lambda f: f), "max_workers": None, "fresh_time": None,
          "progress_observer": observer}
    for p in stale_f.params:
        if p not in kw:
            raise AnalysisError(f"P4: unexpected parameter {p} of the stale check")
    try:
        interp.call_func(stale_f, None, [kw[p] for p in stale_f.pos_params], {p: kw[p] for p in stale_f.kwonly_params})
    except AbsRaise as e:
        raise AnalysisError(f"abstract evaluation of {stale_f.qualname} raised {e.value!r}")
    rep = {}
    for n, sec, sc in running:
        rep.setdefault(n, []).append((sec, sc))
    ok_rep = set(rep) == {a1, a2, a3, b} and all(len(v) == 1 and v[0][0] == "stale" for v in rep.values())
    ctx.ob(rid, f"{rr.stalecb.short}/reports-calls-only", ok_rep, loc(rr.stalecb),
           "exactly the Call nodes are reported, once each, in section 'stale' (evaluated)" if ok_rep else
           f"on a plan with four calls and a stored literal the stale check reported {[(getattr(n, 'name', n), v) for n, v in rep.items()]}")
    want = _c.Counter(v[0][1] for v in rep.values()) if ok_rep else None
    got = {}
    dup = False
    for sec, sc, am in totals:
        dup = dup or sc in got
        got[sc] = am
    ok = ok_rep and not dup and all(t[0] == "stale" for t in totals) and got == dict(want)
    ctx.ob(rid, f"{host_tot.short}/stale-totals~{rr.stalecb.short}", bool(ok), loc(host_tot, call_tot),
           "each scope's announced total equals the number of calls the stale check reports under that scope (evaluated: 2, 1, 1)" if ok else
           f"totals and reports disagree per scope: announced {totals}, reported {sorted((getattr(n, 'name', ''), v[0][1]) for n, v in rep.items()) if ok_rep else rep}")
