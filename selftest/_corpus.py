"""Shared by the development harnesses: a scratch worktree of /repo with one corpus patch applied.

A corpus item is <dir>/<id>/patch.diff (+ demo.py, meta.json).  The patch is tried on /repo HEAD first.  Items whose patch could
not be carried over a later `fix:` commit of /repo keep a file `base` with the commit they were made (and confirmed) against:
they are analysed on a tree of that commit, with the defects repaired since listed as known for that tree
(selftest/base_known/<commit>.json, honoured by ubcheck only together with UBCHECK_SRC)."""
import os, subprocess, tempfile, time


def _add(wt, commit):
    for attempt in range(8):  # concurrent `git worktree add` calls can collide on the administrative files
        if subprocess.run(["git", "-C", "/repo", "worktree", "add", "-q", "--detach", wt, commit], capture_output=True).returncode == 0:
            return
        time.sleep(0.3 * (attempt + 1))
    raise RuntimeError("git worktree add failed")


def remove(wt):
    subprocess.run(["git", "-C", "/repo", "worktree", "remove", "--force", wt], capture_output=True)


def tree_with_patch(d, prefix="ubcorp_"):
    """-> (worktree path, extra environment for ubcheck, base commit or None, error text or None)"""
    patch = os.path.join(d, "patch.diff")
    wt = tempfile.mkdtemp(prefix=prefix)
    os.rmdir(wt)
    basef = os.path.join(d, "base")
    base = open(basef).read().strip() if os.path.exists(basef) else None
    if base is None:
        _add(wt, "HEAD")
        r = subprocess.run(["git", "-C", wt, "apply", patch], capture_output=True, text=True)
        return wt, {}, None, (r.stderr.strip()[:200] or "does not apply") if r.returncode else None
    _add(wt, base)
    r = subprocess.run(["git", "-C", wt, "apply", patch], capture_output=True, text=True)
    env = {}
    bk = os.path.join(os.path.dirname(os.path.abspath(__file__)), "base_known", base + ".json")
    if os.path.exists(bk):
        env["UBCHECK_BASE_KNOWN"] = bk
    return wt, env, base, (r.stderr.strip()[:200] or "does not apply") if r.returncode else None
