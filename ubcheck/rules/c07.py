"""C07 - run always terminates and leaves nothing running; cycles are rejected up front (L1-L8)."""
from . import engine as E
from . import runrules as R
from .common import make_user_reaching


def check(ctx):
    ctx.rule("C07.L1", "every queue.get() is followed on every path (normal, sentinel, exception) by exactly one task_done()")
    ctx.rule("C07.L2", "the node callback cannot raise out of user code (catch-all handler, no re-raise)")
    ctx.rule("C07.L3", "sentinel count == thread count (same value), posted in a finally covering queue.join(); workers exit only on the sentinel")
    ctx.rule("C07.L4", "the pool joins every started thread, without timeout, in a finally covering the yield")
    ctx.rule("C07.L5", "every queue is unbounded (put never blocks)")
    ctx.rule("C07.L6", "seeded queues seed unfinished_tasks")
    ctx.rule("C07.L7", "the acyclicity assertion dominates thread creation and node preparation; Kahn generator exhausted; cycle verdict idiom")
    ctx.rule("C07.L9", "worklist loops on the calling thread (all_ancestors, Kahn sort, pred_search) pop once per iteration and push only under a visited-set guard or when a decremented counter reaches zero")
    ctx.rule("C07.L8", "no blocking primitive and no user-reaching call inside any engine lock region; public queue protocol only")
    ctx.assume("calls are assumed to terminate; Thread.start() failing half-way is outside the fault model")
    ctx.rule("C07.L10", "the engine evaluated as a whole on every small multigraph, failing set, max_errors, scheduler, worker count and dequeue order: queue.join() returns, every worker gets a sentinel and exits, every started thread is joined before the engine returns - also when starting a worker fails")
    ctx.run(E.rule_queue_is_library_queue, "C07.L5", ctx.model.one_func("run_function_on_graph", "ENGINE"))
    from .engineeval import rule_engine_evaluated
    ctx.run(rule_engine_evaluated, "C07.L10", None, ("hang", "joined"), kinds=("run", "startup"))
    r = E.discover(ctx.model)
    ur = make_user_reaching(ctx.model)
    ctx.run(E.rule_get_task_done, "C07.L1", r)
    ctx.run(E.rule_catch_all, "C07.L2", r)
    ctx.run(E.rule_sentinels, "C07.L3", r)
    ctx.run(E.rule_pool_joins, "C07.L4", r)
    ctx.run(E.rule_queue_effects, "C07.L6", r, rid_seed="C07.L6", rid_unbounded="C07.L5")
    ctx.run(E.rule_cycle_check_first, "C07.L7", r)
    ctx.run(E.rule_nothing_blocks_under_lock, "C07.L8", r, ur)
    ctx.run(E.rule_queue_internals, "C07.L8", r)
    ctx.run(E.rule_atomic_counter, "C07.L8", r)
    ctx.run(E.rule_counting_agreement, "C07.L7", r)
    from . import stalerules as S
    from .extra import rule_composite_exit_stack, rule_error_path_total
    rr = R.discover(ctx.model, r)
    ctx.run(S.rule_stale_check_sees_stored_nodes, "C07.L7", rr)
    ctx.run(S.rule_apply_examines_whole_plan, "C07.L7", rr)
    ctx.run(E.rule_callbacks_only_via_engine, "C07.L7", r, [rr.runcb, rr.stalecb])
    ctx.run(rule_composite_exit_stack, "C07.L4")
    ctx.run(R.rule_observer_exit, "C07.L4", rr)
    ctx.run(rule_error_path_total, "C07.L2")
    from .extra import rule_worklists_terminate
    ctx.run(rule_worklists_terminate, "C07.L9")
