"""C16 - intermediate results are released as soon as their last consumer has finished (G1-G4).

Decides the reference structure visible in the code (release in finally, slot table does not escape, closure
capture set, single sink, no retained exception in the retry wrapper).  Actual unreachability / GC timing and
references held by tracebacks of failed calls are not decided."""
from __future__ import annotations

import ast

from ..astq import arg, inside, is_name, loc, names_in, stmt_of, in_body
from ..model import AnalysisError, Func, head, norm
from . import engine as E
from . import runrules as R


def check(ctx):
    m = ctx.model
    ctx.rule("C16.G1", "the run callback clears the current node's bound-call cell in a finally that covers the call (also when the call raises)")
    ctx.rule("C16.G2", "the slot table built during preparation is a local that is neither returned, stored, nor captured by a closure")
    ctx.rule("C16.G3", "the run callback captures only the bound-call table, the observer and the retry decorator")
    ctx.rule("C16.G4", "a call's result flows only into its own result slot; argument lists are locals of BoundCall.run; no memoisation on the path; the retry wrapper does not keep the exception (frame/traceback cycle) after a failed attempt")
    ctx.assume("garbage collection, references held by user code, and the traceback of the *recorded first failure* (which keeps that call's inputs alive until the run ends) are not decided")
    er = E.discover(m)
    rr = R.discover(m, er)
    cb, prep = rr.runcb, rr.prep_run
    mod = cb.module
    # ---------------------------------------------------------------- G1
    runs = [c for c in cb.own_calls() if rr.bound_run in m.callee_funcs(cb, c)]
    if len(runs) != 1:
        raise AnalysisError("C16: the call executing the bound call not found in the run callback")
    rc = runs[0]
    cell = rc.func.value.value if isinstance(rc.func, ast.Attribute) and isinstance(rc.func.value, ast.Attribute) else None
    if not isinstance(cell, ast.Name):
        # the BoundCall was unwrapped into a local first
        recv = rc.func.value if isinstance(rc.func, ast.Attribute) else None
        unwrapped = None
        if isinstance(recv, ast.Name):
            for k, e, p_ in cb.bindings.get(recv.id, []):
                if k == "assign" and isinstance(e, ast.Attribute) and e.attr == "value" and isinstance(e.value, ast.Name):
                    unwrapped = (recv.id, e.value)
        if unwrapped is None:
            raise AnalysisError("C16: bound-call cell variable not recognised")
        ctx.ob("C16.G1", f"{cb.short}/bound-call-not-a-local", False, loc(cb, rc),
               f"the BoundCall is bound to the local `{unwrapped[0]}` of the run callback: when the call fails, the recorded NodeError's "
               f"traceback pins this frame, so the failed call's argument slots stay referenced until the run ends", norm(rc)[:80])
        cell = unwrapped[1]
    else:
        ctx.ob("C16.G1", f"{cb.short}/bound-call-not-a-local", True, loc(cb, rc), "the BoundCall is reached only through its cell (no local keeps it)")
    clears = [n for n in cb.own_nodes() if isinstance(n, ast.Assign) and norm(n.targets[0]) == f"{cell.id}.value" and
              isinstance(n.value, ast.Constant) and n.value.value is None]
    ctx.floor("C16.G1", "statements clearing the bound-call cell", len(clears), 1)
    for cl in clears:
        tries = [t for t in cb.own_nodes() if isinstance(t, ast.Try) and in_body(mod, cl, t, "finalbody") and in_body(mod, rc, t, "body")]
        ok = bool(tries)
        ctx.ob("C16.G1", f"{cb.short}/release-in-finally", ok, loc(cb, cl),
               "the bound call is dropped in a finally covering the call" if ok else
               "the bound call is dropped only when the call succeeds: a failed call keeps every result it consumed alive "
               "until the end of the run (max_errors lets the run continue)", norm(cl))
    b = [x for x in cb.bindings.get(cell.id, []) if x[0] == "assign"]
    ok = len(b) == 1 and isinstance(b[0][1], ast.Subscript) and is_name(b[0][1].slice, cb.pos_params[0])
    ctx.ob("C16.G1", f"{cb.short}/own-cell", ok, loc(cb), "the cell cleared is the current node's" if ok else "the cleared cell is not the current node's")
    # ---------------------------------------------------------------- G2
    makers = [f for f in m.funcs.values() if f.module is prep.module and any(isinstance(n, ast.DictComp) and "Slot(" in norm(n.value) and "Literal" in norm(n.value) for n in f.own_nodes())]
    if len(makers) != 1:
        raise AnalysisError("C16: function building the slot table not found")
    mk = makers[0]
    tbl = None
    for nm, bs in mk.bindings.items():
        for k, e, p_ in bs:
            if k == "assign" and isinstance(e, ast.DictComp) and "Slot(" in norm(e.value) and "Literal" in norm(e.value):
                tbl = nm
    rets = [n for n in mk.own_nodes() if isinstance(n, ast.Return) and n.value is not None]
    escaped = [r_ for r_ in rets if any(isinstance(x, ast.Name) and x.id == tbl and not isinstance(mk.module.parent.get(x), ast.Subscript) for x in ast.walk(r_.value))]
    ctx.ob("C16.G2", f"{mk.short}/{tbl}-not-returned", not escaped, loc(mk), "the slot table is not returned" if not escaped else
           "the slot table is returned: every result stays referenced for the whole run", norm(escaped[0]) if escaped else "")
    stored = [n for n in mk.own_nodes() if isinstance(n, ast.Assign) and isinstance(n.targets[0], (ast.Attribute,)) and tbl in names_in(n.value)
              and not isinstance(n.value, ast.Subscript)]
    glob = tbl in mk.globals_ or tbl in mk.nonlocals
    ctx.ob("C16.G2", f"{mk.short}/{tbl}-not-stored", not stored and not glob, loc(mk), "the slot table is not stored in an attribute/global")
    captured = [f for f in mk.all_nested() if any(isinstance(n, ast.Name) and n.id == tbl for n in f.own_nodes())
                and not isinstance(f.node, ast.Lambda)]
    ctx.ob("C16.G2", f"{mk.short}/{tbl}-not-captured", not captured, loc(mk), "no closure captures the slot table")
    # the named tuple returned by preparation does not carry it either
    prets = [n for n in prep.own_nodes() if isinstance(n, ast.Return) and n.value is not None]
    for r_ in prets:
        names = names_in(r_.value)
        bad = [nm for nm in names if any(k == "assign" and isinstance(e, ast.DictComp) and "Slot(" in norm(e.value) for k, e, p_ in prep.bindings.get(nm, []))]
        ctx.ob("C16.G2", f"{prep.short}/result-without-slot-table", not bad, loc(prep, r_), "preparation returns only the bound-call table, output slot, callback and plan" if not bad else
               f"preparation returns the slot table {bad}", norm(r_)[:100])
    from .extra import rule_result_slots
    ctx.run(rule_result_slots, "C16.G4")
    # ---------------------------------------------------------------- G3
    free = sorted({n.id for n in cb.own_nodes() if isinstance(n, ast.Name) and isinstance(n.ctx, ast.Load) and m.binding_scope(cb, n.id) is prep})
    ctx.floor("C16.G3", "variables captured by the run callback", len(free), 2)
    for v in free:
        bs = prep.bindings.get(v, [])
        kind = None
        if any(k == "param" for k, _e, _p in bs) and ("observer" in v or "retry" in v):
            kind = "observer/retry parameter"
        for k, e, p_ in bs:
            if k == "assign" and isinstance(e, ast.Call) and mk in m.callee_funcs(prep, e) and p_ == (0,):
                kind = "bound-call table"
        ok = kind is not None
        ctx.ob("C16.G3", f"{cb.short}/captures-{v}", ok, loc(cb), f"captures {v} ({kind})" if ok else
               f"the run callback captures `{v}`, which keeps results (or the whole plan) referenced for the entire run")
    # ---------------------------------------------------------------- G4
    br = rr.bound_run
    stores = [n for n in br.own_nodes() if isinstance(n, ast.Assign) and any(isinstance(c, ast.Call) and isinstance(c.func, ast.Call) for c in ast.walk(n.value))]
    ok = len(stores) == 1 and norm(stores[0].targets[0]) == f"{br.pos_params[0]}.result.value"
    ctx.ob("C16.G4", f"{br.short}/single-sink", ok, loc(br), "the call's result is stored only in its own result slot" if ok else
           "the call's result is stored somewhere else than its own result slot", norm(stores[0]) if stores else "")
    attr_stores = [n for n in br.own_nodes() if isinstance(n, ast.Assign) and isinstance(n.targets[0], ast.Attribute) and norm(n.targets[0]) != f"{br.pos_params[0]}.result.value"]
    ctx.ob("C16.G4", f"{br.short}/args-are-locals", not attr_stores, loc(br), "argument lists are locals of BoundCall.run" if not attr_stores else
           f"BoundCall.run stores `{norm(attr_stores[0].targets[0])}`: argument values stay referenced after the call")
    for f in (br, cb, rr.prep_run):
        bad = [d for d in f.decorator_names() if d in ("lru_cache", "cache", "cached_property")]
        ctx.ob("C16.G4", f"{f.short}/no-memoisation", not bad, loc(f), "no memoisation decorator" if not bad else f"@{bad[0]} keeps arguments/results alive")
    cr = m.one_func("create_retry", "RETRY")
    for w in [f for f in cr.all_nested() if any(isinstance(n, ast.Try) for n in f.own_nodes())]:
        hs = [h for t in w.own_nodes() if isinstance(t, ast.Try) for h in t.handlers]
        for h in hs:
            kept = []
            if h.name:
                for n in ast.walk(h):
                    if isinstance(n, ast.Assign) and h.name in names_in(n.value):
                        kept.append(n)
            after_raises = [n for n in w.own_nodes() if isinstance(n, ast.Raise) and n.exc is not None and not any(inside(w.module, n, hh) for hh in hs)]
            ok = not kept and not after_raises
            ctx.ob("C16.G4", f"{w.short}/exception-not-retained", ok, loc(w, h),
                   "the retry wrapper does not keep the exception of a failed attempt" if ok else
                   "the retry wrapper keeps the exception of a failed attempt in a local: exception -> traceback -> frame -> "
                   "local forms a cycle that pins the call's arguments after a later attempt succeeded", head(h))
