"""E10 (thorough tier): in-memory mutation adequacy of the rules - still purely static.

The modules are parsed from the working tree; every operator rewrites a *copy of the AST of one module*
(never a file on disk, nothing is executed), the rewritten source is handed to a fresh Model through its
`sources` override and the property's rules are re-run on it.

* breaking operators: the rules should report the mutant (a finding, or at least an ANALYSIS-ERROR);
* benign operators (re-formatting, renaming helpers/locals, inserting no-ops): the rules must stay silent.

Scope: the functions in which the clean run recorded obligations (so the scope follows the roles, not names)."""
from __future__ import annotations

import ast
import copy
import multiprocessing as mp
import os
import re
import traceback

from .model import AnalysisError, Model, norm
from .report import Ctx, load_known

MAX_MUTANTS = int(os.environ.get("UBCHECK_MAX_MUTANTS", "400"))


# ------------------------------------------------------------------------------------------------ scope
def scope_functions(ctx):
    """Functions (as (module name, first line)) that contain the location of at least one obligation."""
    m = ctx.model
    by_path = {mod.relpath: mod for mod in m.modules.values()}
    out = set()
    for o in ctx.obligations:
        w = o.get("where") or ""
        if ":" not in w:
            continue
        path, _, line = w.rpartition(":")
        mod = by_path.get(path)
        if mod is None or not line.isdigit():
            continue
        line = int(line)
        best = None
        for f in m.funcs.values():
            if f.module is mod and not isinstance(f.node, ast.Lambda):
                lo, hi = f.node.lineno, getattr(f.node, "end_lineno", f.node.lineno)
                if lo <= line <= hi and (best is None or lo >= best.node.lineno):
                    best = f
        if best is not None:
            # use the outermost enclosing def so nested closures are mutated together with their host
            top = best
            while top.parent is not None:
                top = top.parent
            out.add((mod.name, top.node.lineno, top.qualname))
    return sorted(out)


# ------------------------------------------------------------------------------------------------ operators
class Site:
    def __init__(self, op, desc, apply):
        self.op, self.desc, self.apply = op, desc, apply


def _stmts_lists(fn):
    """All statement lists (body/orelse/finalbody/handler bodies) inside function node `fn`."""
    for n in ast.walk(fn):
        for field in ("body", "orelse", "finalbody"):
            v = getattr(n, field, None)
            if isinstance(v, list) and v and isinstance(v[0], ast.stmt):
                yield n, field, v


def breaking_sites(fn):
    """Yield Site objects for function node `fn` (each apply() mutates the tree in place)."""
    sites = []
    for n in ast.walk(fn):
        # A handler weakening
        if isinstance(n, ast.ExceptHandler) and isinstance(n.type, ast.Name) and n.type.id in ("BaseException", "Exception"):
            new = {"BaseException": "Exception", "Exception": "ValueError"}[n.type.id]
            sites.append(Site("weaken-handler", f"L{n.lineno}: except {n.type.id} -> except {new}",
                              lambda n=n, new=new: setattr(n.type, "id", new)))
        # F comparison relax / flip
        if isinstance(n, ast.Compare) and len(n.ops) == 1:
            op = n.ops[0]
            repl = {ast.Gt: ast.GtE, ast.GtE: ast.Gt, ast.Lt: ast.LtE, ast.LtE: ast.Lt, ast.Eq: ast.NotEq, ast.NotEq: ast.Eq,
                    ast.Is: ast.IsNot, ast.IsNot: ast.Is, ast.In: ast.NotIn, ast.NotIn: ast.In}.get(type(op))
            if repl is not None:
                sites.append(Site("compare", f"L{n.lineno}: `{norm(n)}` operator {type(op).__name__} -> {repl.__name__}",
                                  lambda n=n, repl=repl: n.ops.__setitem__(0, repl())))
            if isinstance(op, ast.Eq) and isinstance(n.comparators[0], ast.Constant) and n.comparators[0].value in (0, 1):
                sites.append(Site("compare", f"L{n.lineno}: `{norm(n)}` == -> <=", lambda n=n: n.ops.__setitem__(0, ast.LtE())))
        # G and <-> or
        if isinstance(n, ast.BoolOp):
            sites.append(Site("boolop", f"L{n.lineno}: `{norm(n)[:60]}` and<->or",
                              lambda n=n: setattr(n, "op", ast.Or() if isinstance(n.op, ast.And) else ast.And())))
        # H negate if
        if isinstance(n, ast.If):
            def neg(n=n):
                n.test = n.test.operand if isinstance(n.test, ast.UnaryOp) and isinstance(n.test.op, ast.Not) else ast.UnaryOp(op=ast.Not(), operand=n.test)
            sites.append(Site("negate-if", f"L{n.lineno}: negate `if {norm(n.test)[:60]}`", neg))
        # K constants
        if isinstance(n, ast.Constant) and isinstance(n.value, bool):
            sites.append(Site("const", f"L{n.lineno}: {n.value} -> {not n.value}", lambda n=n: setattr(n, "value", not n.value)))
        if isinstance(n, ast.Constant) and type(n.value) is int and n.value in (0, 1, 2, 3):
            sites.append(Site("const", f"L{n.lineno}: {n.value} -> {n.value + 1}", lambda n=n: setattr(n, "value", n.value + 1)))
        # L cause
        if isinstance(n, ast.Raise) and n.cause is not None:
            sites.append(Site("from-none", f"L{n.lineno}: `{norm(n)[:60]}` from ... -> from None", lambda n=n: setattr(n, "cause", ast.Constant(value=None))))
        # I drop keyword
        if isinstance(n, ast.Call) and n.keywords:
            for i, kw in enumerate(n.keywords):
                if kw.arg is not None:
                    sites.append(Site("drop-keyword", f"L{n.lineno}: drop `{kw.arg}=` from `{norm(n.func)[:40]}(...)`",
                                      lambda n=n, kw=kw: n.keywords.remove(kw)))
        # N swap first two positional args
        if isinstance(n, ast.Call) and len(n.args) >= 2 and not any(isinstance(a, ast.Starred) for a in n.args[:2]) and norm(n.args[0]) != norm(n.args[1]):
            def swap(n=n):
                n.args[0], n.args[1] = n.args[1], n.args[0]
            sites.append(Site("swap-args", f"L{n.lineno}: swap first two arguments of `{norm(n)[:60]}`", swap))
        # M API swaps
        if isinstance(n, ast.Attribute) and n.attr in API_SWAP:
            sites.append(Site("api-swap", f"L{n.lineno}: .{n.attr} -> .{API_SWAP[n.attr]}", lambda n=n: setattr(n, "attr", API_SWAP[n.attr])))
        if isinstance(n, ast.Call) and isinstance(n.func, ast.Name) and n.func.id == "reversed" and len(n.args) == 1:
            sites.append(Site("drop-reversed", f"L{n.lineno}: drop reversed()", lambda n=n: (setattr(n, "func", ast.Name(id="list", ctx=ast.Load())))))
    for owner, field, lst in _stmts_lists(fn):
        for i, s in enumerate(lst):
            # J statement deletion
            if isinstance(s, (ast.Expr, ast.Assign, ast.AugAssign)) and not (isinstance(s, ast.Expr) and isinstance(s.value, ast.Constant)):
                def delete(lst=lst, s=s):
                    idx = lst.index(s)
                    lst[idx] = ast.Pass()
                sites.append(Site("delete-stmt", f"L{s.lineno}: delete `{norm(s)[:70]}`", delete))
            if isinstance(s, ast.Return) and s.value is not None and not isinstance(s.value, ast.Constant):
                sites.append(Site("return-none", f"L{s.lineno}: `{norm(s)[:60]}` -> return None", lambda s=s: setattr(s, "value", ast.Constant(value=None))))
            if isinstance(s, ast.Raise):
                def delr(lst=lst, s=s):
                    lst[lst.index(s)] = ast.Pass()
                sites.append(Site("delete-raise", f"L{s.lineno}: delete `{norm(s)[:60]}`", delr))
            # B finally -> after
            if isinstance(s, ast.Try) and s.finalbody:
                def fin(lst=lst, s=s):
                    idx = lst.index(s)
                    tail = s.finalbody
                    s.finalbody = []
                    if not s.handlers:
                        lst[idx:idx + 1] = s.body + tail
                    else:
                        lst[idx + 1:idx + 1] = tail
                sites.append(Site("finally-to-after", f"L{s.lineno}: move the finally suite after the try statement", fin))
            # C else -> after
            if isinstance(s, ast.Try) and s.orelse:
                def els(lst=lst, s=s):
                    idx = lst.index(s)
                    tail = s.orelse
                    s.orelse = []
                    lst[idx + 1:idx + 1] = tail
                sites.append(Site("else-to-after", f"L{s.lineno}: move the try's else suite after the try statement", els))
            # D with unwrap / E with shrink
            if isinstance(s, ast.With):
                def unwrap(lst=lst, s=s):
                    idx = lst.index(s)
                    lst[idx:idx + 1] = s.body
                sites.append(Site("unwrap-with", f"L{s.lineno}: drop `with {norm(s.items[0].context_expr)[:40]}` (keep body)", unwrap))
                if len(s.body) >= 2:
                    def shrink(lst=lst, s=s):
                        idx = lst.index(s)
                        last = s.body.pop()
                        lst.insert(idx + 1, last)
                    sites.append(Site("shrink-with", f"L{s.lineno}: move the last statement out of `with {norm(s.items[0].context_expr)[:40]}`", shrink))
            # drop guard
            if isinstance(s, ast.If) and not s.orelse:
                def unguard(lst=lst, s=s):
                    idx = lst.index(s)
                    lst[idx:idx + 1] = s.body
                sites.append(Site("drop-guard", f"L{s.lineno}: drop guard `if {norm(s.test)[:50]}`", unguard))
    return sites


API_SWAP = {"successors": "out_edges", "predecessors": "successors", "pred": "succ", "in_edges": "out_edges",
            "appendleft": "append", "popleft": "pop", "heappush": "heappush", "put": "put_nowait", "is_source": "value_store",
            "read": "write", "copy_from_local": "copy_to_local", "increment_completed": "increment_failed"}


# ------------------------------------------------------------------------------------------------ benign operators
def benign_variants(model, modname, fn_line):
    """(description, new source text) variants of module `modname` that preserve behaviour."""
    mod = model.modules[modname]
    out = []
    # 1. pure re-formatting (ast.unparse round trip: comments dropped, lines moved, strings requoted)
    out.append(("reformat module via ast.unparse", ast.unparse(mod.tree)))
    # 2. insert a no-op statement at the start of every function body in scope (after the docstring)
    tree = copy.deepcopy(mod.tree)
    for n in ast.walk(tree):
        if isinstance(n, (ast.FunctionDef,)) :
            k = 1 if (n.body and isinstance(n.body[0], ast.Expr) and isinstance(n.body[0].value, ast.Constant)) else 0
            n.body.insert(k, ast.Expr(value=ast.Constant(value="noop")))
    ast.fix_missing_locations(tree)
    out.append(("insert a no-op string statement at the top of every function", ast.unparse(tree)))
    # 3. rename nested helper functions (closures) consistently
    tree = copy.deepcopy(mod.tree)
    nested = set()
    for n in ast.walk(tree):
        if isinstance(n, ast.FunctionDef):
            for c in ast.walk(n):
                if isinstance(c, ast.FunctionDef) and c is not n:
                    nested.add(c.name)
    if nested:
        ren = {nm: nm + "_renamed" for nm in nested}
        for n in ast.walk(tree):
            if isinstance(n, ast.FunctionDef) and n.name in ren and any(n in ast.walk(p) and p is not n for p in ast.walk(tree) if isinstance(p, ast.FunctionDef)):
                n.name = ren[n.name]
        for n in ast.walk(tree):
            if isinstance(n, ast.Name) and n.id in ren:
                n.id = ren[n.id]
        out.append((f"rename nested helper functions {sorted(nested)[:4]}", ast.unparse(tree)))
    # 4. alpha-rename local variables (assignment / loop / with / except / comprehension targets) of every top-level
    #    function and its closures; parameters, attributes and keyword names are left alone
    tree = copy.deepcopy(mod.tree)
    renamed = 0
    for top in [n for n in tree.body if isinstance(n, ast.FunctionDef)] + [m_ for c in tree.body if isinstance(c, ast.ClassDef) for m_ in c.body if isinstance(m_, ast.FunctionDef)]:
        params = set()
        for n in ast.walk(top):
            if isinstance(n, (ast.FunctionDef, ast.Lambda)):
                a = n.args
                params |= {x.arg for x in a.posonlyargs + a.args + a.kwonlyargs} | ({a.vararg.arg} if a.vararg else set()) | ({a.kwarg.arg} if a.kwarg else set())
        fnames = {n.name for n in ast.walk(top) if isinstance(n, (ast.FunctionDef, ast.ClassDef))}
        globs = {nm for n in ast.walk(top) if isinstance(n, ast.Global) for nm in n.names}
        stored = {n.id for n in ast.walk(top) if isinstance(n, ast.Name) and isinstance(n.ctx, (ast.Store, ast.Del))}
        stored |= {h.name for h in ast.walk(top) if isinstance(h, ast.ExceptHandler) and h.name}
        locs = stored - params - fnames - globs
        if not locs:
            continue
        ren = {nm: nm + "_v" for nm in locs}
        for n in ast.walk(top):
            if isinstance(n, ast.Name) and n.id in ren:
                n.id = ren[n.id]
                renamed += 1
            elif isinstance(n, ast.ExceptHandler) and n.name in ren:
                n.name = ren[n.name]
            elif isinstance(n, ast.Nonlocal):
                n.names = [ren.get(x, x) for x in n.names]
    if renamed:
        out.append((f"alpha-rename {renamed} occurrences of local variables (suffix _v)", ast.unparse(tree)))
    # 5. swap the branches of every if/else with a negated condition
    tree = copy.deepcopy(mod.tree)
    swapped = 0
    for n in ast.walk(tree):
        if isinstance(n, ast.If) and n.orelse:
            n.test = n.test.operand if isinstance(n.test, ast.UnaryOp) and isinstance(n.test.op, ast.Not) else ast.UnaryOp(op=ast.Not(), operand=n.test)
            n.body, n.orelse = n.orelse, n.body
            swapped += 1
        elif isinstance(n, ast.IfExp):
            n.test = n.test.operand if isinstance(n.test, ast.UnaryOp) and isinstance(n.test.op, ast.Not) else ast.UnaryOp(op=ast.Not(), operand=n.test)
            n.body, n.orelse = n.orelse, n.body
            swapped += 1
    if swapped:
        ast.fix_missing_locations(tree)
        out.append((f"swap the branches of {swapped} if/else statements and conditional expressions (negated test)", ast.unparse(tree)))
    return out


# ------------------------------------------------------------------------------------------------ driver
def _make_mutant(args):
    modname, path, text, fn_line, idx = args
    tree = ast.parse(text)
    fn = None
    for n in ast.walk(tree):
        if isinstance(n, (ast.FunctionDef, ast.AsyncFunctionDef)) and n.lineno == fn_line:
            fn = n
            break
    sites = breaking_sites(fn)
    s = sites[idx]
    s.apply()
    ast.fix_missing_locations(tree)
    return s.op, s.desc, ast.unparse(tree)


def _run_one(args):
    """Worker: build the model with one module replaced and run the property's rules."""
    pid, modname, path, text, fn_line, idx, kind = args
    try:
        if kind == "break":
            op, desc, src = _make_mutant((modname, path, text, fn_line, idx))
        else:
            op, desc, src = "benign", idx[0], idx[1]
        try:
            compile(src, path, "exec")
        except SyntaxError:
            return (op, desc, "invalid", [], modname)
        import importlib
        try:
            model = Model(sources={modname: (path, src)})
            ctx = Ctx(pid, model, "thorough", quiet=True)
            mod = importlib.import_module(f"ubcheck.rules.{pid.lower()}")
            def new():
                # recorded known findings are on the unchanged tree as well: they say nothing about this variant
                known = {(k["rule"], k["instance"], k.get("statement", "")) for k in load_known()
                         if k.get("property") == pid and k.get("status") == "known"}
                return [o for o in ctx.findings if Ctx.key(o) not in known and (o["rule"], o["instance"], "*") not in known
            and not any(k_[0] == o["rule"] and k_[2] == "*" and k_[1].startswith("*") and o["instance"].endswith(k_[1][1:]) for k_ in known)]
            try:
                mod.check(ctx)
            except AnalysisError as e:
                if new():
                    return (op, desc, "violation", sorted({o["rule"] for o in new()}), modname)
                return (op, desc, "analysis-error", [str(e)[:160]], modname)
            if new():
                return (op, desc, "violation", sorted({o["rule"] for o in new()}), modname)
            if ctx.errors:
                return (op, desc, "analysis-error", [ctx.errors[0][:160]], modname)
            return (op, desc, "silent", [], modname)
        except AnalysisError as e:
            return (op, desc, "analysis-error", [str(e)[:160]], modname)
        except Exception:
            # an internal error of a rule on a mutant is what the CLI reports as ANALYSIS-ERROR (exit 2)
            return (op, desc, "analysis-error" if kind == "break" else "crash", ["internal: " + traceback.format_exc()[-200:]], modname)
    except Exception:
        return ("?", f"{modname}:{fn_line}#{idx}", "crash", [traceback.format_exc()[-300:]], modname)


def adequacy(pid, rulemod, ctx):
    """Returns (extra coverage dict, error string or None)."""
    m = ctx.model
    scope = scope_functions(ctx)
    jobs = []
    seed = int(os.environ.get("VERIF_SEED", "0") or 0)
    for modname, fn_line, qual in scope:
        mod = m.modules[modname]
        tree = ast.parse(mod.src)
        fn = next((n for n in ast.walk(tree) if isinstance(n, (ast.FunctionDef, ast.AsyncFunctionDef)) and n.lineno == fn_line), None)
        if fn is None:
            continue
        n_sites = len(breaking_sites(fn))
        for i in range(n_sites):
            jobs.append((pid, modname, mod.path, mod.src, fn_line, i, "break"))
    total_sites = len(jobs)
    if len(jobs) > MAX_MUTANTS:
        # deterministic thinning: every k-th site, offset by the seed
        k = (len(jobs) + MAX_MUTANTS - 1) // MAX_MUTANTS
        jobs = jobs[seed % k::k]
    bjobs = []
    for modname in sorted({s[0] for s in scope}):
        mod = m.modules[modname]
        for desc, src in benign_variants(m, modname, None):
            bjobs.append((pid, modname, mod.path, mod.src, 0, (desc, src), "benign"))
    procs = min(16, (os.cpu_count() or 2))
    with mp.Pool(procs) as pool:
        res = pool.map(_run_one, jobs + bjobs, chunksize=2)
    breaking = res[:len(jobs)]
    benign = res[len(jobs):]
    killed = [r for r in breaking if r[2] == "violation"]
    flagged = [r for r in breaking if r[2] == "analysis-error"]
    silent = [r for r in breaking if r[2] == "silent"]
    invalid = [r for r in breaking if r[2] in ("invalid", "crash")]
    rules_hit = {}
    for r in killed:
        for rule in r[3]:
            rules_hit[rule] = rules_hit.get(rule, 0) + 1
    false_alarms = [r for r in benign if r[2] == "violation"]
    benign_errors = [r for r in benign if r[2] in ("analysis-error", "crash")]
    declared = sorted(ctx.rules_text)
    never = [r for r in declared if r not in rules_hit]
    by_op = {}
    for r in breaking:
        d = by_op.setdefault(r[0], {"violation": 0, "analysis-error": 0, "silent": 0, "invalid": 0, "crash": 0})
        d[r[2]] = d.get(r[2], 0) + 1
    extra = {
        "mutation": {
            "scope_functions": [q for _m, _l, q in scope],
            "sites_total": total_sites,
            "mutants_run": len(jobs),
            "killed_by_violation": len(killed),
            "flagged_by_analysis_error": len(flagged),
            "silent": len(silent),
            "invalid_or_crash": len(invalid),
            "by_operator": by_op,
            "kills_per_rule": rules_hit,
            "rules_without_a_kill": never,
            "silent_samples": [f"{r[4]} {r[1]}" for r in silent[:25]],
            "killed_samples": [f"{r[4]} {r[1]} -> {','.join(r[3])}" for r in killed[:12]],
            "benign_variants_run": len(benign),
            "benign_false_alarms": [f"{r[4]} {r[1]} -> {','.join(r[3])}" for r in false_alarms],
            "benign_analysis_errors": [f"{r[4]} {r[1]} -> {r[3]}" for r in benign_errors],
            "note": ("silent mutants are either outside the structural clauses this property claims (validation code, "
                     "messages, repr) or equivalent; they are listed, not hidden"),
        },
        "evaluations": len(ctx.obligations) + len(jobs) + len(benign),
    }
    err = None
    if invalid and any(r[2] == "crash" for r in invalid):
        err = f"checker crashed on {sum(1 for r in invalid if r[2] == 'crash')} mutant(s): {invalid[0][3]}"
    elif false_alarms:
        err = f"rules raised an alarm on behaviour-preserving variants: {extra['mutation']['benign_false_alarms'][:3]}"
    elif benign_errors:
        err = f"rules could not analyse behaviour-preserving variants: {extra['mutation']['benign_analysis_errors'][:2]}"
    elif jobs and not killed:
        err = "INSENSITIVE: no breaking mutant was reported by any rule"
    if not ctx.quiet:
        print(f"{pid} [thorough]: mutation adequacy over {len(scope)} functions: {len(jobs)} mutants run "
              f"({total_sites} sites): {len(killed)} reported as violation, {len(flagged)} as analysis error, "
              f"{len(silent)} silent; rules without a kill: {never or 'none'}; benign variants: {len(benign)} run, "
              f"{len(false_alarms)} false alarm(s), {len(benign_errors)} analysis error(s)")
    return extra, err
