"""Development tool (not a registered check): run ALL checks against behaviour-preserving refactorings.

For each <dir>/<id>/patch.diff: scratch worktree of /repo HEAD (outside /repo and /verif, removed afterwards), apply the
patch, optionally run the 81 tests on it (PYTHONPATH=<wt>/src), then run `python -m ubcheck <every property>` with
UBCHECK_SRC pointing at the worktree.  Every non-zero exit is a false alarm (rc=1) or a robustness failure (rc=2)
of the machinery - the refactoring is supposed to leave every property intact.
usage: benign.py [--dir DIR] [--tests] [--props C01,C02] [ids...]"""
import argparse, json, os, re, shutil, subprocess, sys, tempfile
from concurrent.futures import ThreadPoolExecutor

ap = argparse.ArgumentParser()
ap.add_argument("--dir", default="/verif/benign")
ap.add_argument("--tests", action="store_true")
ap.add_argument("--props", default="all")
ap.add_argument("--json", default=None)
ap.add_argument("ids", nargs="*")
a = ap.parse_args()
ids = a.ids or sorted(os.listdir(a.dir))
allprops = sorted(f[:-3].upper() for f in os.listdir("/verif/ubcheck/rules") if re.fullmatch(r"c\d\d\.py", f))
props = allprops if a.props == "all" else a.props.split(",")


def one_check(wt, out, p):
    env = dict(os.environ, UBCHECK_SRC=os.path.join(wt, "src"), UBCHECK_OUT=out)
    r = subprocess.run(["/venv/bin/python", "-m", "ubcheck", p], cwd="/verif", env=env, capture_output=True, text=True)
    rules = sorted({w.split("=")[1] for line in r.stdout.splitlines() if "rule=" in line for w in line.split() if w.startswith("rule=")})
    msg = f"rc={r.returncode} {','.join(rules)}"
    if r.returncode == 2:
        msg += " " + " ".join(l for l in r.stdout.splitlines() if l.startswith("ANALYSIS-ERROR"))[:400]
    detail = [l for l in r.stdout.splitlines() if "rule=" in l][:6]
    return p, r.returncode, msg, detail


results = {}
bad = 0
for sid in ids:
    d = os.path.join(a.dir, sid)
    patch = os.path.join(d, "patch.diff")
    if not os.path.exists(patch):
        continue
    wt = tempfile.mkdtemp(prefix="ubben_"); os.rmdir(wt)
    out = tempfile.mkdtemp(prefix="ubout_")
    subprocess.run(["git", "-C", "/repo", "worktree", "add", "-q", "--detach", wt, "HEAD"], check=True)
    try:
        r = subprocess.run(["git", "-C", wt, "apply", patch], capture_output=True, text=True)
        if r.returncode:
            print(sid, "PATCH DOES NOT APPLY", r.stderr.strip()[:200]); results[sid] = "noapply"; continue
        if a.tests:
            env = dict(os.environ, PYTHONPATH=os.path.join(wt, "src"))
            t = subprocess.run(["/venv/bin/python", "-m", "pytest", "-q", "-p", "no:cacheprovider", "--timeout=900"], env=env, capture_output=True, text=True, cwd=wt)
            tail = t.stdout.strip().splitlines()[-1] if t.stdout.strip() else ""
            if "81 passed" not in tail or t.returncode:
                print(sid, "TESTS FAIL:", tail); results[sid] = "testsfail"; continue
        with ThreadPoolExecutor(16) as ex:
            res = list(ex.map(lambda p: one_check(wt, out, p), props))
        flagged = [(p, m, det) for p, rc, m, det in res if rc]
        results[sid] = {p: m for p, rc, m, det in res if rc}
        if flagged:
            bad += 1
            print(sid, "ALARM", json.dumps({p: m for p, m, _ in flagged}))
            for p, m, det in flagged:
                for l in det:
                    print("     ", l[:300])
        else:
            print(sid, "silent")
    finally:
        subprocess.run(["git", "-C", "/repo", "worktree", "remove", "--force", wt])
        shutil.rmtree(out, ignore_errors=True)
if a.json:
    json.dump(results, open(a.json, "w"), indent=1)
print(f"{bad} of {len(results)} refactorings raised an alarm")
