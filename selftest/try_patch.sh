#!/bin/bash
# development aid: try_patch.sh <patch.diff> <prop> [<prop>...]  - apply a patch in a scratch worktree and run some checks on it
set -u
P=$1; shift
WT=${TRY_WT:-/tmp/ubtry_wt}
if [ ! -d "$WT" ]; then git -C /repo worktree add -q --detach "$WT" HEAD; fi
git -C "$WT" checkout -q -- . ; git -C "$WT" clean -fdq; git -C "$WT" checkout -q --detach $(git -C /repo rev-parse HEAD)
git -C "$WT" apply "$P" || exit 3
cd /verif
for p in "$@"; do
  UBCHECK_SRC=$WT/src UBCHECK_OUT=/tmp/ubtry_out /venv/bin/python -m ubcheck $p 2>&1 | grep -v "^C.. \[quick\]" | cut -c1-${TRY_W:-400}
  echo "   -> $p rc=${PIPESTATUS[0]}"
done
git -C "$WT" checkout -q -- . ; git -C "$WT" clean -fdq; git -C "$WT" checkout -q --detach $(git -C /repo rev-parse HEAD)
