"""Edge-effect rules of the registry transformation (C09.W, C05.W1-W3, C08.P1, C14.D3, C19.S3).

The transformation (`plan_with_value_stores` and the per-entry rewriting function) is interpreted - by the
checker's own AST evaluator over a checker-side multigraph model, nothing of uberjob is imported or run - on
*generic neighbourhoods*: a registered node with one out-edge of every class (positional, keyword, plain, parallel
positional+plain) and predecessors, for every combination of {fresh, stale} x {stored call, source}, and on all
two-entry chains in both registration orders.  The rewriting function inspects edges only through
`type(dependency)` and iterates uniformly over them, so one representative per class is exhaustive per edge."""
from __future__ import annotations

import ast
import itertools

from ..absval import AbsRaise, ClassVal, Closure, Env, Interp, Native, Obj, Stub, _Return
from ..astq import arg, inside, is_name, loc, names_in, stmt_of
from ..cfg import CFG
from ..model import AnalysisError, Func, head, norm
from . import engine as E
from .common import GRAPH_MUTATORS


class _Adj:
    def __init__(self, g, how):
        self.g, self.how = g, how

    def __getitem__(self, n):
        # networkx adjacency view of a MultiDiGraph: {neighbour: {edge key: attributes}}
        out = {}
        for (a, b, k) in self.g._edges:
            if self.how == "successors" and a is n:
                out.setdefault(b, {})[k] = {}
            elif self.how == "predecessors" and b is n:
                out.setdefault(a, {})[k] = {}
        return out


class _NodeView(list):
    def __call__(self, data=False):
        return list(self)


class MG(Native):
    """Checker-side model of networkx.MultiDiGraph restricted to the API the transformations use."""

    def __init__(self, interp):
        self._i = interp
        self._nodes = []
        self._edges = []  # (u, v, key)

    def _keq(self, a, b):
        if a is b:
            return True
        if isinstance(a, Obj) and isinstance(b, Obj) and a.cls is b.cls:
            return {k: v for k, v in a.attrs.items()} == {k: v for k, v in b.attrs.items()}
        return False

    def add_node(self, n, **kw):
        if n not in self._nodes:
            self._nodes.append(n)

    def has_node(self, n):
        return n in self._nodes

    def add_edge(self, u, v, key=None, **kw):
        self.add_node(u)
        self.add_node(v)
        for (a, b, k) in self._edges:
            if a is u and b is v and self._keq(k, key):
                return key
        self._edges.append((u, v, key))
        return key

    def remove_edge(self, u, v, key=None):
        for i, (a, b, k) in enumerate(self._edges):
            if a is u and b is v and (key is None or self._keq(k, key)):
                del self._edges[i]
                return
        raise AbsRaise("NetworkXError: edge not in graph")

    def remove_node(self, n):
        self._nodes.remove(n)
        self._edges = [e for e in self._edges if e[0] is not n and e[1] is not n]

    def add_nodes_from(self, ns, **kw):
        for n in list(ns):
            self.add_node(n)

    def add_edges_from(self, ebunch, **kw):
        # MultiDiGraph.add_edges_from: (u, v), (u, v, key) or (u, v, key, data); a dict in third position is data
        for e in list(ebunch):
            e = tuple(e)
            key = e[2] if len(e) >= 3 and not isinstance(e[2], dict) else None
            self.add_edge(e[0], e[1], key)

    def remove_edges_from(self, ebunch):
        for e in list(ebunch):
            e = tuple(e)
            try:
                self.remove_edge(e[0], e[1], e[2] if len(e) >= 3 else None)
            except Exception:
                pass  # networkx ignores edges that are not in the graph

    def has_edge(self, u, v, key=None):
        return any(a is u and b is v and (key is None or self._keq(k, key)) for (a, b, k) in self._edges)

    def has_successor(self, u, v):
        return self.has_edge(u, v)

    def has_predecessor(self, u, v):
        return self.has_edge(v, u)

    def remove_nodes_from(self, ns):
        for n in list(ns):
            if n in self._nodes:
                self.remove_node(n)

    @property
    def nodes(self):
        # networkx NodeView: iterable, sized, and callable (graph.nodes / graph.nodes())
        return _NodeView(self._nodes)

    def __iter__(self):
        return iter(list(self._nodes))

    def out_edges(self, n, keys=False):
        return [(u, v, k) if keys else (u, v) for (u, v, k) in self._edges if u is n]

    def in_edges(self, n, keys=False):
        return [(u, v, k) if keys else (u, v) for (u, v, k) in self._edges if v is n]

    def predecessors(self, n):
        out = []
        for (u, v, k) in self._edges:
            if v is n and u not in out:
                out.append(u)
        return out

    def successors(self, n):
        out = []
        for (u, v, k) in self._edges:
            if u is n and v not in out:
                out.append(v)
        return out

    def edges(self, nbunch=None, keys=False, data=False):
        es = [e for e in self._edges if nbunch is None or e[0] is nbunch]
        return [(u, v, k) if keys else (u, v) for (u, v, k) in es]

    def in_degree(self, n=None):
        return len(self.in_edges(n))

    def out_degree(self, n=None):
        return len(self.out_edges(n))

    def number_of_nodes(self):
        return len(self._nodes)

    def number_of_edges(self):
        return len(self._edges)

    def __contains__(self, n):
        return n in self._nodes

    def __len__(self):
        return len(self._nodes)

    @property
    def pred(self):
        return _Adj(self, "predecessors")

    @property
    def succ(self):
        return _Adj(self, "successors")

    def copy(self):
        g = MG(self._i)
        g._nodes = list(self._nodes)
        g._edges = list(self._edges)
        return g

    def reach(self, a, b):
        seen, work = set(), [a]
        while work:
            x = work.pop()
            if x is b:
                return True
            if id(x) in seen:
                continue
            seen.add(id(x))
            work.extend(self.successors(x))
        return False


def _mg_closure(g, n, step):
    if not isinstance(g, MG):
        raise AnalysisError("evaluator: networkx reachability on a value that is not the graph model")
    seen, out, work = set(), [], list(step(g, n))
    while work:
        x = work.pop()
        if id(x) in seen or x is n:
            continue
        seen.add(id(x))
        out.append(x)
        work.extend(step(g, x))
    return set(out)


NX_REACHABILITY = {
    "networkx.descendants": lambda g, n: _mg_closure(g, n, lambda g_, x: g_.successors(x)),
    "networkx.ancestors": lambda g, n: _mg_closure(g, n, lambda g_, x: g_.predecessors(x)),
    "networkx.has_path": lambda g, a, b: a is b or g.reach(a, b),
}
NX_REACHABILITY.update({k.replace("networkx.", "networkx.algorithms.dag."): v for k, v in list(NX_REACHABILITY.items()) if "has_path" not in k})


def _roles_frame(m, tag):
    from .roles import frame_token
    return frame_token(m, tag)


class World:
    compose_prune = False

    """One abstract plan + registry; interprets the registry application on it."""

    def __init__(self, m, rr):
        self.m, self.rr = m, rr
        self.C = {n: m.one_class(n, "W") for n in ("Call", "Literal", "Plan", "Registry", "Dependency",
                                                   "PositionalArg", "KeywordArg", "Node")}
        from . import roles as _roles
        self.C["RegistryValue"] = _roles.registry_value(m)
        self.interp = Interp(m, stubs={"fully_qualified_name": Stub("fqn", lambda x: "fn"),
                                       "get_stack_frame": Stub("gsf", lambda *a: "FRESH-FRAME")},
                             ext={"builtins.type": self._type, "builtins.getattr": lambda o, a, d=None: d,
                                  "threading.RLock": lambda: Obj(None, {}, "lock"), "networkx.MultiDiGraph": lambda: MG(self.interp),
                                  **NX_REACHABILITY})
        self.g = MG(self.interp)
        self.plan = Obj(self.C["Plan"], {"graph": self.g, "_scope": (), "_scope_lock": Obj(None, {}, "lock")}, name="plan")
        # whatever further state the constructor sets up (caches, counters ...): take it from interpreting Plan.__init__
        init = self.C["Plan"].methods.get("__init__")
        if init is not None:
            try:
                probe = Obj(self.C["Plan"], {}, name="plan")
                ext2 = dict(self.interp.ext)
                ext2.setdefault("threading.RLock", lambda: Obj(None, {}, "lock"))
                ext2.setdefault("threading.Lock", lambda: Obj(None, {}, "lock"))
                ext2.setdefault("weakref.WeakKeyDictionary", lambda *a: {})
                ext2.setdefault("weakref.WeakValueDictionary", lambda *a: {})
                it2 = Interp(m, stubs=dict(self.interp.stubs), ext=ext2)
                it2.stubs["Graph"] = Stub("Graph", lambda *a, **k: MG(self.interp))
                it2.call_func(init, None, [], {}, bound_self=probe)
                for k_, v_ in probe.attrs.items():
                    if k_ not in self.plan.attrs:
                        self.plan.attrs[k_] = v_
            except (AbsRaise, AnalysisError):
                pass
        self.names = {}
        self.stores = {}
        self.mapping = {}

    def _type(self, x):
        if isinstance(x, Obj) and x.cls is not None:
            return self.interp.class_val(x.cls)
        return type(x)

    def call(self, name, scope=()):
        n = Obj(self.C["Call"], {"fn": Stub(f"fn_{name}", None), "scope": scope, "stack_frame": f"frame-{name}"}, name=name)
        self.g.add_node(n)
        self.names[id(n)] = name
        return n

    def key(self, kind, *a):
        if kind == "Dep":
            return Obj(self.C["Dependency"], {})
        if kind == "Pos":
            return Obj(self.C["PositionalArg"], {"index": a[0]})
        return Obj(self.C["KeywordArg"], {"name": a[0], "index": a[1]})

    def edge(self, u, v, kind, *a):
        self.g.add_edge(u, v, self.key(kind, *a))

    def register(self, node, is_source):
        nm = self.names[id(node)]
        cls = Obj(None, {"read": Stub(f"read", None), "write": Stub("write", None)}, name=f"StoreClass_{nm}")
        # registered stores are falsy objects (a store that is also an empty container is a legitimate store): "has a store"
        # must be decided with `is None`
        st = Obj(None, {"__class__": cls}, name=f"store_{nm}", truthy=False)
        self.stores[id(node)] = st
        self.mapping[node] = Obj(self.C["RegistryValue"], {"value_store": st, "is_source": is_source, "stack_frame": _roles_frame(self.m, f"regframe-{nm}")})

    def apply(self, stale_nodes, output_node):
        m, rr = self.m, self.rr
        from . import roles as _roles
        from .prunerules import prune_role
        prune_fn = prune_role(m, rr)
        ap = rr.apply
        registry = Obj(self.C["Registry"], {"mapping": self.mapping}, name="registry")
        rec = {}
        stubs = dict(self.interp.stubs)
        for c in ap.own_calls():
            fs = m.callee_funcs(ap, c)
            if not isinstance(c.func, ast.Name):
                continue
            if rr.stale in fs:
                stubs[c.func.id] = Stub("stale", lambda *a, **k: set(stale_nodes))
            elif prune_fn in fs:
                def prune(plan, _real=prune_fn, **kw):
                    rec["required"] = set(kw.get("required_nodes", ()))
                    rec["prune_output"] = kw.get("output_node")
                    rec["graph_at_prune"] = plan.attrs["graph"].copy()
                    if self.compose_prune:
                        # the transformation *composed* with the real pruning, with the arguments exactly as they are handed over
                        # (a one-shot iterable stays one-shot): what survives?
                        res = self.interp.call_func(_real, None, [plan], kw)
                        rec["survivors"] = list(res.attrs["graph"]._nodes) if isinstance(res, Obj) and "graph" in res.attrs else None
                        return res
                    return plan
                stubs[c.func.id] = Stub("prune", prune)
            elif fs and all(f is not rr.rewrite and not _roles.is_mutable_plan_func(m, f) for f in fs) and \
                    all(f.name.startswith("_update") and f.name.endswith("totals") for f in fs):
                stubs[c.func.id] = Stub("totals", lambda *a, **k: None)
        self.interp.stubs = stubs
        env_params = {"plan": self.plan, "registry": registry, "output_node": output_node, "max_workers": None,
                      "retry": Stub("retry", lambda f: f), "fresh_time": getattr(self, "fresh_time", None), "inplace": True,
                      "progress_observer": Obj(None, {k: Stub(k, lambda *a, **kw: None) for k in ("increment_total",)})}
        args, kwargs = [], {}
        for p in ap.params:
            if p not in env_params:
                raise AnalysisError(f"W: unexpected parameter {p} of the registry application")
        for p in ap.pos_params:
            args.append(env_params[p])
        for p in ap.kwonly_params:
            kwargs[p] = env_params[p]
        try:
            ret = self.interp.call_func(ap, None, args, kwargs)
        except AbsRaise as e:
            raise AnalysisError(f"W: abstract evaluation of the registry transformation raised {e.value!r}")
        if not (isinstance(ret, tuple) and len(ret) == 2):
            raise AnalysisError("W: the registry application does not return (plan, output_node)")
        rec["ret_plan"], rec["ret_output"] = ret
        return rec

    # -- describing the result
    def role(self, n):
        if id(n) in self.names:
            return self.names[id(n)]
        if isinstance(n, Obj) and n.cls is self.C["Literal"]:
            v = n.attrs.get("value")
            for nid, st in self.stores.items():
                if v is st:
                    return f"L[{self.names[nid]}]"
            if isinstance(v, Obj) and v.cls is not None and v.cls.module.name.startswith("uberjob._transformations") and not v.attrs:
                # the barrier marker: a field-less singleton of a class of the transformation package (today BarrierType)
                return "B#"
            return "Lit?"
        if isinstance(n, Obj) and n.cls is self.C["Call"]:
            fn = n.attrs.get("fn")
            for nid, st in self.stores.items():
                if fn is st.attrs["__class__"].attrs["read"]:
                    return f"R[{self._owner(n, 'read')}]"
                if fn is st.attrs["__class__"].attrs["write"]:
                    return f"W[{self._owner(n, 'write')}]"
            return "Call?"
        return "?"

    def _owner(self, n, kind):
        # owner = the registered node whose store literal is this call's first positional argument
        for (u, v, k) in self.g._edges:
            if v is n and isinstance(k, Obj) and k.cls is self.C["PositionalArg"] and k.attrs.get("index") == 0:
                if isinstance(u, Obj) and u.cls is self.C["Literal"]:
                    for nid, st in self.stores.items():
                        if u.attrs.get("value") is st:
                            return self.names[nid]
        return "?"

    def keyname(self, k):
        if isinstance(k, Obj) and k.cls is self.C["PositionalArg"]:
            return f"Pos({k.attrs.get('index')})"
        if isinstance(k, Obj) and k.cls is self.C["KeywordArg"]:
            return f"Kw({k.attrs.get('name')},{k.attrs.get('index')})"
        if isinstance(k, Obj) and k.cls is self.C["Dependency"]:
            return "Dep"
        return f"?{k!r}"

    def edges(self, g=None):
        g = g or self.g
        out = set()
        barrier_owner = {}
        for (u, v, k) in g._edges:
            out.add((self.role(u), self.role(v), self.keyname(k)))
        return out

    def find(self, role):
        return [n for n in self.g._nodes if self.role(n) == role]


def generic_single(m, rr, stale, src):
    w = World(m, rr)
    N = w.call("N", scope=("s",))
    P1, P2 = w.call("P1"), w.call("P2")
    Sp, Sk, Sd, Sx = w.call("Spos"), w.call("Skw"), w.call("Sdep"), w.call("Spar")
    w.edge(P1, N, "Pos", 0)
    w.edge(P2, N, "Dep")
    w.edge(N, Sp, "Pos", 0)
    w.edge(N, Sk, "Kw", "x", 0)
    w.edge(N, Sd, "Dep")
    w.edge(N, Sx, "Pos", 0)
    w.edge(N, Sx, "Dep")
    w.register(N, src)
    rec = w.apply({N} if stale else set(), N)
    return w, rec, N


def terminal_single(m, rr, stale, src, fresh):
    """A registered output that nothing in the plan consumes, with and without a forced refresh (fresh_time given)."""
    w = World(m, rr)
    N = w.call("N", scope=("s",))
    P1 = w.call("P1")
    w.edge(P1, N, "Pos", 0)
    w.register(N, src)
    if fresh:
        w.fresh_time = Obj(None, {}, name="fresh_time")
    rec = w.apply({N} if stale else set(), N)
    return w, rec, N


def expected_single(stale, src):
    e = {("P1", "N", "Pos(0)"), ("P2", "N", "Dep"), ("L[N]", "R[N]", "Pos(0)"),
         ("R[N]", "Spos", "Pos(0)"), ("R[N]", "Skw", "Kw(x,0)"), ("R[N]", "Spar", "Pos(0)")}
    if stale and not src:
        e |= {("L[N]", "W[N]", "Pos(0)"), ("N", "W[N]", "Pos(1)"), ("W[N]", "R[N]", "Dep"), ("W[N]", "Sdep", "Dep"),
              ("W[N]", "Spar", "Dep")}
    if stale and src:
        e |= {("P1", "B#", "Dep"), ("P2", "B#", "Dep"), ("B#", "R[N]", "Dep"), ("B#", "Sdep", "Dep"), ("B#", "Spar", "Dep")}
    return e


def rule_edge_effect_table(ctx, rid, rr, rid_fresh=None, rid_frames=None):
    """W: exact edge effect on the generic neighbourhood for the four (stale, source) cases."""
    m = ctx.model
    rw = rr.rewrite
    n = 0
    for stale in (False, True):
        for src in (False, True):
            n += 1
            w, rec, N = generic_single(m, rr, stale, src)
            got = w.edges()
            want = expected_single(stale, src)
            target = rid_fresh if (not stale and rid_fresh) else rid
            missing, extra = sorted(want - got), sorted(got - want)
            ok = not missing and not extra
            case = f"stale={stale},source={src}"
            ctx.ob(target, f"{rw.short}/edge-table[{case}]", ok, loc(rw),
                   "resulting edges equal the required table (consumers hang off the read node, plain dependents and the "
                   "read node off the write node/barrier, barrier inherits all predecessors, fresh node keeps no consumer)"
                   if ok else f"edge table deviates: missing {missing}, unexpected {extra}", case)
            # returned output / required set
            wn = (w.find("W[N]") + w.find("B#"))
            rn = w.find("R[N]")
            ok_out = len(rn) == 1 and rec["ret_output"] is rn[0] and rec.get("prune_output") is rn[0]
            ctx.ob(rid, f"{rr.apply.short}/output-redirected[{case}]", ok_out, loc(rr.apply),
                   "a registered output is redirected to its read node before pruning and in the returned pair" if ok_out else
                   "the output node is not redirected to the read node: the run returns the in-memory value (or prunes the read)", case)
            # the same for an output without consumers, with and without fresh_time (round 9: C09-U)
            for fresh in (False, True):
                tw, trec, _tn = terminal_single(m, rr, stale, src, fresh)
                trn = tw.find("R[N]")
                ok_t = len(trn) == 1 and trec["ret_output"] is trn[0] and trec.get("prune_output") is trn[0]
                tcase = f"{case},terminal,fresh_time={'given' if fresh else 'None'}"
                ctx.ob(rid, f"{rr.apply.short}/output-redirected[{tcase}]", ok_t, loc(rr.apply),
                       "a registered output without consumers is redirected to its read node before pruning and in the returned pair" if ok_t else
                       "a registered output without consumers is not redirected to the read node: the run returns the in-memory value, "
                       f"not what the store reads back (pruning keeps {tw.role(trec.get('prune_output'))}, the caller gets {tw.role(trec.get('ret_output'))})", tcase)
            req = rec.get("required", set())
            ok_req = (req == set(wn)) if stale else (req == set())
            ctx.ob(target, f"{rr.apply.short}/required-set[{case}]", ok_req, loc(rr.apply),
                   "required set = {write node/barrier} iff stale" if ok_req else
                   f"required set is {sorted(w.role(x) for x in req)}", case)
            if rid_frames:
                frames = {w.role(x): x.attrs.get("stack_frame") for x in rn + [y for y in wn if w.role(y) == "W[N]"]}
                okf = all(getattr(v, "name", v) == "regframe-N" for v in frames.values()) and bool(frames)
                ctx.ob(rid_frames, f"{rw.short}/entry-frame[{case}]", okf, loc(rw),
                       "store read/write calls carry the registry entry's stack frame" if okf else
                       f"store calls carry {frames} instead of the registry entry's frame", case)
    ctx.floor(rid, "generic single-entry cases", n, 4)


def rule_independent_entries(ctx, rid, rr):
    """Two registered calls that do not depend on each other, the output is one of them: the transformation composed with the real
    pruning keeps the write of the *other* one when it is out of date (it is required although the output does not depend on it)."""
    m = ctx.model
    probs, n = [], 0
    for stA, stB, out in ((True, False, "B"), (True, True, "B"), (True, False, None), (False, True, "A")):
        w = World(m, rr)
        w.compose_prune = True
        A, B = w.call("A"), w.call("B")
        Ua, Ub = w.call("Ua"), w.call("Ub")
        w.edge(Ua, A, "Pos", 0)
        w.edge(Ub, B, "Pos", 0)
        w.register(A, False)
        w.register(B, False)
        stale = {x for x, s_ in ((A, stA), (B, stB)) if s_}
        rec = w.apply(stale, {"A": A, "B": B, None: None}[out])
        n += 1
        surv = rec.get("survivors")
        if surv is None:
            raise AnalysisError("W: the composed pruning did not return a plan")
        req = list(rec.get("required", ()))
        if len(req) != int(stA) + int(stB):
            probs.append(f"stale A={stA} B={stB}, output {out}: {len(req)} node(s) are handed to the pruning as required, {int(stA) + int(stB)} entries are out of date")
        lost = [y for y in req if not any(y is z for z in surv)]
        if lost:
            probs.append(f"stale A={stA} B={stB}, output {out}: {len(lost)} required write node(s) do not survive the pruning (not upstream of the "
                         f"output): the run succeeds and leaves an out-of-date store as it is")
    ctx.ob(rid, f"{rr.apply.short}/independent-entries", not probs, loc(rr.apply),
           f"evaluated on {n} plans with two independent registered calls: every out-of-date entry is written, whatever the output" if not probs
           else "; ".join(probs[:2]))


def rule_two_entry_chains(ctx, rid, rr):
    """Happens-before constraints on all two-entry chains A -> B in both registration orders."""
    m = ctx.model
    n = 0
    bad = []
    rule_independent_entries(ctx, rid, rr)
    for rel, b_src in (("arg", False), ("dep", False), ("dep", True)):
        for order in ("AB", "BA"):
            for stA, stB in ((True, True), (False, True), (False, False)):
                n += 1
                w = World(m, rr)
                U = w.call("U")
                A = w.call("A")
                B = w.call("B")
                Cn = w.call("C")
                w.edge(U, A, "Pos", 0)
                if rel == "arg":
                    w.edge(A, B, "Pos", 0)
                else:
                    w.edge(A, B, "Dep")
                w.edge(B, Cn, "Pos", 0)
                for x in order:
                    w.register(A if x == "A" else B, b_src if x == "B" else False)
                stale = {x for x, s in ((A, stA), (B, stB)) if s}
                rec = w.apply(stale, B)
                g = w.g
                case = f"A-{rel}->B{'(source)' if b_src else ''},registered {order},stale A={stA} B={stB}"
                probs = []

                def one(role):
                    xs = w.find(role)
                    if len(xs) != 1:
                        probs.append(f"{role}: {len(xs)} nodes")
                        return None
                    return xs[0]
                RA, RB = one("R[A]"), one("R[B]")
                WA = (w.find("W[A]") or [None])[0]
                WBs = w.find("W[B]") + w.find("B#")
                WB = WBs[0] if WBs else None
                if stA and WA is None:
                    probs.append("stale A has no write node")
                if stB and WB is None:
                    probs.append("stale B has no write node/barrier")
                if not stA and WA is not None:
                    probs.append("fresh A got a write node")
                if RA and RB:
                    if stA and WA and not g.reach(WA, RA):
                        probs.append("write(A) does not precede read(A)")
                    if stB and WB and not g.reach(WB, RB):
                        probs.append("write/barrier(B) does not precede read(B)")
                    e = w.edges()
                    if rel == "arg":
                        if ("R[A]", "B", "Pos(0)") not in e or ("A", "B", "Pos(0)") in e:
                            probs.append("argument consumer B is not fed from read(A)")
                    else:
                        if stA and WA:
                            if not b_src and not g.reach(WA, B):
                                probs.append("plain dependent B can start before write(A)")
                            if not g.reach(WA, RB):
                                probs.append("read(B) is not ordered after write(A): a dependent source is read before the "
                                             "value it depends on was written")
                        if ("A", "B", "Dep") in e:
                            probs.append("original node A keeps its plain dependent")
                    if ("R[B]", "C", "Pos(0)") not in e or ("B", "C", "Pos(0)") in e:
                        probs.append("consumer C is not fed from read(B)")
                    if rec["ret_output"] is not RB:
                        probs.append("output not redirected to read(B)")
                    want_req = {x for x in (WA if stA else None, WB if stB else None) if x is not None}
                    if rec.get("required") != want_req:
                        probs.append(f"required set {sorted(w.role(x) for x in rec.get('required', ()))}")
                if probs:
                    bad.append((case, probs))
                ctx.ob(rid, f"{rr.apply.short}/chain[{case}]", not probs, loc(rr.apply),
                       "ordering constraints hold (write -> read-back -> consumers; dependents after the write; output redirected)"
                       if not probs else "; ".join(probs), case)
    ctx.floor(rid, "two-entry chain cases", n, 18)


def rule_snapshot_before_mutation(ctx, rid, rr):
    """The per-entry rewriting reads the node's out-edges from the *current* graph, materialised, before it
    mutates anything; the rewiring loop ranges over exactly that snapshot."""
    m = ctx.model
    rw = rr.rewrite
    mod = rw.module
    loops = [n for n in rw.own_nodes() if isinstance(n, ast.For) and any(
        isinstance(c, ast.Call) and isinstance(c.func, ast.Attribute) and c.func.attr == "remove_edge" for c in ast.walk(n))]
    loops = [n for n in loops if not any(o is not n and any(o is x for x in ast.walk(n)) for o in loops)]   # innermost
    if len(loops) != 1 or not isinstance(loops[0].iter, ast.Name):
        raise AnalysisError(f"{rw.qualname}: rewiring loop over a named snapshot not found")
    lp = loops[0]
    snap = lp.iter.id
    bs = [b for b in rw.bindings.get(snap, [])]
    # the node whose edges are rewired: first argument of every remove_edge of the loop
    rm_nodes = {c.args[0].id if c.args and isinstance(c.args[0], ast.Name) else None for c in ast.walk(lp)
                if isinstance(c, ast.Call) and isinstance(c.func, ast.Attribute) and c.func.attr == "remove_edge"}
    nodep = rm_nodes.pop() if len(rm_nodes) == 1 else None
    per_entry = False
    if nodep:
        if nodep in rw.pos_params or nodep in getattr(rw, "kwonly_params", ()):
            per_entry = True   # the function is the per-entry step (the chain cases of this property evaluate who calls it)
        elif len(bs) == 1 and bs[0][0] == "assign":
            # the same iteration of a loop over the entries binds the node, takes the snapshot and rewires
            snap_stmt = stmt_of(mod, bs[0][1])
            for outer in [n for n in rw.own_nodes() if isinstance(n, ast.For) and n is not lp]:
                tn = {x.id for x in ast.walk(outer.target) if isinstance(x, ast.Name)}
                inside = {id(x) for x in ast.walk(outer)}
                if nodep in tn and id(snap_stmt) in inside and id(lp) in inside:
                    per_entry = True
    ok = len(bs) == 1 and bs[0][0] == "assign" and isinstance(bs[0][1], ast.Call) and is_name(bs[0][1].func, "list") and \
        isinstance(bs[0][1].args[0], ast.Call) and isinstance(bs[0][1].args[0].func, ast.Attribute) and \
        bs[0][1].args[0].func.attr == "out_edges" and nodep and per_entry and is_name(bs[0][1].args[0].args[0], nodep) and \
        any(k.arg == "keys" and getattr(k.value, "value", None) is True for k in bs[0][1].args[0].keywords)
    ctx.ob(rid, f"{rw.short}/snapshot-from-current-graph", ok, loc(rw, lp),
           "out-edge snapshot = list(graph.out_edges(node, keys=True)) taken inside the per-entry rewriting" if ok else
           "the out-edges are not read from the current graph inside the per-entry rewriting (a stale snapshot misses edges "
           "added while earlier entries were processed)", head(lp))
    if ok:
        g = CFG(rw)
        sn = set(g.of(stmt_of(mod, bs[0][1])))
        muts = [c for c in rw.own_calls() if (isinstance(c.func, ast.Attribute) and c.func.attr in GRAPH_MUTATORS | {"lit", "_call", "call"})
                or any(f.parent is rw for f in m.callee_funcs(rw, c))]
        allok = True
        for c in muts:
            for cn in g.of(stmt_of(mod, c)):
                if not g.dominates(sn, cn):
                    allok = False
        ctx.ob(rid, f"{rw.short}/snapshot-dominates-mutations", allok, loc(rw),
               "the snapshot is taken before any node or edge is created" if allok else
               "nodes/edges are created before the out-edge snapshot is taken (the new edges are rewired too)")
