"""C12: FileStore.get_modified_time can decrease across successive writes.

get_modified_time returns datetime.fromtimestamp(mtime): a *naive local* datetime.  In a zone with daylight saving the hour
before the clocks go back is repeated; fromtimestamp marks the second pass with fold=1, but comparison of naive datetimes
ignores fold.  A file written at 01:30 (first pass) and written again 40 minutes later, at 01:10 (second pass), reports a
modified time that went DOWN.  (uberjob's own stale check is not affected: it normalises with astimezone(), which honours
fold.  Callers comparing the values themselves - as the docs suggest for fresh_time - are.)

usage: PYTHONPATH=<tree>/src python C12_modified_time_decreases_repro.py   (exit 1 = defect observed, 0 = not observed)"""
import calendar
import os
import sys
import tempfile
import time

os.environ["TZ"] = "GMT0BST,M3.5.0/1,M10.5.0/2"  # UK rules: clocks go back at 02:00 BST on the last Sunday of October
time.tzset()

from uberjob.stores import TextFileStore  # noqa: E402


def main():
    with tempfile.TemporaryDirectory() as d:
        store = TextFileStore(os.path.join(d, "value.txt"))
        first = calendar.timegm((2025, 10, 26, 0, 30, 0))   # 01:30 BST, first pass through the repeated hour
        second = calendar.timegm((2025, 10, 26, 1, 10, 0))  # 01:10 GMT, second pass: 40 minutes LATER
        store.write("v1")
        os.utime(store.path, (first, first))
        t1 = store.get_modified_time()
        store.write("v2")
        os.utime(store.path, (second, second))
        t2 = store.get_modified_time()
        print("after the first write :", t1, "fold", t1.fold)
        print("after the second write:", t2, "fold", t2.fold, "(", second - first, "seconds later )")
        if t2 < t1:
            print("DEFECT: the reported modified time decreased across successive writes")
            return 1
        print("ok: the reported modified time did not decrease")
        return 0


if __name__ == "__main__":
    sys.exit(main())
