"""Roles and rules around `run`, `run_physical`, the stale check and the registry transformation."""
from __future__ import annotations

import ast

from ..astq import (comes_before, arg, canon, const, ext_names, handler_catches_all, handler_classes, inside, is_name, loc, names_in,
                    stmt_of, in_body)
from ..cfg import CFG, any_call_may_raise
from ..model import AnalysisError, Func, head, norm
from . import roles
from . import engine as E


class RunRoles:
    pass


def discover(m, er=None):
    er = er or E.discover(m)
    r = RunRoles()
    r.er = er
    r.run = [f for f in m.find_funcs("run") if f.module.name == "uberjob._run" and f.parent is None and f.cls is None]
    if len(r.run) != 1:
        raise AnalysisError("role RUN: def run in uberjob._run not found")
    r.run = r.run[0]
    r.prep_run = m.one_func("prep_run_physical", "PREPRUN")
    # callbacks flowing into the engine's callable parameter
    cbs = {o[1] for o in m.callee_origins(er.nodecb, er.usercall) if o[0] in ("func", "bound")}
    r.runcb = [f for f in cbs if f.parent is r.prep_run]
    r.stalecb = [f for f in cbs if f.parent is not r.prep_run and f.parent is not None]
    if len(r.runcb) != 1 or len(r.stalecb) != 1:
        raise AnalysisError(f"roles RUNCB/STALECB: callbacks reaching the engine are {sorted(f.qualname for f in cbs)}")
    r.runcb, r.stalecb = r.runcb[0], r.stalecb[0]
    r.stale = r.stalecb.parent
    callers = {c for c, _ in m.callers.get(r.stale, ())}
    if len(callers) != 1:
        raise AnalysisError("role APPLY: the stale check must have exactly one caller")
    r.apply = next(iter(callers))
    r.run_physical = [f for f in m.funcs.values() if f.parent is None and any(g is r.prep_run for g, k in m.call_edges.get(f, ()))
                      and any(g is er.engine for g, k in m.call_edges.get(f, ()))]
    if len(r.run_physical) != 1:
        raise AnalysisError("role RUNPHYS: function calling both prep_run_physical and the engine not found")
    r.run_physical = r.run_physical[0]
    r.rewrite = [f for f in m.reachable([r.apply], kinds=("call",)) if f.module is r.apply.module and
                 any(isinstance(c.func, ast.Attribute) and c.func.attr == "remove_edge" for c in f.own_calls())]
    if len(r.rewrite) != 1:
        raise AnalysisError("role REWRITE: expected one function below the registry application that removes edges")
    r.rewrite = r.rewrite[0]
    # BOUNDCALL: the method the run callback invokes with the node's function (`<bound call>.run(node.fn, retry)`)
    cands = set()
    for f_ in [r.runcb] + [g for g in m.reachable([r.runcb], kinds=("call",)) if g.parent is r.runcb or g.parent is r.prep_run]:
        for c in f_.own_calls():
            if any(isinstance(a_, ast.Attribute) and a_.attr == "fn" for a_ in c.args):
                cands |= {g for g in m.callee_funcs(f_, c) if g.cls is not None}
    if len(cands) != 1:
        raise AnalysisError(f"role BOUNDCALL: expected one method invoked by the run callback with the node's function, found {sorted(g.qualname for g in cands)}")
    r.bound_run = next(iter(cands))
    # the observer variable of run: the local assigned from `<progress>.observer()`
    ov = [nm for nm, bs in r.run.bindings.items() for k, e, p_ in bs if k == "assign" and isinstance(e, ast.Call)
          and isinstance(e.func, ast.Attribute) and e.func.attr == "observer"]
    if len(ov) != 1:
        raise AnalysisError("role OBSERVER: run must create exactly one observer via <progress>.observer()")
    r.observer_var = ov[0]
    # closures of the stale callback chain
    r.stale_closures = [f for f in m.reachable([r.stalecb], kinds=("call",)) if f.parent is r.stale]
    return r


def calls_to(m, f, target):
    return [c for c in f.own_calls() if target in m.callee_funcs(f, c)]


# ------------------------------------------------------------------------------------------------ C04.D3
def rule_prune_before_execute(ctx, rid, r):
    m = ctx.model
    run = r.run
    g = CFG(run, may_raise=any_call_may_raise)
    execs = calls_to(m, run, r.run_physical)
    ctx.floor(rid, "execution call sites in run", len(execs), 1)
    from .prunerules import prune_role
    prune = prune_role(m, r)
    pcalls = calls_to(m, run, prune)
    acalls = calls_to(m, run, r.apply)
    doms = set()
    for c in pcalls + acalls:
        doms |= set(g.of(stmt_of(run.module, c)))
    for x in execs:
        for xn in g.of(stmt_of(run.module, x)):
            ok = g.dominates(doms, xn)
            p = "" if ok else g.fmt_path(g.path(g.entry, {xn}, avoid=doms))
            ctx.ob(rid, f"{run.short}/prune-dominates-execution", ok, loc(run, x),
                   "every path to the execution passes prune_plan or the registry transformation (which ends in prune_plan)"
                   if ok else "the plan can be executed without pruning to the ancestors of the output: unneeded calls run",
                   norm(x)[:120], p)
    # prune_plan arguments on the no-registry arm: output_node = the gathered output
    for c in pcalls:
        on = arg(c, None, "output_node")
        rn = arg(c, None, "required_nodes")
        ok = on is not None and isinstance(on, ast.Name)
        if ok:
            # every value that can reach this argument is what gathering the output specification produced (or None: no output)
            from ..cfg import value_sources
            gn = roles.gather_names(m)
            leaves = value_sources(run, g, on.id, c, run.module)

            def gathered(leaf):
                return leaf[0] == "expr" and ((isinstance(leaf[1], ast.Call) and isinstance(leaf[1].func, ast.Attribute) and leaf[1].func.attr in gn)
                                              or (isinstance(leaf[1], ast.Constant) and leaf[1].value is None))
            ok = bool(leaves) and all(gathered(l_) for l_ in leaves) and any(isinstance(l_[1], ast.Call) for l_ in leaves)
        ctx.ob(rid, f"{run.short}/prune-output", bool(ok), loc(run, c),
               "prune_plan is given the gathered output node" if ok else "prune_plan is not given the gathered output node", norm(c))
        ok = rn is not None and norm(rn) in ("[]", "()", "set()")
        ctx.ob(rid, f"{run.short}/prune-required-empty", ok, loc(run, c), "no extra required nodes without a registry" if ok else
               "extra required nodes on the no-registry path", norm(c))
    # the registry transformation ends in prune_plan on every path to its return
    ap = r.apply
    ga = CFG(ap, may_raise=any_call_may_raise)
    pc = calls_to(m, ap, prune)
    pn = set()
    for c in pc:
        pn |= set(ga.of(stmt_of(ap.module, c)))
    rets = [n for n in ap.own_nodes() if isinstance(n, ast.Return)]
    for rt in rets:
        for rn_ in ga.of(rt):
            ok = ga.dominates(pn, rn_)
            ctx.ob(rid, f"{ap.short}/ends-in-prune", ok, loc(ap, rt), "prune_plan dominates the return" if ok else
                   "the transformed plan can be returned unpruned", norm(rt))
    # the run callback invokes the bound call once, under an exact Call test, no loop around it
    cb = r.runcb
    runs = [c for c in cb.own_calls() if r.bound_run in m.callee_funcs(cb, c)]
    ok = len(runs) == 1 and not any(isinstance(p, (ast.For, ast.While)) and inside(cb.module, runs[0], p) for p in ast.walk(cb.node))
    ctx.ob(rid, f"{cb.short}/one-execution", ok, loc(cb), "the bound call is run once per callback invocation" if ok else
           "the bound call is run in a loop or at several sites")
    if runs:
        conds = E.path_condition(cb.module, stmt_of(cb.module, runs[0]), cb.node)
        ok = any(norm(t) == f"type({cb.pos_params[0]}) is Call" and pol for t, pol in conds)
        ctx.ob(rid, f"{cb.short}/only-calls-execute", ok, loc(cb, runs[0]), "only exact Call nodes execute" if ok else
               "execution is not guarded by `type(node) is Call`", norm(runs[0]))


# ------------------------------------------------------------------------------------------------ C06.X4
def rule_cause_chain(ctx, rid, r):
    """Handlers between the user-reaching call and the API keep node and cause."""
    m = ctx.model
    n_handlers = 0
    for cb in (r.runcb, r.stalecb):
        nodep = cb.pos_params[0]
        for t in [n for n in cb.own_nodes() if isinstance(n, ast.Try)]:
            for h in t.handlers:
                n_handlers += 1
                raises = [n for n in ast.walk(h) if isinstance(n, ast.Raise)]
                ok_any = bool(raises)
                ctx.ob(rid, f"{cb.short}/handler-raises", ok_any, loc(cb, h), "handler re-raises as the carrier" if ok_any else
                       "handler swallows the failure of the call: the engine counts the node as successful and runs its "
                       "dependents", head(h))
                for rs in raises:
                    if rs.exc is None:
                        ctx.ob(rid, f"{cb.short}/raise", True, loc(cb, rs), "bare re-raise", norm(rs))
                        continue
                    okc = rs.cause is not None and h.name and is_name(rs.cause, h.name)
                    ctx.ob(rid, f"{cb.short}/cause-is-caught-exception", bool(okc), loc(cb, rs),
                           "raise ... from <the caught exception object>" if okc else
                           "the carrier is not chained to the very exception object that was caught "
                           "(missing `from`, `from None`, or a different object)", norm(rs))
                    e = rs.exc
                    okn = isinstance(e, ast.Call) and len(e.args) == 1 and is_name(e.args[0], nodep)
                    ctx.ob(rid, f"{cb.short}/carrier-names-this-node", bool(okn), loc(cb, rs),
                           "carrier is built from the callback's own node" if okn else
                           "carrier is not built from the node being processed", norm(rs))
                # observer gets a CallError chained to the same exception
                for c in [x for x in ast.walk(h) if isinstance(x, ast.Call) and any(f.name == "create_chained_call_error" for f in m.callee_funcs(cb, x) if x in cb.own_calls())]:
                    ok = len(c.args) == 2 and is_name(c.args[0], nodep) and is_name(c.args[1], h.name)
                    ctx.ob(rid, f"{cb.short}/observer-error", ok, loc(cb, c), "observer receives CallError(node) chained to the caught exception"
                           if ok else "observer error is not built from (node, caught exception)", norm(c))
    ctx.floor(rid, "handlers in the run / stale callbacks", n_handlers, 2)
    # run: carrier -> CallError(e.node) from e.__cause__
    run = r.run
    hs = [h for n in run.own_nodes() if isinstance(n, ast.Try) for h in n.handlers]
    ctx.floor(rid, "handlers in run", len(hs), 1)
    for h in hs:
        classes = handler_classes(h)
        for rs in [n for n in ast.walk(h) if isinstance(n, ast.Raise)]:
            if rs.exc is None:
                continue
            ok = classes == ["NodeError"] and h.name and norm(rs.cause) == f"{h.name}.__cause__" and \
                isinstance(rs.exc, ast.Call) and norm(rs.exc.func).endswith("CallError") and len(rs.exc.args) == 1 and \
                norm(rs.exc.args[0]) == f"{h.name}.node"
            if not ok and classes == ["NodeError"] and h.name and rs.cause is None and isinstance(rs.exc, ast.Call) and rs.exc in run.own_calls():
                # the same through the chaining helper (assigning __cause__ also suppresses the context, like `from`):
                # raise helper(e.node, e.__cause__) where the helper sets __cause__ to its second parameter (checked below)
                hf = [f_ for f_ in m.callee_funcs(run, rs.exc) if f_.name == "create_chained_call_error"]
                ok = bool(hf) and len(rs.exc.args) == 2 and not rs.exc.keywords and norm(rs.exc.args[0]) == f"{h.name}.node" \
                    and norm(rs.exc.args[1]) == f"{h.name}.__cause__"
            ctx.ob(rid, f"{run.short}/carrier-to-CallError", bool(ok), loc(run, rs),
                   "CallError(e.node) from e.__cause__ for the carrier class only" if ok else
                   "run's handler does not translate the carrier as CallError(e.node) from e.__cause__", norm(rs))
        if not any(isinstance(n, ast.Raise) for n in ast.walk(h)):
            ctx.ob(rid, f"{run.short}/handler-raises", False, loc(run, h), "run swallows an exception and returns a value", head(h))
    # chained call error helper: __cause__ = exception, returns it
    for f in m.find_funcs("create_chained_call_error"):
        ok = any(isinstance(n, ast.Assign) and isinstance(n.targets[0], ast.Attribute) and n.targets[0].attr == "__cause__"
                 and is_name(n.value, f.pos_params[1]) for n in f.own_nodes())
        ctx.ob(rid, f"{f.short}/chains", ok, loc(f), "__cause__ set to the given exception" if ok else "helper does not chain the exception")


# ------------------------------------------------------------------------------------------------ C06.X5
def rule_no_value_on_failure(ctx, rid, r):
    m = ctx.model
    rp = r.run_physical
    ecalls = calls_to(m, rp, r.er.engine)
    for c in ecalls:
        tries = [t for t in rp.own_nodes() if isinstance(t, ast.Try) and in_body(rp.module, c, t, "body")]
        bad = [h for t in tries for h in t.handlers if not any(isinstance(n, ast.Raise) for n in ast.walk(h))]
        ctx.ob(rid, f"{rp.short}/engine-call-unprotected", not bad, loc(rp, c),
               "no handler between the engine call and the return can absorb the carrier" if not bad else
               "a handler absorbs the engine's exception and a value is returned", norm(c)[:100])
    # engine: raise of recorded error precedes normal completion (rule_first_error covers it)
    run = r.run
    for t in [n for n in run.own_nodes() if isinstance(n, ast.Try)]:
        for h in t.handlers:
            wide = handler_catches_all(h) or "Exception" in handler_classes(h)
            swallow = not any(isinstance(n, ast.Raise) for n in ast.walk(h))
            ctx.ob(rid, f"{run.short}/no-wide-handler", not (wide and swallow), loc(run, h),
                   "run has no handler that turns a failure into a return value", head(h))


# ------------------------------------------------------------------------------------------------ C10.F1
_COERCION_CACHE = {}


def is_value_preserving_coercion(m, g, name):
    """Is `x = g(x)` a harmless coercion of the forwarded setting?  Decided by evaluating g (whatever it is called):
    a limit (max_workers, max_errors ...) - every integer the user may pass comes back unchanged;
    retry - a user-supplied decorator comes back as the very object, and an integer n becomes a decorator under which a function
    failing its first n - 1 attempts succeeds (n calls) and one failing n times raises (the retry loop itself is C10.F6)."""
    from ..absval import AbsRaise, Interp, Stub
    key = (id(m), g, name == "retry")
    if key in _COERCION_CACHE:
        return _COERCION_CACHE[key]
    ok = False
    try:
        if g.cls is None and len([p for p in g.pos_params if p not in g.defaults]) == 1:
            def run(v):
                it = Interp(m, ext={"functools.wraps": lambda fn: (lambda h: h)}, stubs={"assert_is_instance": Stub("assert_is_instance", lambda *a, **k: None)})
                return it, it.call_func(g, None, [v], {})
            if name == "retry":
                user = Stub("user_retry", lambda f: f)
                ok = run(user)[1] is user
                for n in (1, 3):
                    for fails in (n - 1, n):
                        calls = []

                        def f(*a, **k):
                            calls.append(1)
                            if len(calls) <= fails:
                                raise AbsRaise(ValueError(f"E{len(calls)}"))
                            return "OK"
                        it, dec = run(n)
                        try:
                            out = it.call(it.call(dec, [Stub("f", f)], {}), [], {})
                        except AbsRaise:
                            out = "RAISED"
                        ok = ok and ((out == "OK" and len(calls) == n) if fails < n else (out == "RAISED" and len(calls) == n))
            else:
                ok = all(run(k)[1] == k and type(run(k)[1]) is int for k in (1, 2, 3, 17, 1000))
    except (AbsRaise, AnalysisError):
        ok = False
    _COERCION_CACHE[key] = ok
    return ok


def _check_source_var(ctx, rid, m, f, name, hopname, fallback_params=()):
    """All (re)bindings of forwarded variable `name` in its defining scope are allow-listed coercions of itself."""
    scope = m.binding_scope(f, name)
    if not isinstance(scope, Func):
        ctx.ob(rid, hopname, False, loc(f), f"forwarded variable {name} is not a local/parameter")
        return False
    ok_all = True
    has_param = False
    for kind, expr, path in scope.bindings.get(name, []):
        if kind == "param":
            has_param = True
            continue
        ok = False
        why = ""
        if kind == "assign" and not path:
            # guarded leaves of the new value (temporaries and conditional expressions/statements resolved)
            st_ = stmt_of(scope.module, expr)
            base = tuple(E.cond_key(t, pol) for t, pol in E.path_condition(scope.module, st_, scope.node))
            leaves = []
            if isinstance(expr, ast.Name) and expr.id != name and expr.id not in scope.params and \
                    all(b[0] == "assign" and not b[2] for b in scope.bindings.get(expr.id, [])) and scope.bindings.get(expr.id):
                for c_, v_ in E.guarded_assigns(scope, expr.id):
                    leaves.append((frozenset(base) | c_, v_))
            else:
                leaves = E.split_conditional(expr, base)
            ok = bool(leaves)
            for c_, v_ in leaves:
                unset = (f"set:{name}", False) in c_
                if is_name(v_, name):
                    continue  # keeps its value
                if isinstance(v_, ast.Call) and len(v_.args) == 1 and is_name(v_.args[0], name) and not v_.keywords and \
                        v_ in scope.own_calls() and (cg_ := m.callee_funcs(scope, v_)) and all(is_value_preserving_coercion(m, g, name) for g in cg_):
                    why = f"coercion {norm(v_)}"
                    continue
                if isinstance(v_, ast.BoolOp) and isinstance(v_.op, ast.Or) and is_name(v_.values[0], name):
                    if name == "retry":
                        # a user-supplied decorator object is a value, not a flag: substituting on truthiness drops a
                        # callable whose __bool__/__len__ says False (calls then run once while modified-time queries retry)
                        ok = False
                        why = (f"`{norm(v_)}` replaces a falsy custom retry decorator by the default: the decorator the user passed "
                               f"is silently not applied to calls and store operations (test `is None` instead)")
                        break
                    why = f"default {norm(v_)}"
                    continue
                if unset and (not fallback_params or (isinstance(v_, ast.Name) and v_.id in fallback_params)):
                    if name == "retry":
                        # for a user-supplied decorator object 'unset' must mean `is None`, not falsy
                        raw = E.path_condition(scope.module, st_, scope.node)
                        truthy = [t for t, pol in raw if isinstance(E._positive(t, pol)[0], ast.Name) and norm(E._positive(t, pol)[0]) == name]
                        if truthy:
                            ok = False
                            why = (f"`if not {name}` replaces a falsy custom retry decorator by the default: the decorator the user passed "
                                   f"is silently not applied to calls and store operations (test `is None` instead)")
                            break
                    why = f"fallback to {norm(v_)} exactly when unset"
                    continue
                ok = False
                why = f"{name} is overwritten by `{norm(v_)}`" + ("" if unset else " unconditionally")
                break
        ok_all &= ok
        if not ok:
            ctx.ob(rid, hopname + "/rebinding", False, loc(scope, expr if expr is not None else scope.node),
                   f"forwarded parameter is replaced: {why}", norm(stmt_of(scope.module, expr)) if expr is not None else "")
    if not has_param:
        ctx.ob(rid, hopname + "/source", False, loc(scope), f"{name} is not a parameter of {scope.short}")
        return False
    return ok_all


def rule_forwarding(ctx, rid, r):
    m = ctx.model
    er = r.er
    run, rp, prep, eng, ap, st = r.run, r.run_physical, r.prep_run, er.engine, r.apply, r.stale
    hops = [
        # (caller, callee, callee parameter, source variable in caller, fallback params)
        (run, rp, "max_workers", "max_workers", ()),
        (rp, eng, "worker_count", "max_workers", ()),
        (run, ap, "max_workers", "stale_check_max_workers", ("max_workers",)),
        (ap, st, "max_workers", "max_workers", ()),
        (st, eng, "worker_count", "max_workers", ()),
        (run, rp, "max_errors", "max_errors", ()),
        (rp, eng, "max_errors", "max_errors", ()),
        (run, rp, "retry", "retry", ()),
        (rp, prep, "retry", "retry", ()),
        (r.runcb, r.bound_run, "retry", "retry", ()),
        (run, ap, "retry", "retry", ()),
        (ap, st, "retry", "retry", ()),
    ]
    n = 0
    for caller, callee, param, src, fb in hops:
        hop = f"{caller.short}.{src} -> {callee.short}.{param}"
        calls = calls_to(m, caller, callee)
        if not calls:
            ctx.ob(rid, hop, False, loc(caller), f"{caller.short} no longer calls {callee.short}")
            continue
        for c in calls:
            n += 1
            bound = callee.cls is not None
            pos = callee.pos_params[1:] if bound else callee.pos_params
            idx = pos.index(param) if param in pos else None
            a = arg(c, idx, param)
            if a is None:
                ctx.ob(rid, hop, False, loc(caller, c),
                       f"`{param}` is not passed: {callee.name} falls back to its default and the user's setting is ignored",
                       norm(c)[:140])
                continue
            ok = is_name(a, src)
            if not ok and fb:
                # the fallback spelled at the call site: `<fallback> if <src> is None else <src>`
                base = tuple(E.cond_key(t, pol) for t, pol in E.path_condition(caller.module, stmt_of(caller.module, c), caller.node))
                leaves = E.split_conditional(a, base)
                ok = bool(leaves) and len(leaves) > 1
                for c_, v_ in leaves:
                    unset = (f"set:{src}", False) in c_
                    isset = (f"set:{src}", True) in c_
                    ok = ok and ((isset and is_name(v_, src)) or (unset and isinstance(v_, ast.Name) and v_.id in fb))
                if ok:
                    for fbn in fb:
                        ok = _check_source_var(ctx, rid, m, caller, fbn, hop) and ok
            if not ok:
                ctx.ob(rid, hop, False, loc(caller, c), f"`{param}` receives `{norm(a)}` instead of `{src}`", norm(c)[:140])
                continue
            ok = _check_source_var(ctx, rid, m, caller, src, hop, fb)
            if ok:
                ctx.ob(rid, hop, True, loc(caller, c), "forwarded unchanged (allow-listed coercions only)")
    ctx.floor(rid, "forwarding hops", n, 12)
    # the documented default: without stale_check_max_workers the stale check uses max_workers - the value of max_workers must be
    # able to reach the stale check's worker limit in run itself (a fallback that only rebinds a helper's local is no fallback)
    from ..cfg import value_sources as _vs
    for c in calls_to(m, run, ap):
        a = arg(c, None, "max_workers")
        ok = False
        if isinstance(a, ast.Name):
            leaves = _vs(run, CFG(run, may_raise=any_call_may_raise), a.id, c, run.module)
            ok = ("param", "max_workers") in leaves and ("param", "stale_check_max_workers") in leaves
        elif a is not None:
            ok = {"max_workers", "stale_check_max_workers"} <= names_in(a)
        ctx.ob(rid, f"{run.short}/stale-check-limit-defaults-to-max_workers", ok, loc(run, c),
               "the stale check's worker limit is stale_check_max_workers, or max_workers when that is not given" if ok else
               "max_workers cannot reach the stale check's worker limit: when stale_check_max_workers is not given the stale check runs "
               "with the pool's own default (min(32, cpu_count + 4)) - more concurrent modified-time queries than max_workers allows", norm(c)[:100])
    # the engine uses its worker_count parameter for the pool
    lc_ = E.lifecycle(m, er)
    sp = lc_.spawn_loops
    a = E._range_arg(sp[0]) if len(sp) == 1 else None
    ok = a is not None and is_name(a, "worker_count")
    if a is not None and isinstance(a, ast.Name) and not ok:
        # another local holding the parameter, possibly through a value-preserving coercion (evaluated): follow the reaching definitions
        from ..cfg import value_sources as _vs
        leaves = _vs(eng, lc_.g, a.id, sp[0], eng.module)
        ok = bool(leaves)
        for lf in leaves:
            if lf == ("param", "worker_count"):
                continue
            v_ = lf[1] if lf[0] == "expr" else None
            if isinstance(v_, ast.Call) and len(v_.args) == 1 and not v_.keywords and is_name(v_.args[0], "worker_count") and v_ in eng.own_calls() \
                    and (cg_ := m.callee_funcs(eng, v_)) and all(is_value_preserving_coercion(m, g_, "worker_count") for g_ in cg_):
                continue
            ok = False
    ctx.ob(rid, f"{eng.short}/pool-size", ok, loc(eng, sp[0] if sp else None), "as many threads as worker_count" if ok else
           "the number of threads started is not the worker_count parameter", norm(a) if a is not None else "")
    _check_source_var(ctx, rid, m, eng, "worker_count", f"{eng.short}.worker_count")
    _check_source_var(ctx, rid, m, eng, "max_errors", f"{eng.short}.max_errors")


# ------------------------------------------------------------------------------------------------ C10.F2
def rule_thread_sites(ctx, rid, r):
    m = ctx.model
    er = r.er
    allowed = {c for c, _call, _tg in er.thread_sites}
    n = 0
    for c, call, tg in m.thread_targets:
        n += 1
        if c in allowed:
            ctx.ob(rid, f"{c.short}/thread-site", True, loc(c, call), "worker thread creation inside the pool")
            continue
        in_progress = c.module.name.startswith("uberjob.progress")
        ctx.ob(rid, f"{c.short}/thread-site", in_progress, loc(c, call),
               "observer update thread (not a worker)" if in_progress else
               "threads are created outside the fixed-size pool: more than max_workers calls can run concurrently", norm(call))
    for f in m.funcs.values():
        for c in f.own_calls():
            names = ext_names(m, f, c)
            if any(x.startswith("concurrent.futures") or x.startswith("multiprocessing") or x == "threading.Timer" for x in names):
                ctx.ob(rid, f"{f.short}/executor", False, loc(f, c), "executor / process pool outside the engine's pool", norm(c))
    ctx.floor(rid, "thread creation sites", n, 2)


# ------------------------------------------------------------------------------------------------ C10.F4
def rule_workers_wait_only_for_work(ctx, rid, r, user_reaching):
    m = ctx.model
    er = r.er
    funcs = [f for f in m.reachable([er.loop], kinds=("call",)) if f.module.name.startswith("uberjob._execution")
             and f is not r.runcb and f not in m.reachable([r.runcb], kinds=("call",))]
    n = 0
    for f in funcs:
        for c in f.own_calls():
            names = ext_names(m, f, c)
            blk = names & E.BLOCKING
            if not blk:
                continue
            n += 1
            ok = blk <= {"queue.Queue.get"} and f is er.loop
            ctx.ob(rid, f"{f.short}/blocking", ok, loc(f, c), "the only blocking primitive in the worker is queue.get()" if ok else
                   f"worker code blocks in {sorted(blk)[0]}: ready calls wait although a worker is free", norm(c))
    ctx.floor(rid, "blocking sites in worker code", n, 1)


# ------------------------------------------------------------------------------------------------ C10.F6
def rule_retry_loop(ctx, rid, r):
    """The built-in retry decorator, interpreted by the checker's evaluator for attempts n in 1..4 and a function that fails
    its first j attempts (j = 0..n) with distinct exceptions E1, E2, ...: it is called min(j + 1, n) times with the caller's
    arguments, the first success is returned, and when all n attempts fail the exception of the LAST attempt is raised.
    Independent of how the attempt loop is written (for/range, countdown, recursion)."""
    from ..absval import AbsRaise, Interp, Stub
    m = ctx.model
    cr = m.one_func("create_retry", "RETRY")
    bad, n_eval = [], 0

    class _Custom(Exception):
        pass
    # the outcome must not depend on WHICH Exception subclass the attempts raise (a retry that treats some classes as
    # 'fatal' and leaves its loop returns None as if the call had succeeded)
    panel = (ValueError, TypeError, NotImplementedError, KeyError, OSError, RuntimeError, AttributeError, _Custom)
    for n in (1, 2, 3, 4):
        for j in range(0, n + 1):
            for exc_cls in panel:
                calls, raised = [], []

                def f(*a, **k):
                    calls.append((a, k))
                    if len(calls) <= j:
                        e_ = exc_cls(f"E{len(calls)}")
                        raised.append(e_)
                        raise AbsRaise(e_)
                    return "OK"
                it = Interp(m, ext={"functools.wraps": lambda fn: (lambda g: g)}, stubs={"assert_is_instance": Stub("assert_is_instance", lambda *a, **k: None)})
                try:
                    dec = it.call_func(cr, None, [n], {})
                    w = it.call(dec, [Stub("f", f)], {})
                    out = ("returned", it.call(w, [1], {"k": 2}))
                except AbsRaise as e:
                    out = ("raised", e.value)
                n_eval += 1
                want_calls = min(j + 1, n)
                good = (out == ("returned", "OK")) if j < n else (out[0] == "raised" and raised and out[1] is raised[-1] and len(raised) == n)
                if not good or len(calls) != want_calls or any(c != ((1,), {"k": 2}) for c in calls):
                    bad.append((n, j, exc_cls.__name__, out[0], repr(out[1])[:30], len(calls)))
    ctx.notes["retry_cases_evaluated"] = n_eval
    ok = not bad
    ctx.ob(rid, f"{cr.short}/attempts-and-last-exception", ok, loc(cr),
           f"evaluated for attempts 1..4 x failing prefixes: min(j+1, n) calls, first success returned, the last attempt's exception raised ({n_eval} cases)" if ok else
           f"retry(n) with a function failing its first j attempts: (n, j, outcome, calls) = {bad[:3]} deviates from "
           f"'at most n attempts, stop at the first success, raise the exception of the last attempt'")
    # structural remainder: which exception classes are retried, and nothing is retained between attempts
    wrappers = [f_ for f_ in cr.all_nested() if any(isinstance(n_, ast.Try) for n_ in f_.own_nodes())]
    ctx.floor(rid, "retry wrappers with a handler", len(wrappers), 1)
    for w in wrappers:
        for h in [h_ for t_ in w.own_nodes() if isinstance(t_, ast.Try) for h_ in t_.handlers]:
            cls_ok = False
            if isinstance(h.type, ast.Name) and h.type.id in cr.params:
                d = cr.defaults.get(h.type.id)
                cls_ok = d is not None and norm(d) == "Exception"
            elif isinstance(h.type, ast.Name) and h.type.id == "Exception":
                cls_ok = True
            ctx.ob(rid, f"{w.short}/retries-Exception-only", cls_ok, loc(w, h), "retries Exception subclasses only" if cls_ok else
                   "retry catches more than Exception (KeyboardInterrupt/SystemExit from a call are retried)", head(h))
    # attempts < 1 is rejected, attempts == 1 is the identity decorator (evaluated above for n = 1)
    it = Interp(m, ext={"functools.wraps": lambda fn: (lambda g: g), "builtins.ValueError": lambda *a: "ValueError",
                        "builtins.TypeError": lambda *a: "TypeError"},
                stubs={"assert_is_instance": Stub("assert_is_instance", lambda *a, **k: None)})
    try:
        it.call_func(cr, None, [0], {})
        rejected = False
    except AbsRaise:
        rejected = True
    ctx.ob(rid, f"{cr.short}/rejects-zero", rejected, loc(cr), "attempts < 1 is rejected" if rejected else "attempts = 0 is accepted: the call is never made and None is returned")


def _eval_int_test(t, env):
    def val(x):
        if isinstance(x, ast.Name) and x.id in env:
            return env[x.id]
        if isinstance(x, ast.Constant) and isinstance(x.value, int):
            return x.value
        if isinstance(x, ast.BinOp) and isinstance(x.op, (ast.Add, ast.Sub)):
            a, b = val(x.left), val(x.right)
            if a is None or b is None:
                return None
            return a + b if isinstance(x.op, ast.Add) else a - b
        return None
    if isinstance(t, ast.Compare) and len(t.ops) == 1:
        a, b = val(t.left), val(t.comparators[0])
        if a is None or b is None:
            return None
        return {ast.Eq: a == b, ast.NotEq: a != b, ast.Lt: a < b, ast.LtE: a <= b, ast.Gt: a > b, ast.GtE: a >= b}.get(type(t.ops[0]))
    if isinstance(t, ast.UnaryOp) and isinstance(t.op, ast.Not):
        v = _eval_int_test(t.operand, env)
        return None if v is None else not v
    return None


# ------------------------------------------------------------------------------------------------ C10.F7
def rule_retry_coverage(ctx, rid, r):
    m = ctx.model
    br = r.bound_run
    fnp, rtp = br.pos_params[1], br.pos_params[2]
    calls = [c for c in br.own_calls() if isinstance(c.func, ast.Call)]
    ok = len(calls) == 1 and is_name(calls[0].func.func, rtp) and len(calls[0].func.args) == 1 and is_name(calls[0].func.args[0], fnp)
    ctx.ob(rid, f"{br.short}/call-through-retry", ok, loc(br), "the call function is invoked as retry(fn)(*args, **kwargs)" if ok else
           "the call function is not invoked through the retry decorator")
    direct = [c for c in br.own_calls() if is_name(c.func, fnp)]
    ctx.ob(rid, f"{br.short}/no-direct-call", not direct, loc(br), "fn is never invoked directly" if not direct else "fn is invoked without retry")
    # get_modified_time in engine modules: only as retry(<store>.get_modified_time)()
    n = 0
    for f in m.funcs.values():
        if not f.module.name.startswith(("uberjob._transformations", "uberjob._execution", "uberjob._run")):
            continue
        for node in f.own_nodes():
            if isinstance(node, ast.Attribute) and node.attr == "get_modified_time":
                n += 1
                p = f.module.parent.get(node)
                wrapped = isinstance(p, ast.Call) and node in p.args and isinstance(p.func, ast.Name) and \
                    m.binding_scope(f, p.func.id) is r.stale and p.func.id in r.stale.params
                pp = f.module.parent.get(p) if wrapped else None
                called = wrapped and isinstance(pp, ast.Call) and pp.func is p
                ctx.ob(rid, f"{f.short}/get_modified_time-through-retry", bool(called), loc(f, node),
                       "modified-time query is invoked as retry(store.get_modified_time)()" if called else
                       "modified-time query bypasses the retry decorator", norm(stmt_of(f.module, node))[:120])
    ctx.floor(rid, "modified-time query sites in engine modules", n, 1)


# ------------------------------------------------------------------------------------------------ C17.K3
def rule_nothing_swallows_interrupt(ctx, rid, r):
    """On the calling thread's path run -> {registry application -> stale check, run_physical} -> engine, no handler
    that can catch KeyboardInterrupt completes without re-raising; generator context managers on the path re-raise."""
    m = ctx.model
    er = r.er
    chain = [r.run, r.apply, r.stale, r.run_physical, er.engine, er.pool]
    n = 0
    for f in chain:
        for t in [x for x in f.own_nodes() if isinstance(x, ast.Try)]:
            for h in t.handlers:
                n += 1
                classes = handler_classes(h)
                wide = handler_catches_all(h) or "KeyboardInterrupt" in classes
                reraises = any(isinstance(x, ast.Raise) for x in ast.walk(h))
                ok = (not wide) or reraises
                ctx.ob(rid, f"{f.short}/handler", ok, loc(f, h),
                       f"handler for {classes} cannot absorb KeyboardInterrupt" if ok else
                       "a handler on the calling thread's path absorbs KeyboardInterrupt: Ctrl-C does not propagate", head(h))
        for rt in [x for x in ast.walk(f.node) if isinstance(x, ast.Try) and x.finalbody]:
            for s in rt.finalbody:
                for x in ast.walk(s):
                    if isinstance(x, ast.Return):
                        ctx.ob(rid, f"{f.short}/finally-return", False, loc(f, x), "return inside finally discards the pending KeyboardInterrupt", norm(x))
    ctx.floor(rid, "handlers on the calling thread's path", n, 1)
    # observers: __exit__ must not return a truthy value
    for cls in m.classes.values():
        if cls.has_base("ProgressObserver") and "__exit__" in cls.methods:
            f = cls.methods["__exit__"]
            rets = [x for x in f.own_nodes() if isinstance(x, ast.Return) and x.value is not None and not (isinstance(x.value, ast.Constant) and not x.value.value)]
            ok = not rets or all(isinstance(x.value, ast.Call) and "__exit__" in norm(x.value) for x in rets)
            ctx.ob(rid, f"{f.short}/exit-not-truthy", ok, loc(f), "__exit__ does not suppress exceptions" if ok else
                   "__exit__ returns a value: may suppress KeyboardInterrupt")


# ------------------------------------------------------------------------------------------------ C17.K4
def rule_sentinel_priority(ctx, rid, r):
    """Default scheduler, evaluated: the queue factory is interpreted for scheduler None / 'default' on a small graph (the function
    that ranks the nodes of the graph is replaced by a model assigning the ranks 0, 1, 2 ...; heapq is modelled through the
    entries' own `__lt__`).  Whatever is queued, an object the ranking does not know - the engine's sentinel - comes out first:
    after Ctrl-C workers see a sentinel before they take another node."""
    from ..absval import AbsRaise, Interp, Obj, Stub
    from .rewriterules import MG
    import collections as _c
    m = ctx.model
    qf = r.er.queue_factory
    gp = qf.pos_params[0]
    # the ranking: calls in the factory that hand the graph to a repo function of another module
    rankers = set()
    for c in qf.own_calls():
        if any(is_name(a_, gp) for a_ in c.args):
            rankers |= {f for f in m.callee_funcs(qf, c) if f.module is not qf.module and f.cls is None}
    bad, n_eval = [], 0
    for sched in (None, "default"):
        for order in ((0, 1, 2), (2, 1, 0), (1, 2, 0)):
            interp = Interp(m)

            def lt(a_, b_):
                return interp.truth(interp.call(interp.getattr(a_, "__lt__"), [b_], {})) if isinstance(a_, Obj) else a_ < b_

            def heappop(lst):
                if not lst:
                    raise AbsRaise("IndexError: heap empty")
                best = 0
                for i in range(1, len(lst)):
                    if lt(lst[i], lst[best]):
                        best = i
                return lst.pop(best)
            interp.ext.update({"heapq.heapify": lambda lst: None, "heapq.heappush": lambda lst, x: lst.append(x), "heapq.heappop": heappop,
                               "queue.Queue": lambda maxsize=0: Obj(None, {"queue": _c.deque(), "unfinished_tasks": 0}, name="Queue")})
            g = MG(interp)
            nodes = [Obj(None, {}, name=f"n{i}") for i in range(3)]
            for x in nodes:
                g.add_node(x)
            interp.func_stubs = {f: (lambda graph, _n=nodes: {x: i for i, x in enumerate(_n)}) for f in rankers}
            sentinel = Obj(None, {}, name="DONE")
            try:
                q = interp.call_func(qf, None, [g, [nodes[order[0]]], sched], {})
                if not isinstance(q, Obj) or q.cls is None:
                    raise AnalysisError("the default scheduler does not build one of the repo's queue classes")
                put, get = q.cls.lookup("_put"), q.cls.lookup("_get")
                interp.call_func(put, None, [nodes[order[1]]], {}, bound_self=q)
                interp.call_func(put, None, [sentinel], {}, bound_self=q)
                interp.call_func(put, None, [nodes[order[2]]], {}, bound_self=q)
                first = interp.call_func(get, None, [], {}, bound_self=q)
                rest = [interp.call_func(get, None, [], {}, bound_self=q) for _ in range(3)]
            except AbsRaise as e:
                raise AnalysisError(f"abstract evaluation of the default scheduler raised {e.value!r}")
            n_eval += 1
            if first is not sentinel:
                bad.append(f"scheduler={sched!r}: with nodes of ranks {order} queued around it, the sentinel came out after {getattr(first, 'name', first)}")
            elif [getattr(x, "name", x) for x in rest] != ["n0", "n1", "n2"]:
                bad.append(f"scheduler={sched!r}: nodes come out as {[getattr(x, 'name', x) for x in rest]}, not by rank")
    ok = not bad
    ctx.ob(rid, f"{qf.short}/sentinel-priority", ok, loc(qf),
           f"evaluated ({n_eval} queues): an item the ranking does not know (the sentinel) is dequeued before every node; nodes by rank" if ok else
           "the sentinel's priority is not strictly below every node priority: after Ctrl-C workers keep taking nodes before they see a "
           "sentinel (" + "; ".join(bad[:2]) + ")")
    # the ranks are 0, 1, 2, ...: the ranking function builds its mapping by enumerate(...) (so a negative default is below all)
    for f in rankers:
        rets = [n for n in f.own_nodes() if isinstance(n, ast.Return) and n.value is not None]
        okmap = False
        if len(rets) == 1 and isinstance(rets[0].value, ast.DictComp):
            dc = rets[0].value
            it = dc.generators[0].iter
            # {node: index for index, node in enumerate(...)}: the value is the position itself - an int, comparable with the
            # sentinel's numeric priority
            if isinstance(it, ast.Call) and is_name(it.func, "enumerate") and len(it.args) == 1 and not it.keywords \
                    and isinstance(dc.generators[0].target, ast.Tuple) and norm(dc.value) == norm(dc.generators[0].target.elts[0]):
                okmap = True
        ctx.ob(rid, f"{f.short}/ranks-from-zero", okmap, loc(f), "node ranks are positions 0, 1, 2 ... (the enumerate index): numbers, never negative" if okmap else
               "node ranks are not plain positions built by enumerate(...): a rank may not be comparable with - or may be below - the sentinel's priority "
               "(the sentinel push then raises TypeError in the engine's finally, or workers keep taking nodes after Ctrl-C)")


# ------------------------------------------------------------------------------------------------ C17.K5
def rule_observer_exit(ctx, rid, r):
    m = ctx.model
    f = roles.simple_observer(m).methods["__exit__"]
    calls = f.own_calls()
    sets = [c for c in calls if isinstance(c.func, ast.Attribute) and c.func.attr == "set"]
    joins = [c for c in calls if isinstance(c.func, ast.Attribute) and c.func.attr == "join"]
    ok = len(sets) == 1 and len(joins) == 1 and comes_before(f.node, sets[0], joins[0]) and not joins[0].args and not joins[0].keywords
    ctx.ob(rid, f"{f.short}/set-then-join", ok, loc(f), "__exit__ sets the done event, then joins the update thread without timeout" if ok else
           "__exit__ does not (set done event; join update thread)")
    ok = not any(isinstance(n, (ast.If, ast.Try, ast.Return)) for n in f.own_nodes())
    ctx.ob(rid, f"{f.short}/unconditional", ok, loc(f), "unconditional" if ok else "conditional logic in __exit__")
    # run holds the observer in exactly one with
    run = r.run
    ws = [n for n in run.own_nodes() if isinstance(n, ast.With) and any(norm(it.context_expr) == r.observer_var for it in n.items)]
    ctx.ob(rid, f"{run.short}/observer-with", len(ws) == 1, loc(run), "run enters the observer with one with-statement" if len(ws) == 1
           else f"{len(ws)} with-statements on the observer")


# ------------------------------------------------------------------------------------------------ C09.W' / C14.D4
def rule_run_uses_returned_pair(ctx, rid, r):
    """run executes (and returns from a dry run) the plan and output node returned by the registry application."""
    m = ctx.model
    run = r.run
    acalls = calls_to(m, run, r.apply)
    ctx.floor(rid, "registry application call sites in run", len(acalls), 1)
    for c in acalls:
        st = stmt_of(run.module, c)
        ok = isinstance(st, ast.Assign) and isinstance(st.targets[0], ast.Tuple) and len(st.targets[0].elts) == 2 and \
            all(isinstance(x, ast.Name) for x in st.targets[0].elts)
        # ... or keeps the pair in one variable that is taken apart later (which elements reach the execution is decided below)
        via_tmp = isinstance(st, ast.Assign) and len(st.targets) == 1 and isinstance(st.targets[0], ast.Name) and st.value is c
        ctx.ob(rid, f"{run.short}/destructures-result", ok or via_tmp, loc(run, c), "run rebinds (plan, output node) from the transformation" if ok
               else "run keeps the transformation's result pair in a variable" if via_tmp else "run ignores part of the transformation's result", norm(st)[:100])
        if not (ok or via_tmp):
            continue
        from ..cfg import value_sources
        g_ = CFG(run, may_raise=any_call_may_raise)
        for x in calls_to(m, run, r.run_physical):
            a0 = arg(x, 0, "plan")
            ao = arg(x, None, "output_node")
            ok = isinstance(a0, ast.Name) and isinstance(ao, ast.Name)
            if ok:
                # what reaches the execution: the two elements of the transformation's result (possibly passed through the user's
                # transform_physical), never the plan / output node from before the transformation on this arm
                def from_result(leaf, idx):
                    if leaf[0] == "elem" and leaf[1] is c and leaf[2] == idx:
                        return "apply"
                    if leaf[0] == "elem" and isinstance(leaf[1], ast.Call) and leaf[2] == idx and isinstance(leaf[1].func, ast.Name) and \
                            m.binding_scope(run, leaf[1].func.id) is run and leaf[1].func.id in run.params:
                        return "user-transform"
                    return None
                pl = value_sources(run, g_, a0.id, x, run.module)
                ol = value_sources(run, g_, ao.id, x, run.module)
                ok = any(from_result(l_, 0) == "apply" for l_ in pl) and any(from_result(l_, 1) == "apply" for l_ in ol) and \
                    not [l_ for l_ in pl if l_[0] == "param"] and not [l_ for l_ in ol if l_[0] in ("param", "unknown")]
            ctx.ob(rid, f"{run.short}/executes-returned-pair", ok, loc(run, x),
                   f"execution receives the plan and output node returned by the transformation" if ok else
                   "execution does not receive the transformed plan and the redirected output node", norm(x)[:120])
        oa = arg(c, None, "output_node")
        on_in = norm(oa) if oa is not None else None
        ctx.ob(rid, f"{run.short}/passes-output", oa is not None, loc(run, c), f"gathered output {on_in} handed to the transformation")
