"""Development tool: confirm seeded changes delivered by sub-agents and copy the confirmed ones to /verif/seeded.

For each <src>/<id>/ (patch.diff, demo.py, meta.json): in a scratch worktree of /repo HEAD (outside /repo and
/verif, removed afterwards) check (1) demo exits 0 on the clean tree, (2) patch applies, (3) demo exits 1 on the
patched tree, (4) the unedited test-suite passes on the patched tree (PYTHONPATH=<wt>/src so that the worktree,
not the installed copy, is imported)."""
import json, os, shutil, subprocess, sys, tempfile
src = sys.argv[1] if len(sys.argv) > 1 else "/tmp/seed_out"
ids = sys.argv[2:] or sorted(os.listdir(src))
for sid in ids:
    d = os.path.join(src, sid)
    if not os.path.exists(os.path.join(d, "patch.diff")):
        print(sid, "SKIP no patch"); continue
    wt = tempfile.mkdtemp(prefix="ubconf_"); os.rmdir(wt)
    subprocess.run(["git", "-C", "/repo", "worktree", "add", "-q", "--detach", wt, "HEAD"], check=True)
    try:
        env = dict(os.environ, PYTHONPATH=os.path.join(wt, "src"))
        def demo():
            try:
                return subprocess.run(["/venv/bin/python", os.path.join(d, "demo.py")], env=env, capture_output=True, text=True, timeout=300, cwd=wt)
            except subprocess.TimeoutExpired:
                return None
        r0 = demo()
        ap = subprocess.run(["git", "-C", wt, "apply", os.path.join(d, "patch.diff")], capture_output=True, text=True)
        if ap.returncode:
            print(sid, "REJECT patch does not apply:", ap.stderr[:200]); continue
        r1 = demo()
        t = subprocess.run(["/venv/bin/python", "-m", "pytest", "-q", "-p", "no:cacheprovider", "--timeout=900"], env=env, capture_output=True, text=True, cwd=wt, timeout=1200)
        tail = t.stdout.strip().splitlines()[-1] if t.stdout.strip() else ""
        ok = r0 is not None and r0.returncode == 0 and r1 is not None and r1.returncode == 1 and t.returncode == 0 and "81 passed" in tail
        print(sid, "CONFIRMED" if ok else "REJECT", "clean_demo_rc=%s patched_demo_rc=%s tests=%s" % (getattr(r0, 'returncode', 'timeout'), getattr(r1, 'returncode', 'timeout'), tail))
        if ok:
            dst = os.path.join(os.environ.get("SEED_DST", "/verif/seeded"), sid)
            os.makedirs(dst, exist_ok=True)
            for f in ("patch.diff", "demo.py"):
                shutil.copy(os.path.join(d, f), os.path.join(dst, f))
            meta = json.load(open(os.path.join(d, "meta.json")))
            meta["breaks_property"] = sid.split("-")[0]
            meta["confirmed_by_main_session"] = {
                "base_commit": subprocess.run(["git", "-C", "/repo", "rev-parse", "--short", "HEAD"], capture_output=True, text=True).stdout.strip(),
                "ran": ["PYTHONPATH=<wt>/src /venv/bin/python demo.py  (clean tree) -> exit 0",
                        "git apply patch.diff", "PYTHONPATH=<wt>/src /venv/bin/python demo.py  (patched) -> exit 1",
                        "PYTHONPATH=<wt>/src /venv/bin/python -m pytest -q -p no:cacheprovider --timeout=900 (patched) -> " + tail],
                "patched_demo_output_tail": (r1.stdout + r1.stderr)[-600:],
            }
            json.dump(meta, open(os.path.join(dst, "meta.json"), "w"), indent=1)
    finally:
        subprocess.run(["git", "-C", "/repo", "worktree", "remove", "--force", wt])
