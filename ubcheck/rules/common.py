"""Rule helpers shared across properties: user-reaching classification, pruning rules."""
from __future__ import annotations

import ast

from ..astq import OPAQUE, arg, ext_names, inside, is_name, loc, names_in, stmt_of
from ..cfg import CFG
from ..model import AnalysisError, head, norm

GRAPH_MUTATORS = {"add_edge", "add_edges_from", "add_node", "add_nodes_from", "remove_node", "remove_nodes_from",
                  "remove_edge", "remove_edges_from", "clear", "update", "add_weighted_edges_from", "clear_edges"}


def make_user_reaching(m):
    """(func, call) -> bool: the call may run code of external origin (call functions, stores, observers, retry
    decorators, transform_physical, predicates) directly or through repo functions."""
    def leaf(f, c):
        return any(o[0] in OPAQUE for o in m.callee_origins(f, c))

    reaches = {f: any(leaf(f, c) for c in f.own_calls()) for f in m.funcs.values()}
    changed = True
    while changed:
        changed = False
        for f in m.funcs.values():
            if reaches[f]:
                continue
            for t, kind in m.call_edges.get(f, ()):
                if kind == "call" and reaches.get(t):
                    reaches[f] = True
                    changed = True
                    break

    def ur(f, c):
        return leaf(f, c) or any(reaches.get(g) for g in m.callee_funcs(f, c))

    ur.reaches = reaches
    ur.leaf = leaf
    return ur


def graph_mutation_calls(f):
    return [c for c in f.own_calls() if isinstance(c.func, ast.Attribute) and c.func.attr in GRAPH_MUTATORS
            and ("graph" in norm(c.func.value).lower() or norm(c.func.value) in ("g", "G"))]


def rule_pruning_preserves_paths(ctx, rid):
    """Every node-removal site of the plan transformations is (a) removal of the complement of an ancestor
    closure, (b) removal of predecessor-free nodes, or (c) removal of a node whose *current* predecessors and
    successors were bridged by a full product of edges immediately before."""
    m = ctx.model
    sites = []
    for f in m.funcs.values():
        if not f.module.name.startswith(("uberjob._transformations", "uberjob._execution", "uberjob._run")):
            continue
        for c in f.own_calls():
            if isinstance(c.func, ast.Attribute) and c.func.attr in ("remove_node", "remove_nodes_from"):
                sites.append((f, c))
    ctx.floor(rid, "node-removal sites in the plan transformations", len(sites), 3)
    for f, c in sites:
        mod = f.module
        st = stmt_of(mod, c)
        a0 = c.args[0] if c.args else None
        verdict = None
        if c.func.attr == "remove_nodes_from" and isinstance(a0, ast.Name):
            b = [b for b in f.bindings.get(a0.id, []) if b[0] == "assign"]
            if len(b) == 1 and isinstance(b[0][1], ast.BinOp) and isinstance(b[0][1].op, ast.Sub):
                keep = b[0][1].right
                kb = [x for x in f.bindings.get(keep.id, []) if x[0] == "assign"] if isinstance(keep, ast.Name) else []
                closure = [x for x in kb if isinstance(x[1], ast.Call) and any(g.name == "all_ancestors" for g in m.callee_funcs(f, x[1]))]
                allnodes = "nodes" in norm(b[0][1].left)
                if closure and allnodes:
                    # the closure must be the last assignment reaching the subtraction
                    last = max(kb, key=lambda x: x[1].lineno)
                    ok = last in closure and last[1].lineno < b[0][1].lineno
                    verdict = (ok, "removes exactly the complement of the ancestor closure of the required nodes" if ok else
                               "the kept set is not the ancestor closure at the point of subtraction")
        if verdict is None and c.func.attr == "remove_node":
            loop = None
            for p in ast.walk(f.node):
                if isinstance(p, ast.For) and inside(mod, c, p) and norm(p.target) == norm(a0):
                    loop = p
            if loop is not None and isinstance(loop.iter, ast.Name):
                # (b) list filtered by "has no predecessor"
                bs = [b for b in f.bindings.get(loop.iter.id, []) if b[0] == "assign"]
                srcfilter = False
                for _k, e, _p in bs:
                    if isinstance(e, ast.ListComp):
                        for gen in e.generators:
                            for cond in gen.ifs:
                                for x in ast.walk(cond):
                                    if isinstance(x, ast.Call) and any(is_pred_free_test(m, g) for g in m.callee_funcs(f, x)):
                                        srcfilter = True
                later_ok = all(isinstance(e, ast.ListComp) and (
                    any(isinstance(x, ast.Call) and any(is_pred_free_test(m, g) for g in m.callee_funcs(f, x))
                        for gen in e.generators for cond in gen.ifs for x in ast.walk(cond))
                    or (len(e.generators) == 1 and norm(e.generators[0].iter) == loop.iter.id)) for _k, e, _p in bs)
                if srcfilter and later_ok:
                    verdict = (True, "removes only nodes without predecessors (cannot lie on a path between kept nodes)")
            if verdict is None:
                verdict = classify_bridged_removal(ctx, m, f, c, a0)
        if verdict is None and c.func.attr == "remove_nodes_from":
            # bulk removal that is neither the complement of an ancestor closure nor a set of predecessor-free nodes
            srcfree = False
            if isinstance(a0, ast.Name):
                for _k, e, _p in [b for b in f.bindings.get(a0.id, []) if b[0] == "assign"]:
                    if isinstance(e, ast.ListComp) and any(isinstance(x, ast.Call) and any(is_pred_free_test(m, g) for g in m.callee_funcs(f, x))
                                                           for gen in e.generators for cond in gen.ifs for x in ast.walk(cond)):
                        srcfree = True
            verdict = (True, "removes only nodes without predecessors") if srcfree else (
                False, "several nodes are removed at once although they may have predecessors and successors: bridges computed beforehand "
                       "cannot account for removed nodes that are adjacent to each other, and nodes removed without bridging drop the "
                       "dependency (and staleness) paths routed through them")
        if verdict is None:
            raise AnalysisError(f"{f.qualname}: node removal `{norm(st)}` is not a recognised pruning idiom")
        ctx.ob(rid, f"{f.short}/removal", verdict[0], loc(f, c), verdict[1], norm(st), verdict[2] if len(verdict) > 2 else "")


def is_pred_free_test(m, g):
    rets = [n for n in g.own_nodes() if isinstance(n, ast.Return) and n.value is not None]
    return len(rets) == 1 and norm(rets[0].value).replace(" ", "") in (
        f"not{g.pos_params[0]}.pred[{g.pos_params[1]}]", f"{g.pos_params[0]}.in_degree({g.pos_params[1]})==0") if len(g.pos_params) >= 2 else False


def reads_neighbours(m, f, stmt, x, depth=0):
    """Which neighbour sets of node expression `x` statement `stmt` reads: subset of {'pred','succ'}."""
    out = set()
    for c in ast.walk(stmt):
        if isinstance(c, ast.Call) and isinstance(c.func, ast.Attribute) and c.args and norm(c.args[0]) == x:
            if c.func.attr == "predecessors":
                out.add("pred")
            if c.func.attr in ("successors", "neighbors"):
                out.add("succ")
        if isinstance(c, ast.Call) and depth < 2 and any(norm(a) == x for a in c.args):
            for g in m.callee_funcs(f, c) if c in f.own_calls() else ():
                idx = [i for i, a in enumerate(c.args) if norm(a) == x][0]
                ps = g.pos_params[1:] if g.cls is not None else g.pos_params
                if idx < len(ps):
                    for s in g.own_stmts():
                        if isinstance(s, (ast.Assign, ast.Expr, ast.Return, ast.For)):
                            out |= reads_neighbours(m, g, s, ps[idx], depth + 1)
    return out


def classify_bridged_removal(ctx, m, f, c, a0):
    mod = f.module
    x = norm(a0)
    g = CFG(f)
    st = stmt_of(mod, c)
    rm_nodes = set(g.of(st))
    read_stmts = []
    for s in f.own_stmts():
        if isinstance(s, (ast.Assign, ast.AnnAssign)) and s is not st:
            kinds = reads_neighbours(m, f, s, x)
            if kinds:
                read_stmts.append((s, kinds))
    kinds_all = set()
    for _s, k in read_stmts:
        kinds_all |= k
    if kinds_all != {"pred", "succ"}:
        return (False, "a node that may have predecessors and successors is removed without reading both its current "
                       "neighbour sets in the same step: dependencies routed through it are dropped")
    # bridging loop: for (p, s) in product(P, S): add_edge(p, s, ...)
    bridges = []
    for n in f.own_nodes():
        if isinstance(n, ast.For):
            adds = [k for k in ast.walk(n) if isinstance(k, ast.Call) and isinstance(k.func, ast.Attribute) and k.func.attr == "add_edge"]
            if adds and isinstance(n.target, ast.Tuple) and len(n.target.elts) == 2:
                tg = [norm(e) for e in n.target.elts]
                if all(len(k.args) >= 2 and [norm(k.args[0]), norm(k.args[1])] == tg for k in adds):
                    bridges.append((n, adds))
    if not bridges:
        return (False, "no loop adds predecessor->successor edges before the node is removed")
    bridge_add_stmts = {stmt_of(mod, k) for _n, adds in bridges for k in adds}
    full = False
    for n, _adds in bridges:
        it = n.iter
        if isinstance(it, ast.Call) and ext_names(m, f, it) & {"itertools.product"} and len(it.args) == 2:
            full = True
        elif isinstance(it, ast.Name):
            full = True  # pairs computed by a helper: checked through reads_neighbours + staleness below
    if not full:
        return (False, "bridging loop does not range over the full product predecessors x successors")
    # the bridge dominates the removal
    for n, _ in bridges:
        if not all(g.dominates(set(g.of(n)), r_) for r_ in rm_nodes):
            return (False, "the node can be removed on a path that skips the bridging loop")
    # no other graph mutation between reading the neighbours and the removal
    other_mut = set()
    for k in graph_mutation_calls(f):
        ks = stmt_of(mod, k)
        if ks in bridge_add_stmts:
            continue
        other_mut |= set(g.of(ks))
    other_mut -= rm_nodes
    for s, _k in read_stmts:
        own = set(g.of(s))
        for sn in own:
            fresh = g.reach([sn], avoid=own)  # reachable without re-reading the neighbours
            stale_via = None
            for om in sorted(other_mut & fresh, key=lambda n: n.id):
                if rm_nodes & g.reach([om], avoid=own):
                    stale_via = om
                    break
            if stale_via is None:
                for rn in rm_nodes & fresh:
                    if rn in g.reach([rn], avoid=own):
                        stale_via = rn
                        break
            if stale_via is not None:
                return (False, "the neighbours are read from a graph state that is changed again before the removal "
                               "(batching): edges added or nodes removed in between are missed and dependency paths are lost",
                        g.fmt_path([sn, stale_via] + (g.path(stale_via, rm_nodes, avoid=own) or [])[-1:]))
    return (True, "current predecessors x successors are bridged immediately before the removal")
