"""C16: the arguments of the first failed call stay alive until the run ends.

With max_errors >= 1 (or None) a run continues after a failure.  The engine keeps the first failure (NodeError -> __cause__ =
the user's exception) until the run ends.  The user's exception keeps its traceback; uberjob trims its own frames from it,
but the kept user frame still has f_back = the frame of BoundCall.run, whose locals `args` / `kwargs` are the argument
VALUES of the failed call.  So the result of `produce` below - whose only consumer has finished (failed) - is not released
while the rest of the plan runs.

usage: PYTHONPATH=<tree>/src python C16_first_failure_pins_arguments_repro.py   (exit 1 = defect observed, 0 = not observed)"""
import gc
import sys
import threading
import time
import weakref

import uberjob


class Big:
    pass


def main():
    ref = {}
    consumer_done = threading.Event()
    observed = {}

    def produce():
        b = Big()
        ref["big"] = weakref.ref(b)
        return b

    def consume(b):
        try:
            raise ValueError("the only consumer of the big value fails")
        finally:
            consumer_done.set()

    def later():
        # runs after the failed consumer has finished (ordered by a dependency on a call that waits for it)
        consumer_done.wait(10)
        time.sleep(0.3)  # let the worker that ran the consumer leave its failure handler
        for _ in range(3):
            gc.collect()
        observed["alive_after_consumer_failed"] = ref["big"]() is not None

    plan = uberjob.Plan()
    big = plan.call(produce)
    consumer = plan.call(consume, big)
    probe = plan.call(later)
    plan.add_dependency(big, probe)
    try:
        # two workers: `later` waits (in the other worker) until the consumer has failed
        uberjob.run(plan, max_workers=2, max_errors=None, progress=None, output=[consumer, probe])
    except uberjob.CallError:
        pass
    if "alive_after_consumer_failed" not in observed:
        print("probe did not run")
        return 2
    for _ in range(3):
        gc.collect()
    print("value alive after its only (failed, first-error) consumer finished:", observed["alive_after_consumer_failed"])
    print("value alive after the run:", ref["big"]() is not None)
    return 1 if observed["alive_after_consumer_failed"] else 0


if __name__ == "__main__":
    sys.exit(main())
