"""E8: a small evaluator for AST fragments of the repository under an abstract semantics supplied by the rule.

It interprets *AST nodes* (never imports or executes repository code).  The rule supplies the abstract domain by
choosing the values it feeds in (ranks standing for order types, frame tags standing for datetime frames, stub
frame objects) and by stubbing every external callable.  Anything outside the supported language raises
AnalysisError (exit 2) - never a guess.
"""
from __future__ import annotations

import ast

from .model import AnalysisError, Class, Func, norm


class AbsRaise(Exception):
    def __init__(self, value):
        self.value = value


class AbsBlocked(BaseException):
    """The interpreted thread of control blocks for ever here (e.g. Queue.get() on an empty queue in a sequential simulation of
    worker threads): evaluation is abandoned at this point - no handler, no finally suite and no context-manager exit runs."""


class _Return(Exception):
    def __init__(self, value):
        self.value = value


class _Break(Exception):
    pass


class _Continue(Exception):
    pass


class Obj:
    """Instance of a repo class (interpreted) or an abstract object with stubbed attributes."""

    def __init__(self, cls=None, attrs=None, name=None, truthy=True):
        self.cls = cls
        self.attrs = dict(attrs or {})
        self.name = name
        self.truthy = truthy

    def __repr__(self):
        return f"<{self.cls.name if self.cls else 'obj'} {self.name or ''}>"


class GenResult(list):
    """What an interpreted generator yielded, plus the exception it ended with (raised when a consumer exhausts it)."""
    pending = None


class OneShot(list):
    """What a generator expression evaluates to: its items (computed eagerly), which can be consumed only once - iterating it,
    or an `in` test on it, uses them up (a later consumer finds it empty)."""


class Native:
    """Base class for checker-side abstract objects (e.g. the multigraph stub): attributes are used natively."""


class SuperProxy:
    def __init__(self, obj, cls):
        self.obj = obj
        self.cls = cls


class Closure:
    def __init__(self, func: Func, env, bound_self=None):
        self.func = func
        self.env = env
        self.bound_self = bound_self

    # a function object is the same object every time its name is evaluated (the evaluator makes a new Closure each time): module-level
    # functions and methods looked up on the same object compare - and hash - as one
    def _key(self):
        return (id(self.func), id(self.env) if self.func.parent is not None else 0, id(self.bound_self))

    def __eq__(self, other):
        return isinstance(other, Closure) and self._key() == other._key()

    def __hash__(self):
        return hash(self._key())

    def __repr__(self):
        return f"<closure {self.func.short}>"


class ClassVal:
    def __init__(self, cls: Class):
        self.cls = cls

    def __repr__(self):
        return f"<class {self.cls.name}>"


class Stub:
    def __init__(self, name, fn):
        self.name = name
        self.fn = fn

    def __repr__(self):
        return f"<stub {self.name}>"


class Env:
    def __init__(self, func, parent=None):
        self.func = func  # Func or Module (for resolving globals)
        self.vars = {}
        self.parent = parent

    def lookup(self, name):
        e = self
        while e is not None:
            if name in e.vars:
                return e, e.vars[name]
            e = e.parent
        return None, None


_SENTINEL = object()


class Interp:
    def __init__(self, model, stubs=None, ext=None, budget=200000):
        self.m = model
        self.stubs = stubs or {}  # name -> value override for free/global names
        self.ext = ext or {}  # dotted external name -> python callable
        self.budget = budget
        self.class_cache = {}
        self.ext.setdefault("sys.exc_info", self._exc_info)

    def _exc_names(self, value):
        """Class names an abstract exception value is an instance of (its own class first), as far as they are known."""
        import builtins as _b
        names = []
        if isinstance(value, Obj) and value.cls is not None:
            for c_ in value.cls.mro():
                names.append(c_ if isinstance(c_, str) else c_.name)
            names = [n_.split(".")[-1] for n_ in names]
        else:
            nm = value.name if isinstance(value, Obj) else str(value).split(":")[0].strip() if isinstance(value, str) else None
            if nm:
                names.append(nm.split(".")[-1])
        # library classes: continue with their real bases
        out = []
        for n_ in names:
            if n_ not in out:
                out.append(n_)
            k_ = getattr(_b, n_, None)
            if isinstance(k_, type) and issubclass(k_, BaseException):
                for b_ in k_.__mro__:
                    if b_.__name__ not in out and b_ is not object:
                        out.append(b_.__name__)
        if not any(x in ("BaseException",) for x in out):
            # an exception class the evaluator knows only by name (a user's error): an ordinary Exception
            out += [x for x in ("Exception", "BaseException") if x not in out]
        return out

    def _matching_handler(self, handlers, value, env=None):
        """The first `except` clause that catches the abstract exception `value` (None: it propagates)."""
        names = self._exc_names(value)

        def class_names(v):
            if isinstance(v, type):
                return [v.__name__]
            if isinstance(v, ClassVal):
                return [v.cls.name]
            if isinstance(v, Stub):
                return [v.name.split(".")[-1]]
            if isinstance(v, (tuple, list)):
                out = []
                for x in v:
                    r_ = class_names(x)
                    if r_ is None:
                        return None
                    out += r_
                return out
            return None
        for h in handlers:
            t = h.type
            if t is None:
                return h
            wanted = None
            if env is not None:
                try:
                    wanted = class_names(self.eval(t, env))
                except (AbsRaise, AnalysisError):
                    wanted = None
            if wanted is None:
                wanted = []
                for x in (t.elts if isinstance(t, ast.Tuple) else [t]):
                    if isinstance(x, ast.Name):
                        wanted.append(x.id)
                    elif isinstance(x, ast.Attribute):
                        wanted.append(x.attr)
                    else:
                        return h  # a computed class: not decided here, taken as matching (as before)
            if any(w in names for w in wanted):
                return h
        return None

    def _exc_info(self):
        """sys.exc_info(): the exception being handled by the innermost active handler."""
        h = getattr(self, "_handling", None)
        if not h:
            return (None, None, None)
        v = h[-1]
        t = self.class_val(v.cls) if isinstance(v, Obj) and v.cls is not None else ("type", getattr(v, "name", None) or str(v).split(":")[0])
        tb = v.attrs.get("__traceback__") if isinstance(v, Obj) else None
        return (t, v, tb)

    # ------------------------------------------------------------------ values
    def truth(self, v):
        if isinstance(v, Obj):
            return v.truthy
        if isinstance(v, (Closure, ClassVal, Stub)):
            return True
        return bool(v)

    def class_val(self, cls):
        if cls not in self.class_cache:
            self.class_cache[cls] = ClassVal(cls)
        return self.class_cache[cls]

    # ------------------------------------------------------------------ names
    def load(self, env, name):
        e, v = env.lookup(name)
        if e is not None:
            return v
        if name in self.stubs:
            return self.stubs[name]
        scope = env.func
        if name in ("__name__", "__file__") and scope is not None and self.m.binding_scope(scope, name) is None:
            mod_ = scope.module if isinstance(scope, Func) or hasattr(scope, "methods") else scope
            return mod_.name if name == "__name__" else mod_.path
        os_ = self.m.lookup_name(scope, name) if scope is not None else frozenset()
        funcs = [o for o in os_ if o[0] == "func"]
        classes = [o for o in os_ if o[0] == "class"]
        exts = [o for o in os_ if o[0] == "ext"]
        consts = [o for o in os_ if o[0] == "const"]
        if len(funcs) == 1 and not classes:
            return Closure(funcs[0][1], None)
        if len(classes) == 1 and not funcs:
            return self.class_val(classes[0][1])
        if len(exts) == 1:
            n = exts[0][1]
            if n in PYTYPES and n not in self.ext:
                return PYTYPES[n]
            if n in self.ext:
                return Stub(n, self.ext[n])
            hl = self.higher_order(n)
            if hl is not None:
                return Stub(n, hl)
            b = BUILTINS.get(n)
            if b is not None:
                return Stub(n, b)
            lv = _lib_value(n)
            if lv is not None:
                return lv if isinstance(lv, type) else Stub(n, lv)
            return Stub(n, None)
        if len(consts) == 1 and len(os_) == 1:
            return consts[0][1]
        # module-level constant: evaluate its (single) defining expression in the module environment
        bs = self.m.binding_scope(scope, name) if scope is not None else None
        hops = 0
        while bs is not None and not isinstance(bs, Func) and hops < 4:
            # a module-level name imported from another repo module: follow the import to where it is assigned
            imps = [b for b in bs.bindings.get(name, []) if b[0] == "import"]
            if len(imps) != 1 or len(bs.bindings.get(name, [])) != 1 or not isinstance(imps[0][1], str) or "." not in imps[0][1]:
                break
            modname, _, attr_ = imps[0][1].rpartition(".")
            tgt = self.m.modules.get(modname)
            if tgt is None or attr_ not in tgt.bindings:
                break
            bs, name = tgt, attr_
            hops += 1
        if bs is not None and not isinstance(bs, Func):
            items = [b for b in bs.bindings.get(name, []) if b[0] == "assign" and not b[2]]
            if len(items) >= 1:
                key = (bs.name, name)
                if key not in self.class_cache:
                    self.class_cache[key] = self.eval(items[-1][1], Env(bs))
                return self.class_cache[key]
        mods = [o for o in os_ if o[0] == "module"]
        if len(mods) == 1:
            return ("module", mods[0][1])
        if name in ("__name__", "__file__") and scope is not None:
            mod_ = scope if not isinstance(scope, Func) and not hasattr(scope, "methods") else scope.module
            return mod_.name if name == "__name__" else mod_.path
        raise AnalysisError(f"evaluator: cannot resolve name {name!r} in {getattr(scope, 'qualname', scope)}")

    def higher_order(self, name):
        """Library functions that call back into abstract callables (closures of the interpreted code)."""
        def ap(f, *a):
            return self.call(f, list(a), {})
        table = {
            "builtins.map": lambda f, *its: [ap(f, *xs) for xs in zip(*[self.iterate(i) for i in its])],
            "builtins.filter": lambda f, it: [x for x in self.iterate(it) if (self.truth(ap(f, x)) if f is not None else self.truth(x))],
            "builtins.sorted": lambda it, key=None, reverse=False: sorted(self.iterate(it), key=(lambda x: ap(key, x)) if key is not None else None, reverse=reverse),
            "functools.reduce": lambda f, it, *init: __import__("functools").reduce(lambda a, b: ap(f, a, b), self.iterate(it), *init),
            "functools.partial": lambda f, *a, **k: Stub("partial", lambda *b, **k2: self.call(f, list(a) + list(b), {**k, **k2})),
            "functools.wraps": lambda f: (lambda g: g),
            "functools.lru_cache": lambda *a, **k: (a[0] if len(a) == 1 and not k and isinstance(a[0], (Closure, Stub)) else (lambda g: g)),
            "functools.cache": lambda g: g,
            "builtins.print": lambda *a, **k: None,
            "builtins.getattr": lambda o, a, *d: self._getattr_default(o, a, d),
            "itertools.starmap": lambda f, it: [ap(f, *xs) for xs in self.iterate(it)],
            "itertools.takewhile": lambda f, it: list(__import__("itertools").takewhile(lambda x: self.truth(ap(f, x)), self.iterate(it))),
            "itertools.dropwhile": lambda f, it: list(__import__("itertools").dropwhile(lambda x: self.truth(ap(f, x)), self.iterate(it))),
            "itertools.filterfalse": lambda f, it: [x for x in self.iterate(it) if not (self.truth(ap(f, x)) if f is not None else self.truth(x))],
        }
        return table.get(name)

    def _getattr_default(self, o, a, d):
        try:
            return self.getattr(o, a)
        except (AbsRaise, AnalysisError):
            if d:
                return d[0]
            raise AbsRaise(f"AttributeError: {a}")

    # ------------------------------------------------------------------ calls
    def call(self, f, args, kwargs, where=""):
        self.budget -= 1
        if self.budget < 0:
            raise AnalysisError("evaluator: step budget exhausted")
        if isinstance(f, Stub):
            if f.fn is None:
                raise AnalysisError(f"evaluator: external callable {f.name} has no abstract semantics ({where})")
            try:
                return f.fn(*args, **kwargs)
            except (TypeError, ValueError, KeyError, IndexError, AttributeError) as e:
                raise AbsRaise(f"{type(e).__name__}: {e}")
        if isinstance(f, Closure):
            fs_ = self.__dict__.get("func_stubs")
            if fs_ and f.func in fs_:
                return fs_[f.func](*args, **kwargs)  # a rule replaces one repo function (by identity, not by name) with a model
            return self.call_func(f.func, f.env, args, kwargs, f.bound_self)
        if isinstance(f, ClassVal):
            obj = Obj(f.cls)
            init = f.cls.lookup("__init__")
            if isinstance(init, Func):
                self.call_func(init, None, args, kwargs, obj)
            elif any(norm(d_.func if isinstance(d_, ast.Call) else d_).split(".")[-1] == "dataclass" for c_ in f.cls.repo_mro() for d_ in c_.node.decorator_list):
                # @dataclass: the generated __init__ binds the annotated fields (base classes first) positionally / by keyword /
                # from their defaults (`= value`, field(default=...), field(default_factory=...))
                fields = []
                for c_ in reversed(f.cls.repo_mro()):
                    for st in c_.node.body:
                        if isinstance(st, ast.AnnAssign) and isinstance(st.target, ast.Name) and "ClassVar" not in norm(st.annotation):
                            fields = [x for x in fields if x[0] != st.target.id] + [(st.target.id, st.value, c_)]
                if len(args) > len(fields) or any(k not in [n_ for n_, _v, _c in fields] for k in kwargs):
                    raise AbsRaise("TypeError: dataclass construction")
                for i, (nm, dflt, c_) in enumerate(fields):
                    if i < len(args):
                        obj.attrs[nm] = args[i]
                    elif nm in kwargs:
                        obj.attrs[nm] = kwargs[nm]
                    elif dflt is not None:
                        if isinstance(dflt, ast.Call) and norm(dflt.func).split(".")[-1] == "field":
                            kw_ = {k_.arg: k_.value for k_ in dflt.keywords}
                            if "default" in kw_:
                                obj.attrs[nm] = self.eval(kw_["default"], Env(c_.module))
                            elif "default_factory" in kw_:
                                obj.attrs[nm] = self.call(self.eval(kw_["default_factory"], Env(c_.module)), [], {})
                            else:
                                raise AbsRaise(f"TypeError: missing field {nm}")
                        else:
                            obj.attrs[nm] = self.eval(dflt, Env(c_.module))
                    else:
                        raise AbsRaise(f"TypeError: missing field {nm}")
                post = f.cls.lookup("__post_init__")
                if isinstance(post, Func):
                    self.call_func(post, None, [], {}, obj)
            elif any(x.split(".")[-1] == "NamedTuple" for x in f.cls.ext_bases()):
                # typing.NamedTuple: the annotated fields, in order, bound positionally / by keyword / from defaults
                fields = [(st.target.id, st.value) for st in f.cls.node.body
                          if isinstance(st, ast.AnnAssign) and isinstance(st.target, ast.Name)]
                if len(args) > len(fields) or any(k not in [n_ for n_, _ in fields] for k in kwargs):
                    raise AbsRaise("TypeError: NamedTuple construction")
                for i, (nm, dflt) in enumerate(fields):
                    if i < len(args):
                        obj.attrs[nm] = args[i]
                    elif nm in kwargs:
                        obj.attrs[nm] = kwargs[nm]
                    elif dflt is not None:
                        obj.attrs[nm] = self.eval(dflt, Env(f.cls.module))
                    else:
                        raise AbsRaise(f"TypeError: missing field {nm}")
                obj.attrs["__tuple_fields__"] = [nm for nm, _ in fields]
            return obj
        if callable(f) and not isinstance(f, (Obj,)):
            try:
                return f(*args, **kwargs)
            except (TypeError, ValueError, KeyError, IndexError) as e:
                raise AbsRaise(f"{type(e).__name__}: {e}")
        if isinstance(f, Obj) and "__call__" in f.attrs:
            return self.call(f.attrs["__call__"], args, kwargs, where)
        if isinstance(f, Obj) and getattr(f, "cls", None) is not None and hasattr(f.cls, "lookup") and isinstance(f.cls.lookup("__call__"), Func):
            return self.call_func(f.cls.lookup("__call__"), None, args, kwargs, f)   # an instance of a class of the package that defines __call__
        raise AnalysisError(f"evaluator: value {f!r} is not callable ({where})")

    def call_func(self, func: Func, closure_env, args, kwargs, bound_self=None):
        env = Env(func, closure_env if closure_env is not None else Env(func.parent or func.module))
        if closure_env is None and func.parent is not None:
            raise AnalysisError(f"evaluator: closure {func.qualname} called without its defining environment")
        stack = self.__dict__.setdefault("env_stack", [])
        stack.append(env)
        try:
            return self._call_func(func, env, args, kwargs, bound_self)
        finally:
            stack.pop()

    def frame_of(self, env):
        """The frame object of an interpreted activation (see tb_here): code, module globals' names, live locals."""
        f = env.func
        mod_ = f.module if isinstance(f, Func) else f
        return Obj(None, {"f_code": Obj(None, {"co_filename": getattr(mod_, "path", "?"), "co_name": getattr(f, "name", "<module>")}, name="code"),
                          "f_globals": {"__name__": getattr(mod_, "name", "?"), "__file__": getattr(mod_, "path", "?")},
                          "f_locals": env.vars, "f_back": None, "f_lineno": 0}, name=f"frame:{getattr(f, 'short', '?')}")

    def _call_func(self, func, env, args, kwargs, bound_self):
        args = list(args)
        if bound_self is not None:
            args = [bound_self] + args
        pos = func.pos_params
        for i, p in enumerate(pos):
            if i < len(args):
                env.vars[p] = args[i]
            elif p in kwargs:
                env.vars[p] = kwargs.pop(p)
            elif p in func.defaults:
                env.vars[p] = self.eval(func.defaults[p], Env(func.parent or func.module))
            else:
                raise AnalysisError(f"evaluator: missing argument {p} for {func.qualname}")
        extra = args[len(pos):]
        if func.vararg:
            env.vars[func.vararg] = tuple(extra)
        elif extra:
            raise AnalysisError(f"evaluator: too many arguments for {func.qualname}")
        for p in func.kwonly_params:
            if p in kwargs:
                env.vars[p] = kwargs.pop(p)
            elif p in func.defaults:
                env.vars[p] = self.eval(func.defaults[p], Env(func.parent or func.module))
            else:
                raise AnalysisError(f"evaluator: missing keyword argument {p} for {func.qualname}")
        if func.kwarg:
            env.vars[func.kwarg] = dict(kwargs)
        elif kwargs:
            raise AnalysisError(f"evaluator: unexpected keyword arguments {sorted(kwargs)} for {func.qualname}")
        if isinstance(func.node, ast.Lambda):
            return self.eval(func.node.body, env)
        is_gen = any(isinstance(n, (ast.Yield, ast.YieldFrom)) for n in func.own_nodes())
        if is_gen:
            # a generator is run to its end when it is created and handed out as the list of what it yielded; an exception raised
            # after some yields is kept *pending* and surfaces only when a consumer exhausts the generator (a consumer that stops
            # early - break, next() - never sees it), as in Python
            out = GenResult()
            env.vars["__yield__"] = out
            hook_ = self.__dict__.pop("_pending_cm_hook", None)
            if hook_ is not None:
                # called as the context manager of a with statement: the with-body runs at the yield (continuation), so that an
                # exception of the body is raised there - inside the generator's try/finally/except - as contextlib does it
                env.vars["__cm_hook__"] = hook_
                self.exec_block(func.node.body, env)
                return out
            try:
                self.exec_block(func.node.body, env)
            except _Return:
                pass
            except AbsRaise as e_:
                self.tb_here(e_.value, env)
                out.pending = e_
            return out
        try:
            self.exec_block(func.node.body, env)
        except _Return as r:
            return r.value
        except AbsRaise as e_:
            self.tb_here(e_.value, env)
            raise
        return None

    def _with_repo_contextmanager(self, s, env):
        """`with f(...) as x: BODY` where f is a @contextmanager generator function of the repo (first item): interpret the
        generator with BODY as the continuation of its yield.  -> True if the statement was handled this way."""
        it = s.items[0]
        ce = it.context_expr
        if not isinstance(ce, ast.Call):
            return False
        try:
            scope = env.func
            fs = self.m.callee_funcs(scope, ce) if isinstance(scope, Func) and ce in scope.own_calls() else set()
        except Exception:
            fs = set()
        if len(fs) != 1:
            return False
        f = next(iter(fs))
        if not f.is_contextmanager or f.name in self.stubs:
            return False
        rest = s if len(s.items) == 1 else None
        state = {"entered": False, "flow": None}

        def body(val):
            state["entered"] = True
            if it.optional_vars is not None:
                self.assign(it.optional_vars, val, env)
            try:
                if len(s.items) == 1:
                    self.exec_block(s.body, env)
                else:
                    inner = ast.With(items=s.items[1:], body=s.body)
                    ast.copy_location(inner, s)
                    self.exec(inner, env)
            except (_Return, _Break, _Continue) as flow:
                # leaving the with-body by return/break/continue is a normal exit for the context manager
                state["flow"] = flow
        fval = self.eval(ce.func, env)
        args, kwargs = [], {}
        for a in ce.args:
            if isinstance(a, ast.Starred):
                args.extend(self.iterate(self.eval(a.value, env)))
            else:
                args.append(self.eval(a, env))
        for k in ce.keywords:
            if k.arg is None:
                kwargs.update(self.eval(k.value, env))
            else:
                kwargs[k.arg] = self.eval(k.value, env)
        self._pending_cm_hook = body
        try:
            self.call(fval, args, kwargs, norm(ce))
        finally:
            self.__dict__.pop("_pending_cm_hook", None)
        if not state["entered"]:
            raise AbsRaise("RuntimeError: generator didn't yield")
        if state["flow"] is not None:
            raise state["flow"]
        return True

    def tb_here(self, exc, env):
        """Traceback model (only for exception objects that ask for it with a `__tb_tracking__` attribute): like the
        interpreter, each frame an exception unwinds through - or is caught in - contributes one entry at the head of the
        chain, once.  The frame object shows the function's code, its module globals' names and its *live* local variables."""
        if not (isinstance(exc, Obj) and exc.attrs.get("__tb_tracking__")):
            return
        seen = exc.attrs.setdefault("__tb_envs__", [])
        if any(x is env for x in seen):
            return
        seen.append(env)
        f = env.func
        frame = self.frame_of(env)
        exc.attrs["__traceback__"] = Obj(None, {"tb_next": exc.attrs.get("__traceback__"), "tb_frame": frame, "tb_lineno": 0, "tb_lasti": 0},
                                         name=f"tb:{getattr(f, 'short', '?')}")

    # ------------------------------------------------------------------ statements
    def exec_block(self, stmts, env):
        for s in stmts:
            self.exec(s, env)

    def exec(self, s, env):
        self.budget -= 1
        if self.budget < 0:
            raise AnalysisError("evaluator: step budget exhausted")
        if isinstance(s, ast.Expr):
            if isinstance(s.value, ast.Constant):
                return
            if isinstance(s.value, ast.Yield):
                val_ = self.eval(s.value.value, env) if s.value.value is not None else None
                hk_env, hook = env.lookup("__cm_hook__")
                if hk_env is not None and hook is not None:
                    hk_env.vars["__cm_hook__"] = None  # a context manager yields once
                    hook(val_)
                    return
                env.lookup("__yield__")[1].append(val_)
                return
            self.eval(s.value, env)
        elif isinstance(s, ast.Assign):
            v = self.eval(s.value, env)
            for t in s.targets:
                self.assign(t, v, env)
        elif isinstance(s, ast.AnnAssign):
            if s.value is not None:
                self.assign(s.target, self.eval(s.value, env), env)
        elif isinstance(s, ast.AugAssign):
            cur = self.eval(_load(s.target), env)
            v = self.eval(s.value, env)
            self.assign(s.target, self.binop(s.op, cur, v), env)
        elif isinstance(s, ast.Return):
            raise _Return(self.eval(s.value, env) if s.value is not None else None)
        elif isinstance(s, ast.If):
            self.exec_block(s.body if self.truth(self.eval(s.test, env)) else s.orelse, env)
        elif isinstance(s, ast.For):
            src_ = self.eval(s.iter, env)
            pending_ = src_.pending if isinstance(src_, GenResult) else None
            it = list(src_) if isinstance(src_, GenResult) else self.iterate(src_)
            broke = False
            for x in it:
                self.assign(s.target, x, env)
                try:
                    self.exec_block(s.body, env)
                except _Break:
                    broke = True
                    break
                except _Continue:
                    continue
            if not broke:
                if pending_ is not None:
                    raise pending_
                self.exec_block(s.orelse, env)
        elif isinstance(s, ast.While):
            while self.truth(self.eval(s.test, env)):
                try:
                    self.exec_block(s.body, env)
                except _Break:
                    break
                except _Continue:
                    continue
        elif isinstance(s, (ast.FunctionDef,)):
            f = self.m.func_of_node.get(s)
            if f is None:
                raise AnalysisError("evaluator: nested def not indexed")
            env.vars[s.name] = Closure(f, env)
        elif isinstance(s, ast.Pass):
            pass
        elif isinstance(s, ast.Break):
            raise _Break()
        elif isinstance(s, ast.Continue):
            raise _Continue()
        elif isinstance(s, ast.Raise):
            if s.exc is None:
                # bare raise: the exception being handled
                cur = getattr(self, "_handling", [])
                raise AbsRaise(cur[-1] if cur else None)
            exc_ = self.eval(s.exc, env)
            if isinstance(exc_, ClassVal):
                exc_ = self.call(exc_, [], {})
            if isinstance(exc_, Obj):
                if getattr(self, "track_tb", False):
                    exc_.attrs.setdefault("__tb_tracking__", True)
                cur = getattr(self, "_handling", [])
                if s.cause is not None:
                    exc_.attrs["__cause__"] = self.eval(s.cause, env)
                if cur and cur[-1] is not exc_:
                    exc_.attrs.setdefault("__context__", cur[-1])
            raise AbsRaise(exc_)
        elif isinstance(s, ast.Try):
            blocked = False
            try:
                try:
                    self.exec_block(s.body, env)
                except AbsBlocked:
                    blocked = True
                    raise
                except AbsRaise as e:
                    if not s.handlers:
                        raise
                    h = self._matching_handler(s.handlers, e.value, env)
                    if h is None:
                        raise
                    self.tb_here(e.value, env)
                    if h.name:
                        env.vars[h.name] = e.value
                    if not hasattr(self, "_handling"):
                        self._handling = []
                    self._handling.append(e.value)
                    try:
                        self.exec_block(h.body, env)
                    finally:
                        self._handling.pop()
                else:
                    self.exec_block(s.orelse, env)
            except AbsBlocked:
                blocked = True
                raise
            finally:
                if not blocked:
                    self.exec_block(s.finalbody, env)
        elif isinstance(s, ast.With) and self._with_repo_contextmanager(s, env):
            pass  # handled (see _with_repo_contextmanager)
        elif isinstance(s, ast.With):
            exits = []
            try:
                for it in s.items:
                    v = self.eval(it.context_expr, env)
                    bound = v
                    if isinstance(v, Obj) and isinstance(v.attrs.get("__enter__"), Stub):
                        # an abstract object with observable enter/exit (e.g. a lock whose held-state a rule tracks)
                        v.attrs["__enter__"].fn()
                        if isinstance(v.attrs.get("__exit__"), Stub):
                            exits.append(lambda *exc, _x=v.attrs["__exit__"]: _x.fn())
                    elif isinstance(v, Obj) and v.cls is not None and isinstance(v.cls.lookup("__enter__"), Func) and isinstance(v.cls.lookup("__exit__"), Func):
                        # an instance of a class of the package that is a context manager: its own __enter__ / __exit__ are interpreted
                        bound = self.call_func(v.cls.lookup("__enter__"), None, [], {}, bound_self=v)

                        def _exit(et, ev, tb, _v=v):
                            return self.truth(self.call_func(_v.cls.lookup("__exit__"), None, [et, ev, tb], {}, bound_self=_v))
                        exits.append(_exit)
                    elif isinstance(v, Native) and hasattr(v, "__enter__"):
                        # a checker-side model of a library context manager (e.g. contextlib.ExitStack)
                        bound = v.__enter__()
                        exits.append(v.__exit__)
                    if it.optional_vars is not None:
                        self.assign(it.optional_vars, bound, env)
                self.exec_block(s.body, env)
            except AbsBlocked:
                raise
            except AbsRaise as e_:
                if exits:
                    self.tb_here(e_.value, env)   # the frame of the `with` is part of the traceback its __exit__ receives
                left = _unwind(exits, e_)
                if left is e_:
                    raise
                if left is not None:
                    raise left
            except BaseException:
                # control flow of the evaluator itself (return / break / continue) or an analysis error: the exits run
                left = _unwind(exits, None)
                if left is not None:
                    raise left
                raise
            else:
                left = _unwind(exits, None)
                if left is not None:
                    raise left
        elif isinstance(s, (ast.Nonlocal, ast.Global, ast.Import, ast.ImportFrom)):
            pass
        elif isinstance(s, ast.Assert):
            if not self.truth(self.eval(s.test, env)):
                raise AbsRaise("AssertionError")
        elif isinstance(s, ast.Delete):
            for t in s.targets:
                if isinstance(t, ast.Subscript):
                    c_ = self.eval(t.value, env)
                    k_ = self.eval(t.slice, env)
                    if isinstance(c_, Native) and hasattr(c_, "__delitem__"):
                        c_.__delitem__(k_)
                    elif isinstance(c_, (dict, list)):
                        try:
                            del c_[k_]
                        except (KeyError, IndexError) as ex_:
                            raise AbsRaise(f"{type(ex_).__name__}: {ex_}")
                    else:
                        raise AnalysisError(f"evaluator: `{norm(s)}` on {type(c_).__name__}")
                elif isinstance(t, ast.Name):
                    e_, _v = env.lookup(t.id)
                    if e_ is None:
                        raise AbsRaise(f"NameError: {t.id}")
                    del e_.vars[t.id]
                elif isinstance(t, ast.Attribute):
                    o_ = self.eval(t.value, env)
                    if isinstance(o_, Obj) and t.attr in o_.attrs:
                        del o_.attrs[t.attr]
                    else:
                        raise AbsRaise(f"AttributeError: {t.attr}")
                else:
                    raise AnalysisError(f"evaluator: statement `{norm(s)}` outside the supported language")
        else:
            raise AnalysisError(f"evaluator: statement `{norm(s)}` outside the supported language")

    def assign(self, t, v, env):
        if isinstance(t, ast.Name):
            f = env.func
            if isinstance(f, Func) and t.id in f.nonlocals:
                e, _ = env.parent.lookup(t.id) if env.parent else (None, None)
                if e is None:
                    raise AnalysisError(f"evaluator: nonlocal {t.id} not found")
                e.vars[t.id] = v
            else:
                env.vars[t.id] = v
        elif isinstance(t, (ast.Tuple, ast.List)):
            vals = list(self.iterate(v))
            if len(vals) != len(t.elts):
                raise AbsRaise("ValueError: unpack")
            for tt, vv in zip(t.elts, vals):
                self.assign(tt, vv, env)
        elif isinstance(t, ast.Attribute):
            o = self.eval(t.value, env)
            if isinstance(o, Obj):
                o.attrs[t.attr] = v
            elif isinstance(o, str) and t.attr in ("__context__", "__cause__", "__traceback__", "__suppress_context__"):
                if not hasattr(self, "_exc_attrs"):
                    self._exc_attrs = {}
                self._exc_attrs[(o, t.attr)] = v
            else:
                raise AnalysisError(f"evaluator: attribute store on {o!r}")
        elif isinstance(t, ast.Subscript):
            o = self.eval(t.value, env)
            k = self.eval(t.slice, env)
            try:
                o[k] = v
            except (TypeError, KeyError, IndexError) as e:
                raise AbsRaise(f"{type(e).__name__}: {e}")
        else:
            raise AnalysisError(f"evaluator: assignment target `{norm(t)}`")

    # ------------------------------------------------------------------ expressions
    def iterate(self, v):
        if isinstance(v, OneShot):
            items = list(v)
            del v[:]
            return items
        if isinstance(v, GenResult):
            if v.pending is not None:
                raise v.pending  # the consumer exhausts the generator
            return list(v)
        if isinstance(v, Obj) and "__tuple_fields__" in v.attrs:
            return [v.attrs[n_] for n_ in v.attrs["__tuple_fields__"]]
        if isinstance(v, (list, tuple, set, frozenset, dict, range)):
            return list(v)
        if isinstance(v, type({}.items())) or isinstance(v, type({}.values())) or isinstance(v, type({}.keys())):
            return list(v)
        if hasattr(v, "__iter__") and not isinstance(v, (str, Obj)):
            return list(v)
        raise AnalysisError(f"evaluator: cannot iterate {v!r}")

    def binop(self, op, a, b):
        try:
            if isinstance(op, ast.Add):
                return a + b
            if isinstance(op, ast.Sub):
                return a - b
            if isinstance(op, ast.Mult):
                return a * b
            if isinstance(op, ast.FloorDiv):
                return a // b
            if isinstance(op, ast.Mod):
                return a % b
            if isinstance(op, ast.Div):
                return a / b
            if isinstance(op, ast.BitOr) and not isinstance(a, Obj) and not isinstance(b, Obj):
                return a | b  # set / dict union, integer or
            if isinstance(op, ast.BitAnd) and not isinstance(a, Obj) and not isinstance(b, Obj):
                return a & b
            if isinstance(op, ast.BitXor) and not isinstance(a, Obj) and not isinstance(b, Obj):
                return a ^ b
            if isinstance(op, ast.Pow):
                return a ** b
        except ZeroDivisionError:
            raise AbsRaise("ZeroDivisionError")
        except TypeError as e:
            raise AbsRaise(f"TypeError: {e}")
        raise AnalysisError(f"evaluator: operator {type(op).__name__}")

    def compare(self, op, a, b):
        try:
            if isinstance(op, ast.Is):
                return a is b or (isinstance(a, Closure) and isinstance(b, Closure) and a.bound_self is None and a == b)
            if isinstance(op, ast.IsNot):
                return not (a is b or (isinstance(a, Closure) and isinstance(b, Closure) and a.bound_self is None and a == b))
            if isinstance(op, ast.Eq):
                return a == b
            if isinstance(op, ast.NotEq):
                return a != b
            if isinstance(op, ast.Lt):
                return a < b
            if isinstance(op, ast.LtE):
                return a <= b
            if isinstance(op, ast.Gt):
                return a > b
            if isinstance(op, ast.GtE):
                return a >= b
            if isinstance(op, ast.In):
                return self.contains(b, a)
            if isinstance(op, ast.NotIn):
                return not self.contains(b, a)
        except TypeError as e:
            raise AbsRaise(f"TypeError: {e}")
        raise AnalysisError(f"evaluator: comparison {type(op).__name__}")

    def contains(self, container, item):
        if isinstance(container, Obj) and container.cls is not None:
            mth = container.cls.lookup("__contains__")
            if isinstance(mth, Func):
                return self.truth(self.call_func(mth, None, [item], {}, container))
        if isinstance(container, Obj) and "__contains__" in container.attrs:
            return self.truth(self.call(container.attrs["__contains__"], [item], {}))
        if isinstance(container, OneShot):
            # the search consumes the generator up to and including the element found (all of it when there is none)
            for i_, x_ in enumerate(container):
                if x_ is item or x_ == item:
                    del container[:i_ + 1]
                    return True
            del container[:]
            return False
        return item in container

    def comprehension(self, e, env):
        out = []
        cenv = Env(env.func, env)

        def rec(i):
            if i == len(e.generators):
                if isinstance(e, ast.DictComp):
                    out.append((self.eval(e.key, cenv), self.eval(e.value, cenv)))
                else:
                    out.append(self.eval(e.elt, cenv))
                return
            g = e.generators[i]
            for x in self.iterate(self.eval(g.iter, cenv)):
                self.assign(g.target, x, cenv)
                if all(self.truth(self.eval(c, cenv)) for c in g.ifs):
                    rec(i + 1)

        rec(0)
        if isinstance(e, ast.DictComp):
            return dict(out)
        if isinstance(e, ast.SetComp):
            return set(out)
        if isinstance(e, ast.GeneratorExp):
            return OneShot(out)
        return out

    def eval(self, e, env):
        self.budget -= 1
        if self.budget < 0:
            raise AnalysisError("evaluator: step budget exhausted")
        if isinstance(e, ast.Constant):
            return e.value
        if isinstance(e, ast.Name):
            return self.load(env, e.id)
        if isinstance(e, ast.Attribute):
            return self.getattr(self.eval(e.value, env), e.attr, e)
        if isinstance(e, ast.Call):
            if isinstance(e.func, ast.Name) and e.func.id == "super" and not e.args:
                fn = env.func
                while isinstance(fn, Func) and fn.cls is None and fn.parent is not None:
                    fn = fn.parent
                if not isinstance(fn, Func) or fn.cls is None:
                    raise AnalysisError("evaluator: super() outside a method")
                _e, selfv = env.lookup(fn.pos_params[0])
                return SuperProxy(selfv, fn.cls)
            if isinstance(e.func, ast.Name) and e.func.id == "isinstance" and len(e.args) == 2:
                return self.isinstance_(self.eval(e.args[0], env), self.eval(e.args[1], env))
            f = self.eval(e.func, env)
            args = []
            for a in e.args:
                if isinstance(a, ast.Starred):
                    args.extend(self.iterate(self.eval(a.value, env)))
                else:
                    args.append(self.eval(a, env))
            kwargs = {}
            for k in e.keywords:
                if k.arg is None:
                    kwargs.update(self.eval(k.value, env))
                else:
                    kwargs[k.arg] = self.eval(k.value, env)
            return self.call(f, args, kwargs, norm(e))
        if isinstance(e, ast.IfExp):
            return self.eval(e.body if self.truth(self.eval(e.test, env)) else e.orelse, env)
        if isinstance(e, ast.BoolOp):
            v = None
            for x in e.values:
                v = self.eval(x, env)
                if isinstance(e.op, ast.And) and not self.truth(v):
                    return v
                if isinstance(e.op, ast.Or) and self.truth(v):
                    return v
            return v
        if isinstance(e, ast.UnaryOp):
            v = self.eval(e.operand, env)
            if isinstance(e.op, ast.Not):
                return not self.truth(v)
            if isinstance(e.op, ast.USub):
                return -v
            raise AnalysisError("evaluator: unary operator")
        if isinstance(e, ast.Compare):
            left = self.eval(e.left, env)
            for op, r in zip(e.ops, e.comparators):
                right = self.eval(r, env)
                if not self.compare(op, left, right):
                    return False
                left = right
            return True
        if isinstance(e, ast.BinOp):
            return self.binop(e.op, self.eval(e.left, env), self.eval(e.right, env))
        if isinstance(e, ast.Subscript):
            o = self.eval(e.value, env)
            if isinstance(e.slice, ast.Slice):
                lo = self.eval(e.slice.lower, env) if e.slice.lower else None
                hi = self.eval(e.slice.upper, env) if e.slice.upper else None
                return o[lo:hi]
            k = self.eval(e.slice, env)
            if isinstance(o, Obj) and "__tuple_fields__" in o.attrs and isinstance(k, int):
                o = [o.attrs[n_] for n_ in o.attrs["__tuple_fields__"]]
            try:
                return o[k]
            except (KeyError, IndexError) as ex:
                raise AbsRaise(f"{type(ex).__name__}")
            except TypeError as ex:
                raise AbsRaise(f"TypeError: {ex}")
        if isinstance(e, ast.Tuple):
            out = []
            for x in e.elts:
                if isinstance(x, ast.Starred):
                    out.extend(self.iterate(self.eval(x.value, env)))
                else:
                    out.append(self.eval(x, env))
            return tuple(out)
        if isinstance(e, ast.List):
            out = []
            for x in e.elts:
                if isinstance(x, ast.Starred):
                    out.extend(self.iterate(self.eval(x.value, env)))
                else:
                    out.append(self.eval(x, env))
            return out
        if isinstance(e, ast.Set):
            out = set()
            for x in e.elts:
                if isinstance(x, ast.Starred):
                    out.update(self.iterate(self.eval(x.value, env)))
                else:
                    out.add(self.eval(x, env))
            return out
        if isinstance(e, ast.Dict):
            out = {}
            for k, v in zip(e.keys, e.values):
                if k is None:   # {**other}
                    other = self.eval(v, env)
                    if not isinstance(other, dict):
                        raise AnalysisError("evaluator: `**` of a value that is not a dict in a dict display")
                    out.update(other)
                else:
                    out[self.eval(k, env)] = self.eval(v, env)
            return out
        if isinstance(e, (ast.ListComp, ast.SetComp, ast.GeneratorExp, ast.DictComp)):
            return self.comprehension(e, env)
        if isinstance(e, ast.NamedExpr):
            v_ = self.eval(e.value, env)
            self.assign(e.target, v_, env)
            return v_
        if isinstance(e, ast.Lambda):
            f = self.m.func_of_node.get(e)
            return Closure(f, env)
        if isinstance(e, ast.JoinedStr):
            out = []
            for v in e.values:
                if isinstance(v, ast.Constant):
                    out.append(str(v.value))
                else:
                    x = self.eval(v.value, env)
                    out.append(repr(x) if v.conversion == 114 else str(x))
            return "".join(out)
        raise AnalysisError(f"evaluator: expression `{norm(e)}` outside the supported language")

    def _is_abstract_exception(self, v):
        """An abstract exception value (a raised token, an object of an exception class of the package): `isinstance` against a
        library exception class is decided by the class names it is known to be an instance of, as `except` clauses are."""
        if isinstance(v, Obj) and v.cls is not None:
            return any(n_ in ("BaseException", "Exception") for n_ in self._exc_names(v)) and \
                any((c_ if isinstance(c_, str) else c_.name).split(".")[-1] in dir(__import__("builtins")) for c_ in v.cls.mro())
        if isinstance(v, Obj):
            return bool(v.name) and ("__traceback__" in v.attrs or v.name.endswith(("Error", "Exception", "Exit", "Interrupt")))
        return isinstance(v, str) and v[:1].isupper() and v.split(":")[0].strip().isidentifier()

    def isinstance_(self, v, c):
        if isinstance(c, tuple):
            return any(self.isinstance_(v, x) for x in c)
        if isinstance(c, ClassVal):
            return isinstance(v, Obj) and v.cls is not None and c.cls in v.cls.repo_mro()
        if isinstance(c, type):
            if issubclass(c, BaseException) and self._is_abstract_exception(v):
                return c.__name__ in self._exc_names(v)
            return isinstance(v, c) and not isinstance(v, (Obj, Native))
        if isinstance(c, Stub):
            py = {"builtins.int": int, "builtins.str": str, "builtins.tuple": tuple, "builtins.list": list,
                  "builtins.dict": dict, "builtins.set": set, "builtins.bool": bool}.get(c.name)
            if py is None and c.name.startswith("builtins."):
                import builtins as _b
                cand = getattr(_b, c.name.split(".", 1)[1], None)
                py = cand if isinstance(cand, type) else None
            if py is None:
                lv_ = _lib_value(c.name)
                py = lv_ if isinstance(lv_, type) else None
            if py is not None:
                if isinstance(py, type) and issubclass(py, BaseException) and self._is_abstract_exception(v):
                    return py.__name__ in self._exc_names(v)
                return isinstance(v, py) and not isinstance(v, Obj)
            return False
        raise AnalysisError(f"evaluator: isinstance against {c!r}")

    def getattr(self, o, attr, node=None):
        if isinstance(o, Native):
            try:
                return getattr(o, attr)
            except AttributeError:
                raise AnalysisError(f"evaluator: the checker-side model {type(o).__name__} has no attribute {attr!r}")
        if isinstance(o, SuperProxy):
            mro = o.obj.cls.repo_mro() if isinstance(o.obj, Obj) and o.obj.cls else []
            after = mro[mro.index(o.cls) + 1:] if o.cls in mro else []
            for c in after:
                if attr in c.methods:
                    return Closure(c.methods[attr], None, bound_self=o.obj)
            if attr == "__init__":
                return Stub("object.__init__", lambda *a, **k: None)
            raise AnalysisError(f"evaluator: super().{attr} not found")
        if isinstance(o, Obj):
            if attr in o.attrs:
                return o.attrs[attr]
            if o.cls is not None:
                got = o.cls.lookup(attr)
                if isinstance(got, Func):
                    decos = got.decorator_names()
                    if "staticmethod" in decos:
                        return Closure(got, None)
                    if "classmethod" in decos:
                        return Closure(got, None, bound_self=self.class_val(o.cls))
                    return Closure(got, None, bound_self=o)
            if attr == "__class__" and o.cls is not None:
                return self.class_val(o.cls)
            if o.cls is not None:
                # a method inherited from a library base class for which the rule supplies an abstract model (e.g. queue.Queue.put
                # for the repo's Queue subclasses, which override only the storage hooks)
                for c_ in o.cls.repo_mro():
                    for b_ in c_.ext_bases():
                        fb = self.ext.get(f"{b_}.{attr}")
                        if fb is not None:
                            return Stub(f"{b_}.{attr}", lambda *a, _fb=fb, _o=o, **k: _fb(_o, *a, **k))
            raise AbsRaise(f"AttributeError: {attr}")
        if isinstance(o, ClassVal):
            got = o.cls.lookup(attr)
            if isinstance(got, Func):
                if "classmethod" in got.decorator_names():
                    return Closure(got, None, bound_self=o)
                return Closure(got, None)
            if attr == "__name__":
                return o.cls.name
            raise AnalysisError(f"evaluator: class attribute {o.cls.name}.{attr}")
        if isinstance(o, tuple) and len(o) == 2 and o[0] == "module":
            if attr in self.stubs:
                return self.stubs[attr]  # a rule's stub applies to `module.name(...)` as it does to `name(...)`
            got = self.m._lookup_scope(o[1], attr)
            if got:
                for g in got:
                    if g[0] == "func":
                        return Closure(g[1], None)
                    if g[0] == "class":
                        return self.class_val(g[1])
                    if g[0] == "ext":
                        fb = self.ext.get(g[1]) or self.higher_order(g[1]) or BUILTINS.get(g[1])
                        if fb is None:
                            lv = _lib_value(g[1])
                            if isinstance(lv, type):
                                return lv
                            fb = lv
                        return Stub(g[1], fb)
            if attr in ("__file__", "__name__"):
                return o[1].path if attr == "__file__" else o[1].name
            raise AnalysisError(f"evaluator: module attribute {attr}")
        if isinstance(o, Stub) and attr in ("__qualname__", "__name__", "__module__"):
            # a stub stands for a (user) function: it has a name and lives in some module outside uberjob
            return "user_module" if attr == "__module__" else o.name
        if isinstance(o, Stub):
            n = f"{o.name}.{attr}"
            fb = self.ext.get(n) or self.higher_order(n) or BUILTINS.get(n)
            if fb is None:
                lv = _lib_value(n)
                if isinstance(lv, type):
                    return lv
                fb = lv
            return Stub(n, fb)
        if isinstance(o, type) and not attr.startswith("__"):
            # methods of plain Python container types (dict.fromkeys, str.join ...)
            try:
                return getattr(o, attr)
            except AttributeError:
                raise AbsRaise(f"AttributeError: {attr}")
        if isinstance(o, (str, bytes)) and not attr.startswith("_") and hasattr(o, attr):
            return getattr(o, attr)  # string methods are pure
        import collections as _cl
        if isinstance(o, list) and attr == "sort":
            def _sort(key=None, reverse=False, _o=o):
                _o.sort(key=(lambda x: self.call(key, [x], {})) if key is not None else None, reverse=reverse)
            return Stub("list.sort", _sort)
        if isinstance(o, (dict, list, set, frozenset, tuple, _cl.deque)) and not attr.startswith("_") and attr not in ("sort",):
            try:
                return getattr(o, attr)
            except AttributeError:
                raise AbsRaise(f"AttributeError: {attr}")
        if isinstance(o, set) and attr in ("add", "update"):
            return getattr(o, attr)
        if o is None:
            raise AbsRaise(f"AttributeError: NoneType.{attr}")
        import pathlib as _pl
        if isinstance(o, _pl.PurePath) and attr in ("with_suffix", "with_name", "with_stem", "name", "suffix", "suffixes", "stem", "parent", "parts",
                                                    "joinpath", "as_posix"):
            return getattr(o, attr)  # pure path arithmetic (no file system access)
        if isinstance(o, str) and attr in ("__context__", "__cause__", "__traceback__", "__suppress_context__", "__notes__"):
            # an abstract exception given only by its name ("KeyError: x"): the chaining attributes it carries are kept beside it
            return getattr(self, "_exc_attrs", {}).get((o, attr), False if attr == "__suppress_context__" else None)
        raise AnalysisError(f"evaluator: attribute {attr} of {o!r} ({norm(node) if node is not None else ''})")


def _unwind(exits, exc):
    """Run the pending context-manager exits innermost first, like the interpreter does: an exit that raises replaces the
    exception in flight, one that returns true swallows it.  -> the exception still in flight (or None)."""
    cur = exc
    while exits:
        x_ = exits.pop()
        try:
            if cur is None:
                x_(None, None, None)
            elif x_("exc", cur.value, cur.value.attrs.get("__traceback__") if isinstance(cur.value, Obj) else None):
                cur = None
        except AbsRaise as e2:
            cur = e2
    return cur


def _load(t):
    import copy
    t2 = copy.copy(t)
    t2.ctx = ast.Load()
    return t2


def _max(*args, default=_SENTINEL, key=None):
    it = list(args[0]) if len(args) == 1 else list(args)
    if not it:
        if default is _SENTINEL:
            raise AbsRaise("ValueError: max() of empty")
        return default
    try:
        return max(it, key=key) if key else max(it)
    except TypeError as e:
        raise AbsRaise(f"TypeError: {e}")


def _min(*args, default=_SENTINEL):
    it = list(args[0]) if len(args) == 1 else list(args)
    if not it:
        if default is _SENTINEL:
            raise AbsRaise("ValueError: min() of empty")
        return default
    return min(it)


_LIB_ALLOWED = {
    "builtins": {"sum", "abs", "divmod", "round", "zip", "iter", "next", "hash", "float", "frozenset", "dict", "bytes", "chr", "ord",
                 "hasattr", "slice", "pow", "bin", "hex", "oct", "format", "ascii", "object", "complex", "bytearray",
                 # exception classes are plain values here (raised as the payload of AbsRaise, compared by isinstance)
                 "Exception", "BaseException", "ValueError", "TypeError", "KeyError", "IndexError", "AttributeError", "OSError", "RuntimeError",
                 "NotImplementedError", "AssertionError", "StopIteration", "KeyboardInterrupt", "SystemExit", "FileNotFoundError",
                 "OverflowError", "ZeroDivisionError", "LookupError", "ArithmeticError", "IOError", "NameError", "RecursionError"},
    "collections": {"deque", "Counter", "OrderedDict", "defaultdict", "ChainMap"},
    "itertools": {"product", "chain", "islice", "count", "repeat", "zip_longest", "accumulate", "permutations", "combinations", "tee", "cycle",
                  "pairwise", "compress"},
    "operator": {"getitem", "add", "sub", "mul", "eq", "ne", "lt", "le", "gt", "ge", "not_", "truth", "is_", "is_not", "contains", "neg",
                 "index", "setitem", "delitem", "concat"},
    "math": {"floor", "ceil", "isnan", "isinf", "sqrt", "inf", "nan"},
    # pure path arithmetic (construction and name manipulation do not touch the file system)
    "pathlib": {"PurePath", "PurePosixPath", "Path", "PosixPath"},
}


def _lib_value(name):
    """Pure functions / containers of the standard library that may be applied natively to the abstract values (they only
    move tokens around).  Anything that touches the outside world is not in the allow-list."""
    mod, _, attr = name.partition(".")
    if "." in attr:
        head_, _, rest = attr.partition(".")
        base = _lib_value(f"{mod}.{head_}")
        return getattr(base, rest, None) if base is not None and "." not in rest else None
    if attr in _LIB_ALLOWED.get(mod, ()):
        import importlib
        try:
            return getattr(importlib.import_module(mod), attr)
        except (ImportError, AttributeError):
            return None
    return None


PYTYPES = {"builtins.list": list, "builtins.tuple": tuple, "builtins.set": set, "builtins.dict": dict,
           "builtins.str": str, "builtins.int": int, "builtins.bool": bool, "builtins.frozenset": frozenset}

BUILTINS = {
    "builtins.any": lambda it: any(bool(x) if not isinstance(x, Obj) else x.truthy for x in it),
    "builtins.all": lambda it: all(bool(x) if not isinstance(x, Obj) else x.truthy for x in it),
    "builtins.max": _max,
    "builtins.min": _min,
    "builtins.len": lambda x: len(x),
    "builtins.list": lambda x=(): list(x),
    "builtins.tuple": lambda x=(): tuple(x),
    "builtins.set": lambda x=(): set(x),
    "builtins.range": lambda *a: range(*a),
    "builtins.bool": lambda x=False: bool(x),
    "builtins.callable": lambda x: isinstance(x, (Closure, Stub, ClassVal)) or callable(x),
    "builtins.id": id,
    "builtins.type": lambda x: (x.attrs.get("__class__") if isinstance(x, Obj) and "__class__" in x.attrs else
                                (Interp.class_val_static(x) if isinstance(x, Obj) else type(x))),
    "builtins.isinstance": None,
    "builtins.enumerate": lambda x, start=0: list(enumerate(x, start)),
    "builtins.reversed": lambda x: list(reversed(x)),
    "builtins.str": lambda x="": str(x),
    "builtins.int": lambda x=0: int(x),
    "builtins.repr": lambda x: repr(x),
}


def _class_val_static(x):
    return x.attrs.get("__pyclass__")


Interp.class_val_static = staticmethod(_class_val_static)
