"""The engine evaluated as a whole: run_function_on_graph is interpreted (absval.Interp - nothing of the repo is imported or run)
on every small directed acyclic *multi*graph, for every set of failing nodes, for max_errors in {0, 1, None}, for the three
schedulers and several worker counts, with the worker threads simulated sequentially.

What is modelled on the checker's side (and therefore trusted):
  threading.Thread(target=f)   start() registers f as a worker; join() lets that worker run until it returns
  queue.Queue                  put / get / task_done / join over the storage hooks _put / _get / _qsize, which the repo's queue classes
                               override and which are interpreted; get() on an empty queue *blocks* (absval.AbsBlocked: the worker's
                               evaluation is abandoned there, no finally suite runs); join() is where the workers run
  threading.Lock               a context manager without effect (one thread of control at a time)
  random.shuffle / randrange   choice points: every choice sequence is explored (depth-first, by re-evaluation)
  the user function            a stub that records the node and raises for the nodes chosen to fail
A worker that blocked is resumed by calling its target again: exact for a worker loop that keeps no state from one item to the next
(checked structurally by the caller: the target's body is one `while` loop).

The simulation is sequential - one worker runs until it blocks, then the next - so it decides what holds for *every schedule of
dequeue order* the queue disciplines allow (all of them for the random scheduler), not the interleavings inside the node callback
(those stay with the lock rules A2 / X3).

Oracle, per evaluation (graph G, failing set F, max_errors, scheduler, workers, choice sequence):
  no-hang      queue.join() returns: the unfinished-task count reaches zero, and never with the queue empty before that; afterwards
               every worker receives a sentinel and returns; every started thread has been joined when the engine returns
  once         the user function is called at most once per node
  order        when it is called for v, it has been called for every predecessor u of v, and u did not fail
  complete     without a stop (no failure budget exceeded) every node whose ancestors all succeed is called
  budget       after the failure that exceeds max_errors no further call starts
  outcome      no failure => returns normally; otherwise raises the carrier for the FIRST failed node, chained to that node's exception
"""
from __future__ import annotations

import collections
import itertools

from ..absval import AbsBlocked, AbsRaise, Interp, Obj, Stub
from ..model import AnalysisError


class Hang(Exception):
    pass


def dags(max_n=3):
    """All multigraphs on n <= max_n nodes with edges i -> j (i < j) of multiplicity 0, 1 or 2, plus a few with 4 nodes."""
    out = []
    for n in range(1, max_n + 1):
        pairs = [(i, j) for i in range(n) for j in range(i + 1, n)]
        for mult in itertools.product((0, 1, 2), repeat=len(pairs)):
            edges = [p for p, k in zip(pairs, mult) for _ in range(k)]
            out.append((n, edges))
    out += [(4, [(0, 1), (0, 2), (1, 3), (2, 3)]), (4, [(0, 1), (1, 2), (2, 3)]), (4, [(0, 3), (1, 3), (2, 3), (2, 3)]),
            (4, [(0, 1), (0, 1), (0, 2), (0, 3), (1, 3)])]
    return out


class EngineEval:
    def __init__(self, m, er, rankers=()):
        self.m, self.er = m, er
        self.rankers = rankers

    # ------------------------------------------------------------------ one evaluation
    def run(self, n, edges, fail=(), max_errors=0, scheduler=None, workers=1, choices=(), interrupt_after=None, start_fails_at=None,
            exc_name="UserError", start_interrupted_at=None):
        from .rewriterules import MG
        m, er = self.m, self.er
        e = er.engine
        st = self.st = type("S", (), {})()
        st.calls, st.events, st.threads, st.choice_log, st.choices = [], [], [], [], list(choices)
        st.interrupted = False
        st.gets = 0
        st.items_left = interrupt_after
        interp = self.interp = Interp(m, budget=400000)
        nodes = self.nodes = [Obj(None, {}, name=f"n{i}") for i in range(n)]
        g = MG(interp)
        for x in nodes:
            g.add_node(x)
        for i, (a_, b_) in enumerate(edges):
            g.add_edge(nodes[a_], nodes[b_], Obj(None, {"index": i}, name=f"k{i}"))
        failing = {nodes[i] for i in fail}

        def fn(node, *a, **k):
            st.calls.append(node)
            st.events.append(("call", node))
            if node in failing:
                raise AbsRaise(Obj(None, {"node": node}, name=exc_name))
        # ---- queue.Queue
        def hook(q, name, *args):
            f = q.cls.lookup(name) if isinstance(q, Obj) and q.cls is not None else None
            if f is not None and not isinstance(f, tuple):
                return interp.call_func(f, None, list(args), {}, bound_self=q)
            d = q.attrs["queue"]
            if name == "_put":
                return d.append(args[0])
            if name == "_get":
                return d.popleft() if hasattr(d, "popleft") else d.pop(0)
            if name == "_qsize":
                return len(d)
            raise AnalysisError(f"engine evaluation: queue hook {name}")

        def q_put(q, item, block=True, timeout=None):
            hook(q, "_put", item)
            q.attrs["unfinished_tasks"] = q.attrs.get("unfinished_tasks", 0) + 1

        def q_get(q, block=True, timeout=None):
            if st.items_left is not None:
                if st.items_left <= 0:
                    raise AbsBlocked()
            if hook(q, "_qsize") == 0:
                raise AbsBlocked()
            if st.items_left is not None:
                st.items_left -= 1
            st.gets += 1
            return hook(q, "_get")

        def q_task_done(q):
            u = q.attrs.get("unfinished_tasks", 0) - 1
            if u < 0:
                raise AbsRaise("ValueError: task_done() called too many times")
            q.attrs["unfinished_tasks"] = u

        def q_join(q):
            self._drive(q, hook)

        def new_queue(maxsize=0):
            q = Obj(None, {"queue": collections.deque(), "unfinished_tasks": 0}, name="Queue")
            for nm, f_ in (("put", q_put), ("get", q_get), ("task_done", q_task_done), ("join", q_join),
                           ("qsize", lambda q_: hook(q_, "_qsize")), ("empty", lambda q_: hook(q_, "_qsize") == 0)):
                q.attrs[nm] = Stub(f"queue.Queue.{nm}", lambda *a, _f=f_, _q=q, **k: _f(_q, *a, **k))
            return q
        # ---- threads
        def new_thread(group=None, target=None, name=None, args=(), kwargs=None, daemon=None):
            t = Obj(None, {"target": target, "args": args, "kwargs": kwargs or {}, "started": False, "exited": False, "joined": False, "ident": None,
                           "daemon": bool(daemon)}, name=f"thread{len(st.threads)}")

            def start():
                if start_fails_at is not None and len([x for x in st.threads if x.attrs["started"]]) == start_fails_at:
                    if start_fails_at > 0:
                        # the workers started so far are already running: let the first one take one item
                        saved, st.items_left = st.items_left, 1
                        self._run_worker([x for x in st.threads if x.attrs["started"]][0])
                        st.items_left = saved
                    st.interrupted = True
                    st.events.append(("interrupt",))
                    raise AbsRaise(Obj(None, {}, name="KeyboardInterrupt"))
                t.attrs["started"] = True
                t.attrs["ident"] = 1000 + len(st.threads)
                st.events.append(("start", t))
                if start_interrupted_at is not None and len([x for x in st.threads if x.attrs["started"]]) - 1 == start_interrupted_at:
                    # the interrupt arrives inside Thread.start(), after the new thread was launched: it is running (let it take an item)
                    saved, st.items_left = st.items_left, 1
                    self._run_worker(t)
                    st.items_left = saved
                    st.interrupted = True
                    st.events.append(("interrupt",))
                    raise AbsRaise(Obj(None, {}, name="KeyboardInterrupt"))

            def join(timeout=None):
                if not t.attrs["started"]:
                    raise AbsRaise("RuntimeError: cannot join thread before it is started")
                # the joiner waits: the worker runs until it returns (it must get a sentinel)
                st.items_left = None
                if not t.attrs["exited"] and not self._run_worker(t):
                    raise Hang(f"{t.name} blocks in queue.get() for ever while it is being joined (no sentinel reaches it): run() never returns")
                t.attrs["joined"] = True
            t.attrs["start"] = Stub("Thread.start", start)
            t.attrs["join"] = Stub("Thread.join", join)
            t.attrs["is_alive"] = Stub("Thread.is_alive", lambda: t.attrs["started"] and not t.attrs["exited"])
            st.threads.append(t)
            return t
        # ---- choice points
        def choose(k):
            if k <= 1:
                return 0
            i = len(st.choice_log)
            c = st.choices[i] if i < len(st.choices) else 0
            st.choice_log.append((k, c))
            return c

        def shuffle(lst):
            for i in range(len(lst) - 1, 0, -1):
                j = choose(i + 1)
                lst[i], lst[j] = lst[j], lst[i]

        def heappop(lst):
            if not lst:
                raise AbsRaise("IndexError: index out of range")
            best = 0
            for i in range(1, len(lst)):
                if self._lt(lst[i], lst[best]):
                    best = i
            return lst.pop(best)
        interp.ext.update({
            "queue.Queue": new_queue, "queue.Queue.put": q_put, "queue.Queue.get": q_get, "queue.Queue.task_done": q_task_done,
            "queue.Queue.join": q_join, "queue.Queue.qsize": lambda q: hook(q, "_qsize"), "queue.Queue.empty": lambda q: hook(q, "_qsize") == 0,
            "queue.Queue.put_nowait": q_put, "queue.Queue.get_nowait": q_get,
            "threading.Thread": new_thread, "threading.Lock": lambda: Obj(None, {}, "lock"), "threading.RLock": lambda: Obj(None, {}, "lock"),
            "random.shuffle": shuffle, "random.randrange": lambda a_, b_=None: choose(a_) if b_ is None else a_ + choose(b_ - a_),
            "random.randint": lambda a_, b_: a_ + choose(b_ - a_ + 1), "random.random": lambda: 0.0,
            "heapq.heapify": lambda lst: None, "heapq.heappush": lambda lst, x: lst.append(x), "heapq.heappop": heappop,
            "os.cpu_count": lambda: 4,
        })
        interp.func_stubs = {f: (lambda graph, *a, _n=nodes, **k: {x: i for i, x in enumerate(_n)}) for f in self.rankers}
        kw = {}
        for p in e.params:
            if p == er.fn_param or p == e.pos_params[0]:
                continue
            if "worker" in p:
                kw[p] = workers
            elif "error" in p:
                kw[p] = max_errors
            elif "sched" in p:
                kw[p] = scheduler
            elif p not in e.defaults:
                raise AnalysisError(f"engine evaluation: parameter `{p}` of {e.qualname} has no abstract value")
        pos = [g if p == e.pos_params[0] else Stub("fn", fn) for p in e.pos_params if p in (e.pos_params[0], er.fn_param)]
        if er.fn_param not in e.pos_params:
            kw[er.fn_param] = Stub("fn", fn)
        outcome = ("returned", None)
        try:
            interp.call_func(e, None, pos, kw)
        except AbsRaise as ex:
            outcome = ("raised", ex.value)
        except AbsBlocked:
            outcome = ("hang", "the calling thread blocks for ever")
        except Hang as h:
            outcome = ("hang", str(h))
        return outcome

    def _lt(self, a_, b_):
        i = self.interp
        return i.truth(i.call(i.getattr(a_, "__lt__"), [b_], {})) if isinstance(a_, Obj) else a_ < b_

    def _run_worker(self, t):
        """Let worker `t` run until it blocks in get() or returns.  -> True if it has exited."""
        st = self.st
        try:
            self.interp.call(t.attrs["target"], list(t.attrs["args"]), dict(t.attrs["kwargs"]))
            t.attrs["exited"] = True
            st.events.append(("exit", t))
        except AbsBlocked:
            pass
        except AbsRaise as ex:
            # an exception that escapes a worker's target ends that thread (threading prints it and goes on)
            t.attrs["exited"] = True
            st.events.append(("died", t, ex.value))
        return t.attrs["exited"]

    def _drive(self, q, hook):
        """queue.join(): the calling thread waits; the workers run (round-robin, each until it blocks) until the unfinished-task count is
        zero.  An interrupt after k items is raised from here."""
        st = self.st
        for _round in range(10000):
            if q.attrs.get("unfinished_tasks", 0) == 0:
                return None
            if st.items_left is not None and st.items_left <= 0 and not st.interrupted:
                st.interrupted = True
                st.events.append(("interrupt",))
                raise AbsRaise(Obj(None, {}, name="KeyboardInterrupt"))
            live = [t for t in st.threads if t.attrs["started"] and not t.attrs["exited"]]
            if not live:
                raise Hang(f"queue.join() never returns: {q.attrs.get('unfinished_tasks')} unfinished task(s) and no live worker")
            if hook(q, "_qsize") == 0:
                raise Hang(f"queue.join() never returns: {q.attrs.get('unfinished_tasks')} unfinished task(s) but the queue is empty and every "
                           f"worker waits in get()")
            progressed = False
            for t in live:
                g0 = st.gets
                self._run_worker(t)
                if st.gets != g0 or t.attrs["exited"]:
                    progressed = True
                if q.attrs.get("unfinished_tasks", 0) == 0:
                    return None
                if st.items_left is not None and st.items_left <= 0:
                    break
            if not progressed:
                raise Hang("queue.join() never returns: no worker makes progress")
        raise Hang("queue.join() did not return within the evaluation bound")

    # ------------------------------------------------------------------ all choice sequences of one configuration
    def explore(self, n, edges, limit=64, **kw):
        """Depth-first enumeration of the choice sequences of one configuration.  Yields (choices, outcome, state)."""
        stack = [()]
        seen = 0
        while stack and seen < limit:
            prefix = stack.pop()
            out = self.run(n, edges, choices=prefix, **kw)
            st = self.st
            seen += 1
            yield prefix, out, st
            log = st.choice_log
            # siblings of the choices made beyond the prefix
            for i in range(len(prefix), len(log)):
                k, c = log[i]
                for alt in range(c + 1, k):
                    stack.append(tuple(x[1] for x in log[:i]) + (alt,))


def judge(n, edges, fail, max_errors, outcome, st, nodes, interrupted=False):
    """-> None or a description of the deviation from the oracle in the module docstring."""
    name = lambda x: getattr(x, "name", repr(x))
    if outcome[0] == "hang":
        return "hang", outcome[1]
    calls = st.calls
    idx = {id(x): i for i, x in enumerate(nodes)}
    seq = [idx[id(c)] for c in calls]
    if len(set(seq)) != len(seq):
        dup = next(x for x in seq if seq.count(x) > 1)
        return "once", f"the function is called {seq.count(dup)} times for n{dup} (call order {seq})"
    preds = {v: sorted({u for (u, w) in edges if w == v}) for v in range(n)}
    pos = {v: i for i, v in enumerate(seq)}
    for v in seq:
        for u in preds[v]:
            if u not in pos or pos[u] > pos[v]:
                return "order", f"n{v} is called before its predecessor n{u} has been called (call order {seq})"
            if u in fail:
                return "containment", f"n{v} is called although its predecessor n{u} failed (call order {seq})"
    # which failure exhausts the budget
    failures = [v for v in seq if v in fail]
    stop_at = None
    if max_errors is not None and len(failures) > max_errors:
        stop_at = pos[failures[max_errors]]
    if stop_at is not None and len(seq) > stop_at + 1:
        return "budget", (f"max_errors={max_errors}: after the failure of n{seq[stop_at]} (failure number {max_errors + 1}) the function is still called "
                f"for {['n%d' % x for x in seq[stop_at + 1:]]}")
    if stop_at is None and not interrupted:
        eligible = set()
        for v in range(n):  # nodes are numbered in a topological order
            if all(u in eligible and u not in fail for u in preds[v]):
                eligible.add(v)
        missing = sorted(eligible - set(seq))
        if missing:
            return "complete", f"the function is never called for {['n%d' % x for x in missing]} although all their ancestors succeeded (call order {seq})"
    unjoined = [t.name for t in st.threads if t.attrs["started"] and not (t.attrs["joined"] and t.attrs["exited"])]
    if unjoined:
        return "joined", f"the engine returns while {unjoined} have not been joined / have not exited"
    if interrupted:
        if outcome[0] != "raised" or getattr(outcome[1], "name", None) != "KeyboardInterrupt":
            return "interrupt-propagates", f"KeyboardInterrupt on the calling thread does not come out of the engine (outcome: {outcome[0]} {name(outcome[1]) if outcome[1] is not None else ''})"
        after = False
        late = []
        for ev in st.events:
            if ev[0] == "interrupt":
                after = True
            elif after and ev[0] == "call":
                late.append(name(ev[1]))
        if late:
            return "interrupt-stops", f"after the interrupt the function is still called for {late}"
        return None
    if not failures:
        if outcome[0] != "returned":
            return "outcome", f"no call failed but the engine raises {name(outcome[1])}"
        return None
    if outcome[0] != "raised":
        return "outcome", f"n{failures[0]} failed but the engine returns normally"
    err = outcome[1]
    node = err.attrs.get("node") if isinstance(err, Obj) else None
    if node is None or idx.get(id(node)) != failures[0]:
        return "outcome", (f"the engine raises {name(err)} for {name(node) if node is not None else 'no node'}; the first failure was n{failures[0]} "
                f"(call order {seq}, failing {sorted(fail)})")
    cause = err.attrs.get("__cause__") if isinstance(err, Obj) else None
    if not (isinstance(cause, Obj) and cause.name in ("UserError", "SystemExit") and cause.attrs.get("node") is node):
        return "cause", f"the error raised for n{failures[0]} is not chained to the exception that call raised (cause: {name(cause) if cause is not None else None})"
    return None


# ---------------------------------------------------------------------------------------------------- the rule
ASPECT_TEXT = {
    "hang": "run() returns or raises: queue.join() returns, every worker receives a sentinel and exits",
    "joined": "every thread the engine started has been joined and has exited when it returns",
    "once": "the function is called at most once per node",
    "order": "a node is called only after each of its predecessors has been called",
    "containment": "a node is never called when one of its predecessors failed",
    "complete": "without a stop every node whose ancestors all succeed is called",
    "budget": "after the failure that exceeds max_errors no further call starts",
    "outcome": "no failure: normal return; otherwise the carrier of the FIRST failed node is raised",
    "cause": "the raised carrier is chained to the exception the first failed call raised",
    "workers": "exactly worker_count threads are started",
    "interrupt-propagates": "KeyboardInterrupt on the calling thread comes out of the engine (also when failures were recorded)",
    "interrupt-stops": "after the interrupt no further call starts",
}
_FORK = [None]


def _configs():
    """(kind, n, edges, fail, max_errors, scheduler, workers, extra)"""
    out = []
    for n, edges in [g for g in dags(3) if g[0] <= 3]:
        subsets = [tuple(s) for k in range(n + 1) for s in itertools.combinations(range(n), k)]
        for fail in subsets:
            for me in (0, 1, None):
                if not fail and me == 1:
                    continue
                for sched, w in ((None, 1), ("default", 3), ("cheap", 2), ("random", 2)):
                    out.append(("run", n, edges, fail, me, sched, w, None))
                if fail and me != 1:
                    # the failing calls raise a BaseException that is not an Exception (SystemExit, KeyboardInterrupt in a worker ...)
                    for sched, w in ((None, 2), ("cheap", 1)):
                        out.append(("run-base", n, edges, fail, me, sched, w, None))
    four = [g for g in dags(3) if g[0] == 4]
    for n, edges in four:
        for fail in ((), (0,), (1,), (3,), (1, 2)):
            for me in (0, 1, None):
                for sched, w in ((None, 2), ("cheap", 5), ("random", 2)):
                    out.append(("run", n, edges, fail, me, sched, w, None))
    multi = [g for g in dags(3) if g[0] >= 2]
    for n, edges in multi:
        for k in (1, 2):
            if k >= n:
                continue
            for sched in (None, "cheap", "random"):
                for fail, me in (((), 0), ((0,), None), ((0,), 1)):
                    out.append(("interrupt", n, edges, fail, me, sched, 2, k))
        for at in (0, 1, 2):
            for sched in (None, "cheap", "random"):
                out.append(("startup", n, edges, (), 0, sched, 3, at))
                # ... and with the interrupt delivered inside Thread.start() after the thread was launched
                out.append(("startup-late", n, edges, (), 0, sched, 3, at))
    return out


def _eval_chunk(chunk):
    ee = _FORK[0]
    bad, n_eval = [], 0
    try:
        for kind, n, edges, fail, me, sched, w, extra in chunk:
            late = False
            kw = dict(fail=fail, max_errors=me, scheduler=sched, workers=w)
            if kind == "interrupt":
                kw["interrupt_after"] = extra
            elif kind == "startup":
                kw["start_fails_at"] = extra
            elif kind == "startup-late":
                kw["start_interrupted_at"] = extra
                kind = "startup"
                late = True
            elif kind == "run-base":
                kw["exc_name"] = "SystemExit"
                kind = "run"
            for prefix, outcome, st in ee.explore(n, edges, limit=(24 if sched == "random" else 1), **kw):
                n_eval += 1
                interrupted = st.interrupted
                if kind != "run" and not interrupted:
                    continue  # the run ended before the interrupt point: an ordinary run, judged in its own configuration
                dev = judge(n, edges, set(fail), me, outcome, st, ee.nodes, interrupted=interrupted)
                if dev is None and kind == "run":
                    started = len([t for t in st.threads if t.attrs["started"]])
                    if started != w:
                        dev = ("workers", f"worker_count={w} but {started} thread(s) are started")
                if dev is not None:
                    bad.append((kind, dev[0], f"graph with {n} node(s), edges {edges}, failing {sorted(fail)}, max_errors={me}, scheduler={sched!r}, "
                                f"{w} worker(s)" + (f", interrupt after {extra} item(s)" if kind == "interrupt" else
                                                    (f", interrupt inside Thread.start() of worker {extra}, after the thread was launched" if late else
                                                     f", interrupt / failing start at worker {extra}") if kind == "startup" else "")
                                + (", failing calls raise SystemExit (a BaseException)" if kw.get("exc_name") == "SystemExit" else "")
                                + (f", choices {list(prefix)}" if prefix else "") + f": {dev[1]}"))
    except AnalysisError as e:
        return bad, n_eval, str(e)
    except AbsRaise as e:
        return bad, n_eval, f"abstract evaluation of the engine raised {e.value!r}"
    return bad, n_eval, None


def evaluate_engine(m, er, rankers):
    """All configurations, on forked workers (the model is shared copy-on-write).  Cached on the model."""
    cached = getattr(m, "_engine_eval", None)
    if cached is not None:
        return cached
    import multiprocessing as mp
    import os
    ee = EngineEval(m, er, rankers)
    cfgs = _configs()
    if not rankers:
        # the node ranking of the default scheduler was not identified (restructured engine): the other two schedulers only
        cfgs = [c for c in cfgs if c[5] in ("cheap", "random")]
    _FORK[0] = ee
    nproc = max(1, min(12, (os.cpu_count() or 2) - 2))
    if os.environ.get("UBCHECK_EVAL_PROCS"):
        nproc = max(1, int(os.environ["UBCHECK_EVAL_PROCS"]))  # the development harnesses run many checks side by side
    chunks = [cfgs[i::nproc * 3] for i in range(nproc * 3)]
    try:
        if nproc > 1 and not mp.current_process().daemon:
            with mp.get_context("fork").Pool(nproc) as pool:
                res = pool.map(_eval_chunk, chunks)
        else:
            res = [_eval_chunk(c[::5]) for c in chunks[::4]]  # inside a daemon worker (mutation tier): a twentieth of the space
    finally:
        _FORK[0] = None
    bad = [b for r, _n, _e in res for b in r]
    n_eval = sum(n for _r, n, _e in res)
    errs = [e for _r, _n, e in res if e]
    bad.sort(key=lambda b: (len(b[2]), b[2]))
    m._engine_eval = (len(cfgs), n_eval, bad, errs[0] if errs else None)
    return m._engine_eval


def minimal_roles(m):
    """What the evaluation needs when the full role discovery of engine.py does not recognise a restructured engine: the engine
    function and its callable parameter (second positional)."""
    from .engine import Roles
    r = Roles()
    r.engine = m.one_func("run_function_on_graph", "ENGINE")
    if len(r.engine.pos_params) < 2:
        raise AnalysisError("engine: expected (graph, fn, ...) positional parameters")
    r.fn_param = r.engine.pos_params[1]
    return r


def rankers_of(m, er):
    """The node-ranking functions of the default scheduler (replaced by the ranks 0, 1, 2 ... in the evaluation, as in rule F4)."""
    from ..astq import is_name
    qf = getattr(er, "queue_factory", None)
    if qf is None:
        return set()
    gp = qf.pos_params[0]
    out = set()
    for c in qf.own_calls():
        if any(is_name(a_, gp) for a_ in c.args):
            out |= {f for f in m.callee_funcs(qf, c) if f.module is not qf.module and f.cls is None}
    return out


def rule_engine_evaluated(ctx, rid, er, aspects, kinds=("run",)):
    from ..astq import loc
    m = ctx.model
    if er is None:
        from . import engine as E_
        try:
            er = E_.discover(m)
        except AnalysisError:
            er = minimal_roles(m)
    e = er.engine
    n_cfg, n_eval, bad, err = evaluate_engine(m, er, rankers_of(m, er))
    if "startup" in kinds:
        ctx.trust("model of threading.Thread in the engine evaluation: a thread has its `ident` from the moment it is launched; the window of "
                  "CPython in which start() was interrupted after the OS thread was launched but before that thread set its ident is not modelled")
    mine = [b for b in bad if b[0] in kinds and b[1] in aspects]
    if err and not mine:
        raise AnalysisError(f"engine evaluation: {err}")
    for a in aspects:
        for k in kinds:
            if a.startswith("interrupt") and k == "run":
                continue
            if k != "run" and a not in ("hang", "joined", "interrupt-propagates", "interrupt-stops", "once", "order"):
                continue
            devs = [b for b in mine if b[1] == a and b[0] == k]
            ok = not devs
            where = {"run": "", "interrupt": " with KeyboardInterrupt raised out of queue.join()", "startup": " with KeyboardInterrupt / a failing Thread.start while the workers are being started"}[k]
            ctx.ob(rid, f"{e.short}/evaluated[{a}{'' if k == 'run' else ',' + k}]", ok, loc(e),
                   f"{ASPECT_TEXT[a]} - on all {n_eval} evaluations of the engine{where} (small multigraphs x failing sets x max_errors x schedulers x worker counts; "
                   f"every dequeue order of the random scheduler)" if ok else f"{ASPECT_TEXT[a]} - violated{where}: " + " | ".join(d[2] for d in devs[:2])
                   + (f" (+{len(devs) - 2} more)" if len(devs) > 2 else ""))
    ctx.floor(rid, "evaluations of the engine", n_eval, 100 if getattr(__import__("multiprocessing").current_process(), "daemon", False) else 2000)
    ctx.notes["engine_evaluations"] = n_eval
