"""C09 - rebuilt stored values are written, then read back, before downstream use (W, W', W'')."""
from . import engine as E
from . import runrules as R
from . import rewriterules as W
from . import stalerules as S


def check(ctx):
    ctx.rule("C09.W", "edge-effect table of the per-entry rewriting on the generic neighbourhood (every edge class, predecessors, parallel edges) for fresh/stale x call/source equals the required table; ordering constraints on all two-entry chains in both registration orders")
    ctx.rule("C09.W0", "staleness propagates to everything downstream of a rebuilt value (decision table, shared with C03.T1)")
    ctx.rule("C09.W1", "the out-edge snapshot is read from the current graph inside the per-entry rewriting, before any mutation")
    ctx.rule("C09.W2", "a registered output is redirected to its read node before pruning and in the pair returned to run; run executes that pair")
    ctx.rule("C09.W4", "a failed write (or call) never releases its read node / consumers: no successor enqueue after a failure")
    ctx.rule("C09.W3", "literal pruning (barriers) bridges the full product of current neighbours before removal")
    ctx.assume("what a store's read returns is user code; run-time ordering then follows from C01")
    from .extra import rule_plan_records_dependencies
    # (a dependent source is ordered after what it was declared to depend on only if every declared dependency is recorded)
    ctx.run(rule_plan_records_dependencies, "C09.W1")
    from .engineeval import rule_engine_evaluated
    ctx.run(rule_engine_evaluated, "C09.W1", None, ("order", "containment"))
    er = E.discover(ctx.model)
    rr = R.discover(ctx.model, er)
    ctx.run(S.rule_stale_table, "C09.W0", rr)
    ctx.run(W.rule_edge_effect_table, "C09.W", rr)
    ctx.run(W.rule_two_entry_chains, "C09.W", rr)
    ctx.run(W.rule_snapshot_before_mutation, "C09.W1", rr)
    ctx.run(R.rule_run_uses_returned_pair, "C09.W2", rr)
    from .prunerules import rule_pruning_evaluated as _rpe
    ctx.run(_rpe, "C09.W3", rr)
    ctx.run(E.rule_enqueue_after_success, "C09.W4", er)
    ctx.run(E.rule_catch_all, "C09.W4", er)
    ctx.run(S.rule_stale_check_sees_stored_nodes, "C09.W0", rr)
    ctx.run(E.rule_callbacks_only_via_engine, "C09.W4", er, [rr.runcb, rr.stalecb])
