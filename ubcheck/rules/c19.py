"""C19 - a failure is attributed to the user line that created the failing symbolic call (S1-S5)."""
from __future__ import annotations

import ast

from ..absval import AbsRaise, ClassVal, Closure, Env, Interp, Native, Obj, Stub
from ..astq import arg, ext_names, inside, is_name, loc, names_in, stmt_of
from ..model import AnalysisError, Func, head, norm
from . import roles
from . import engine as E
from . import rewriterules as W
from . import runrules as R


def frame_chain(n):
    """Stub frames F0 (get_stack_frame itself) <- F1 (API method) <- F2 (user line) <- F3 ..."""
    prev = None
    frames = []
    for i in reversed(range(n)):
        f = Obj(None, {"f_back": prev, "f_lineno": 100 + i,
                       "f_code": Obj(None, {"co_name": f"F{i}", "co_filename": f"/user/f{i}.py"})}, name=f"F{i}")
        prev = f
        frames.append(f)
    return prev  # F0


def chain_names(interp, sf):
    out = []
    k = 0
    while sf is not None and k < 50:
        if isinstance(sf, Obj) and sf.cls is not None and sf.cls.name == "StackFrame":
            out.append((sf.attrs.get("name"), sf.attrs.get("path"), sf.attrs.get("line")))
            sf = sf.attrs.get("outer")
        else:
            out.append("TRUNCATED" if isinstance(sf, Obj) else repr(sf))
            break
        k += 1
    return out


def rule_translation_needs_call(ctx, rid, rr):
    """run translates the engine's carrier as CallError(e.node), and CallError reads .fn / .stack_frame of a Call.  Every
    user-reaching operation that the callbacks perform for a node must therefore be performed for Call nodes only -
    or the translation must be guarded.  (A registered Literal is examined by the stale check like any other node.)"""
    m = ctx.model
    run = rr.run
    unguarded = []
    for h in [n for n in run.own_nodes() if isinstance(n, ast.ExceptHandler) and h_names(n) & {"NodeError"}]:
        for c in [x for x in ast.walk(h) if isinstance(x, ast.Call) and norm(x.func) == "CallError"]:
            conds = E.path_condition(run.module, stmt_of(run.module, c), h)
            if not any("Call" in norm(t) for t, pol in conds):
                unguarded.append(c)
    if not unguarded:
        ctx.ob(rid, "RUN/translation-needs-call", True, loc(run), "the translation to CallError is guarded by a Call test")
        return
    # can a non-Call node reach a store query in the stale callback?
    cb = rr.stalecb
    reach_q = set()
    for f in m.funcs.values():
        if any(isinstance(n, ast.Attribute) and n.attr == "get_modified_time" for n in f.own_nodes()):
            reach_q.add(f)
    bad = None
    for t in [n for n in cb.own_nodes() if isinstance(n, ast.If)]:
        tt, pol = E._positive(t.test, True)
        if norm(tt) == f"type({cb.pos_params[0]}) is Call":
            other = t.orelse if pol else t.body
            for st in other:
                for x in ast.walk(st):
                    if isinstance(x, ast.Attribute) and x.attr == "get_modified_time":
                        bad = x
                    if isinstance(x, ast.Call) and x in cb.own_calls():
                        if m.reachable(list(m.callee_funcs(cb, x)), kinds=("call",)) & reach_q or m.callee_funcs(cb, x) & reach_q:
                            bad = x
    ctx.ob(rid, "RUN/translation-needs-call", bad is None, loc(cb, bad) if bad is not None else loc(run),
           "only Call nodes reach user code in the callbacks, so the carrier always names a Call" if bad is None else
           "the stale check queries the store of a node that is not a Call (a registered Literal) outside the Call-only error "
           "wrapper: when that query fails the engine's carrier names the Literal, and run's `CallError(e.node)` raises "
           "AttributeError ('Literal' object has no attribute 'fn') instead of reporting the failure", "")


def h_names(h):
    from ..astq import handler_classes
    return set(handler_classes(h))


def check(ctx):
    m = ctx.model
    ctx.rule("C19.S1", "capture sites: get_stack_frame() is called in the own scope of public Plan/Registry methods (no nested scope, no decorator adding a frame), with the default depth; get_stack_frame performs exactly that many f_back hops unconditionally, builds every frame from the live frame objects and keeps no state between calls (evaluated on stub frame chains of 3..10 frames)")
    ctx.rule("C19.S2", "every Call(...) takes stack_frame from its creator's frame parameter; every _call site passes the frame captured in the same API method, its own frame parameter, or the registry entry's frame")
    ctx.rule("C19.S3", "Registry.add / Registry.source store the captured frame in the entry; the transformation's read/write calls carry the entry's frame")
    ctx.rule("C19.S4", "the raised error names the node being processed (cause chain rules of C06.X4)")
    ctx.rule("C19.S5", "depth limit: at most MAX_TRACEBACK_DEPTH+1 frames then the truncation marker; rendering lists frames outermost first (evaluated)")
    ctx.assume("line numbers themselves are CPython's; the IPython path filter is not examined")
    gsf = m.one_func("get_stack_frame", "CAPTURE")
    # ---------------------------------------------------------------- S1 capture sites
    sites = []
    for f in m.funcs.values():
        for c in f.own_calls():
            if gsf in m.callee_funcs(f, c):
                sites.append((f, c))
    ctx.floor("C19.S1", "get_stack_frame call sites", len(sites), 5)
    exported = {"Plan", "Registry"}
    for f, c in sites:
        mod = f.module
        okm = f.cls is not None and f.cls.name in exported and not f.name.startswith("_") and f.parent is None
        # ... or in the exported function uberjob.run (which creates the gather calls of its `output` argument for its caller)
        okm = okm or (f.cls is None and f.parent is None and f.qualname in m.api_funcs and not f.name.startswith("_"))
        ctx.ob("C19.S1", f"{f.short}/in-api-method", okm, loc(f, c),
               "captured in a public API method / function (hop 1 = it, hop 2 = the user's line)" if okm else
               "the frame is captured in an internal helper / nested function: the traceback starts inside uberjob", norm(c))
        nested = any(isinstance(p, (ast.ListComp, ast.SetComp, ast.DictComp, ast.GeneratorExp, ast.Lambda)) for p in _anc(mod, c))
        ctx.ob("C19.S1", f"{f.short}/own-scope", not nested, loc(f, c),
               "captured in the method's own scope" if not nested else
               "captured inside a comprehension/generator/lambda (adds a frame on Python <= 3.11)", norm(c))
        decos = [d for d in f.decorator_names() if d not in ("contextmanager",)]
        ctx.ob("C19.S1", f"{f.short}/undecorated", not decos, loc(f), "no frame-adding decorator" if not decos else f"decorated with @{decos[0]} (adds a wrapper frame)")
        okd = not c.args and not c.keywords
        ctx.ob("C19.S1", f"{f.short}/default-depth", okd, loc(f, c), "default depth" if okd else f"non-default depth in `{norm(c)}`", norm(c))
    d = gsf.defaults.get(gsf.pos_params[0]) if gsf.pos_params else None
    okd = d is not None and isinstance(d, ast.Constant) and d.value == 2
    ctx.ob("C19.S1", f"{gsf.short}/default-is-2", okd, loc(gsf), "initial_depth defaults to 2" if okd else "initial_depth default is not 2")
    # structural: only an unconditional range loop hops frames before the recursion; no module state written
    structural_ok = True
    # which frames are skipped / kept may depend on how many there are (depth counters, `frame is None`), never on what a
    # frame contains (file name, function name, globals): the hop count and the chain itself are then decided by the
    # evaluation on stub frame chains below
    CONTENT = {"f_code", "co_filename", "co_name", "f_globals", "f_locals", "f_lineno", "__name__", "__file__"}
    for f_ in [gsf] + gsf.all_nested():
        for n in f_.own_nodes():
            if isinstance(n, (ast.While, ast.If, ast.IfExp)):
                used = {x.attr for x in ast.walk(n.test) if isinstance(x, ast.Attribute)} | {x.id for x in ast.walk(n.test) if isinstance(x, ast.Name)}
                if used & CONTENT:
                    structural_ok = False
                    ctx.ob("C19.S1", f"{gsf.short}/unconditional-hops", False, loc(f_, n),
                           "frames are skipped conditionally (while-loop on frame attributes): which line is reported depends on file "
                           "names/locations of the user's code", head(n) if not isinstance(n, ast.IfExp) else norm(n)[:80])
    state_writes = []
    for f in [gsf] + gsf.all_nested():
        if f.globals_:
            state_writes.append((f, f.node, f"global {sorted(f.globals_)}"))
        for n in f.own_nodes():
            tgs = n.targets if isinstance(n, ast.Assign) else [n.target] if isinstance(n, ast.AugAssign) else []
            for t in tgs:
                if isinstance(t, ast.Subscript) and isinstance(t.value, ast.Name) and not isinstance(m.binding_scope(f, t.value.id), Func):
                    state_writes.append((f, n, norm(n)))
                if isinstance(t, ast.Attribute) and isinstance(t.value, ast.Name) and not isinstance(m.binding_scope(f, t.value.id), Func):
                    state_writes.append((f, n, norm(n)))
            if isinstance(n, ast.Call) and isinstance(n.func, ast.Attribute) and n.func.attr in ("setdefault", "update", "append", "add", "__setitem__") \
                    and isinstance(n.func.value, ast.Name) and not isinstance(m.binding_scope(f, n.func.value.id), Func):
                state_writes.append((f, n, norm(n)))
        if set(f.decorator_names()) & {"lru_cache", "cache"}:
            state_writes.append((f, f.node, "memoised"))
    for f, n, txt in state_writes:
        structural_ok = False
        ctx.ob("C19.S1", f"{gsf.short}/stateless", False, loc(f, n),
               "frame information is kept between calls (module-level state / memoisation): f_lineno of an enclosing frame "
               "advances, so reused frames report stale lines", txt[:100])
    if not state_writes:
        ctx.ob("C19.S1", f"{gsf.short}/stateless", True, loc(gsf), "no state is kept between captures")
    # ---------------------------------------------------------------- S1/S5 evaluated on stub frame chains
    if structural_ok:
        sfc = m.one_class("StackFrame", "S5")
        limit = None
        for kind, e, p_ in gsf.module.bindings.get("MAX_TRACEBACK_DEPTH", []):
            if kind == "assign" and isinstance(e, ast.Constant):
                limit = e.value
        if limit is None:
            raise AnalysisError("MAX_TRACEBACK_DEPTH constant not found")
        rend = render_role(m, gsf)
        n_eval = 0
        for nframes in (3, 4, 5, 6, 7, 10):
            f0 = frame_chain(nframes)
            def _getframe(depth=0, f0=f0):
                fr = f0
                for _ in range(depth):
                    fr = fr.attrs.get("f_back") if isinstance(fr, Obj) else None
                    if fr is None:
                        raise AbsRaise("ValueError: call stack is not deep enough")
                return fr
            interp = Interp(m, ext={"inspect.currentframe": lambda f0=f0: f0, "sys._getframe": _getframe})
            try:
                sf = interp.call_func(gsf, None, [], {})
            except AbsRaise as e:
                raise AnalysisError(f"C19: evaluating get_stack_frame raised {e.value!r}")
            names = chain_names(interp, sf)
            avail = nframes - 2  # frames from the user's line outward
            want = [(f"F{i}", f"/user/f{i}.py", 100 + i) for i in range(2, 2 + min(avail, limit + 1))]
            if avail > limit + 1:
                want.append("TRUNCATED")
            n_eval += 1
            ok = names == want
            ctx.ob("C19.S5" if nframes > 3 else "C19.S1", f"{gsf.short}/chain[{nframes} frames]", ok, loc(gsf),
                   f"chain starts at the user's frame F2 and lists {len(want)} entries" + (" ending with the truncation marker" if "TRUNCATED" in want else "")
                   if ok else f"captured chain {names} differs from the required {want}", f"{nframes} frames")
            # rendering: outermost first
            try:
                text = interp.call_func(rend, None, [sf], {})
            except AbsRaise as e:
                raise AnalysisError(f"C19: evaluating the renderer raised {e.value!r}")
            lines = [l_ for l_ in str(text).split("\n")[1:]]
            wantl = []
            for w in reversed(want):
                wantl.append("  ... truncated" if w == "TRUNCATED" else f'  File "{w[1]}", line {w[2]}, in {w[0]}')
            okr = lines == wantl and str(text).split("\n")[0].startswith("Symbolic traceback")
            ctx.ob("C19.S5", f"{rend.short}/render[{nframes} frames]", okr, loc(rend),
                   "rendered outermost first (truncation marker first), innermost = the creating line last" if okr else
                   f"rendered lines {lines} differ from {wantl}", f"{nframes} frames")
        ctx.notes["frame_chains_evaluated"] = n_eval
    # ---------------------------------------------------------------- S2
    callc = m.one_class("Call", "S2")
    n_ctor = 0
    for f in m.funcs.values():
        if f.module.name.startswith("uberjob._testing"):
            continue
        for c in f.own_calls():
            if any(o[0] == "class" and o[1] is callc for o in m.callee_origins(f, c)):
                n_ctor += 1
                sfarg = arg(c, None, "stack_frame")
                ok = sfarg is not None and ((isinstance(sfarg, ast.Name) and sfarg.id in f.params) or
                                            (isinstance(sfarg, ast.Attribute) and isinstance(sfarg.value, ast.Name) and f.pos_params
                                             and sfarg.value.id == f.pos_params[0] and f.cls is not None))
                why_ = "Call(...) is constructed without the frame handed to its creator"
                if ok and isinstance(sfarg, ast.Attribute):
                    # a frame kept on the creating object is that object's for life: set by its constructor only.  An attribute that
                    # other methods rebind is a parking place shared by every thread building on the object - between one thread's
                    # "set the call site" and its construction of the call another thread's capture can take its place
                    setters = sorted({g.qualname for g in m.funcs.values() if g.cls is f.cls and g.name not in ("__init__", "__post_init__")
                                      for n_ in g.own_nodes() if isinstance(n_, (ast.Assign, ast.AugAssign, ast.AnnAssign))
                                      for t_ in (n_.targets if isinstance(n_, ast.Assign) else [n_.target])
                                      for x_ in ast.walk(t_) if isinstance(x_, ast.Attribute) and x_.attr == sfarg.attr
                                      and isinstance(x_.ctx, ast.Store)})
                    if setters:
                        ok = False
                        why_ = (f"the frame of the created call is read from `{norm(sfarg)}`, which {setters[0]} rebinds: a captured frame parked in "
                                f"state shared by all users of the object can be replaced by another thread's capture before the call is constructed "
                                f"(the failure is then attributed to the wrong line)")
                if ok and isinstance(sfarg, ast.Name):
                    # ... the very object handed in: no rebinding of the parameter reaches the construction (an interned / rebuilt /
                    # looked-up frame is another capture's chain)
                    from ..cfg import CFG as _CFG, value_sources as _vs
                    leaves = _vs(f, _CFG(f), sfarg.id, c, f.module)
                    if leaves != {("param", sfarg.id)}:
                        ok = False
                        other = sorted(norm(l_[1])[:60] if l_[0] in ("expr", "elem") and hasattr(l_[1], "lineno") else str(l_[0]) for l_ in leaves if l_ != ("param", sfarg.id))
                        why_ = (f"the frame parameter `{sfarg.id}` is rebound before the construction (value may come from {other}): the call can "
                                f"carry another capture's chain instead of the one taken at the user's line")
                ctx.ob("C19.S2", f"{f.short}/Call-frame", ok, loc(f, c), "Call(...) receives its creator's frame parameter, unmodified" if ok else
                       why_, norm(c)[:100])
    ctx.floor("C19.S2", "Call constructions", n_ctor, 1)
    pcall = roles.call_ctor(m)
    # which frame the created calls carry: evaluated through the public methods (one capture, shared by every created call)
    from .evalrules import rule_frames_of_created_calls
    er_ = E.discover(m)
    ctx.run(rule_frames_of_created_calls, "C19.S2", R.discover(m, er_))
    ctx.run(rule_frame_chains_compared_whole, "C19.S2")
    # ---------------------------------------------------------------- S3
    ctx.run(rule_registry_frames, "C19.S3", R.discover(m, er_))
    from .extra import rule_capture_method_callers
    ctx.run(rule_capture_method_callers, "C19.S1")
    er = E.discover(m)
    rr = R.discover(m, er)
    ctx.run(E.rule_first_error, "C19.S4", er)
    ctx.run(W.rule_edge_effect_table, "C19.S3x", rr, rid_frames="C19.S3")
    ctx.obligations[:] = [o for o in ctx.obligations if o["rule"] != "C19.S3x"]
    # ---------------------------------------------------------------- S4
    ctx.run(R.rule_cause_chain, "C19.S4", rr)
    ctx.run(rule_translation_needs_call, "C19.S4", rr)
    ce = m.one_class("CallError", "S4")
    init = ce.methods["__init__"]
    rend_ = render_role(m, gsf)
    cp_ = init.pos_params[1] if len(init.pos_params) > 1 else "call"
    ok = any(rend_ in m.callee_funcs(init, n) and n.args and norm(n.args[0]) == f"{cp_}.stack_frame" for n in init.own_calls()) and \
        any(isinstance(n, ast.Assign) and norm(n.targets[0]) == f"{init.pos_params[0]}.call" and norm(n.value) == cp_ for n in init.own_nodes())
    ctx.ob("C19.S4", "CallError/renders-call-frame", ok, loc(init), "CallError keeps the call and renders its stack frame" if ok else
           "CallError does not render the failing call's own stack frame")


def rule_registry_frames(ctx, rid, rr):
    """Registry.add / Registry.source / Registry.copy, evaluated on an abstract plan with the frame capture stubbed by a counter:
    add captures once and the entry keeps that frame; source captures once and both the created node and its entry carry that
    frame; copied entries keep frame, store and source flag.  Independent of helpers the methods share."""
    from ..absval import AbsRaise, Obj, Stub
    from .rewriterules import World
    from copy import copy as _pycopy
    m = ctx.model
    regc = m.one_class("Registry", "S3")
    w = World(m, rr)
    count = [0]

    def gsf_stub(*a):
        count[0] += 1
        return roles.frame_token(m, f"F#{count[0]}")
    w.interp.stubs["get_stack_frame"] = Stub("get_stack_frame", gsf_stub)
    for nm in ("assert_is_instance", "assert_is_callable", "assert_can_bind"):
        w.interp.stubs[nm] = Stub(nm, lambda *a, **k: None)
    w.interp.ext["copy.copy"] = lambda o: Obj(o.cls, dict(o.attrs), name=o.name) if isinstance(o, Obj) else _pycopy(o)
    reg = Obj(regc, {}, name="registry")
    init = regc.lookup("__init__")
    try:
        if init is not None and not isinstance(init, tuple):
            w.interp.call_func(init, None, [], {}, bound_self=reg)
        x = w.call("x")
        vs_ = m.one_class("ValueStore", "S3")  # public API: the stores are instances of it, so the methods' own validation passes
        store1 = Obj(vs_, {}, name="store1", truthy=False)
        store2 = Obj(vs_, {}, name="store2", truthy=False)
        w.interp.call(w.interp.getattr(reg, "add"), [x, store1], {})
        n_add = count[0]
        ent = reg.attrs.get("mapping", {}).get(x)
        ok = n_add == 1 and isinstance(ent, Obj) and roles.is_frame_token(ent.attrs.get("stack_frame"), "F#1") and ent.attrs.get("value_store") is store1 \
            and ent.attrs.get("is_source") is False
        ctx.ob(rid, "Registry.add/entry-frame", ok, loc(regc.methods["add"]),
               "evaluated: add captures the frame once and the entry stores it (with the store, not a source)" if ok else
               f"evaluated: registry.add captured {n_add} frame(s) and stored the entry {ent.attrs if isinstance(ent, Obj) else ent!r}: a failed "
               f"store write is not attributed to the registry.add line")
        node = w.interp.call(w.interp.getattr(reg, "source"), [w.plan, store2], {})
        ent2 = reg.attrs.get("mapping", {}).get(node) if isinstance(node, Obj) else None
        ok = count[0] == n_add + 1 and isinstance(node, Obj) and roles.is_frame_token(node.attrs.get("stack_frame"), f"F#{count[0]}") and isinstance(ent2, Obj) \
            and roles.is_frame_token(ent2.attrs.get("stack_frame"), f"F#{count[0]}") and ent2.attrs.get("is_source") is True and ent2.attrs.get("value_store") is store2
        ctx.ob(rid, "Registry.source/one-frame", ok, loc(regc.methods["source"]),
               "evaluated: source captures the frame once; the created node and its entry carry it" if ok else
               "evaluated: Registry.source does not give the source node and its entry the one frame captured at the registry.source line")
        cp = w.interp.call(w.interp.getattr(reg, "copy"), [], {})
        mp = cp.attrs.get("mapping", {}) if isinstance(cp, Obj) else {}
        ok = isinstance(cp, Obj) and cp is not reg and mp is not reg.attrs.get("mapping") and set(map(id, mp)) == set(map(id, reg.attrs["mapping"])) and all(
            isinstance(mp[k], Obj) and mp[k] is not reg.attrs["mapping"][k] and all(mp[k].attrs.get(a_) == reg.attrs["mapping"][k].attrs.get(a_) or
                                                                                   mp[k].attrs.get(a_) is reg.attrs["mapping"][k].attrs.get(a_)
                                                                                   for a_ in ("stack_frame", "value_store", "is_source")) for k in mp)
        ctx.ob(rid, "Registry.copy/keeps-frames", ok, loc(regc.methods["copy"]),
               "evaluated: copied entries are new objects that keep stack frame, store and source flag" if ok else
               "evaluated: Registry.copy does not produce independent entries with the original stack frames: failures of store calls planned "
               "from a copied registry are attributed to another line (or the copy shares entries with the original)")
    except AbsRaise as e:
        raise AnalysisError(f"abstract evaluation of the Registry methods raised {e.value!r}")


def render_role(m, gsf):
    """RENDER: the function of the traceback module that CallError's constructor renders the failing call's frame with."""
    ce = m.one_class("CallError", "S4")  # public API
    init = ce.methods.get("__init__")
    found = {g for c in (init.own_calls() if init else ()) for g in m.callee_funcs(init, c) if g.module is gsf.module and g is not gsf and g.cls is None}
    if len(found) != 1:
        raise AnalysisError(f"role RENDER: expected CallError.__init__ to call one function of {gsf.module.name}, found {sorted(g.name for g in found)}")
    return next(iter(found))


def _anc(mod, n):
    p = mod.parent.get(n)
    while p is not None and not isinstance(p, (ast.FunctionDef, ast.AsyncFunctionDef)):
        yield p
        p = mod.parent.get(p)



def rule_frame_chains_compared_whole(ctx, rid):
    """A captured frame is a *chain* (innermost line ... outermost line).  Two captures made at the same line from different callers
    differ only in their outer part, so (a) if the frame class defines equality / hashing at all, chains that differ in an outer
    frame must compare unequal (evaluated), and (b) nothing on the attribution path is memoised on a frame (a memo is keyed by that
    equality - and even with a sound equality it would tie the message of one error to the chain of another)."""
    from .c02 import _memoised_callables
    m = ctx.model
    sfc = m.one_class("StackFrame", "S2")
    eqm = sfc.methods.get("__eq__")
    if eqm is not None:
        interp = Interp(m)

        def frame(line, outer):
            return Obj(sfc, {"name": "helper", "path": "/user/lib.py", "line": line, "outer": outer}, name=f"frame@{line}")
        o1 = Obj(sfc, {"name": "main", "path": "/user/app.py", "line": 10, "outer": None}, name="outer10")
        o2 = Obj(sfc, {"name": "main", "path": "/user/app.py", "line": 20, "outer": None}, name="outer20")
        try:
            r_ = interp.call_func(eqm, None, [frame(5, o2)], {}, bound_self=frame(5, o1))
        except AbsRaise as e:
            raise AnalysisError(f"evaluating StackFrame.__eq__ raised {e.value!r}")
        ok = not (r_ is True or (r_ not in (False, None) and getattr(r_, "name", "") != "NotImplemented" and interp.truth(r_)))
        ctx.ob(rid, f"{sfc.name}/equality-covers-the-chain", ok, loc(eqm),
               "frames captured at the same line from different callers compare unequal" if ok else
               "StackFrame equality ignores the outer frames: two captures at the same line of a helper, reached from different callers, are "
               "'equal' - anything keyed by a frame (interning, memoised rendering) then shows the first caller's lines for the second error")
    memo = _memoised_callables(m)
    n = 0
    for f in m.funcs.values():
        if f.module.name.startswith("uberjob._testing"):
            continue
        for c in f.own_calls():
            hit = False
            if isinstance(c.func, ast.Name) and (f.module, c.func.id) in memo:
                hit = True
            else:
                for g in m.callee_funcs(f, c):
                    if (g.module, g.name) in memo and memo[(g.module, g.name)] is g:
                        hit = True
            if not hit:
                continue
            frames = [a for a in list(c.args) + [k.value for k in c.keywords]
                      if (isinstance(a, ast.Attribute) and a.attr in ("stack_frame", "outer")) or (isinstance(a, ast.Name) and a.id == "stack_frame")]
            if frames:
                n += 1
                ctx.ob(rid, f"{f.short}/memoised-on-a-frame", False, loc(f, c),
                       f"`{norm(c)[:60]}` memoises on a captured frame chain: the result computed for one capture is reused for every capture "
                       f"the frame class calls equal", norm(c)[:100])
    if not n:
        ctx.ob(rid, "FRAMES/not-memoised", True, loc(sfc.methods.get("__init__") or next(iter(sfc.methods.values()))), "nothing on the attribution path is memoised on a captured frame")
