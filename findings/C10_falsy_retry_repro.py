import uberjob
class Retry(list):
    """A retry decorator object that happens to be falsy (empty list subclass)."""
    def __call__(self, f):
        def wrapper(*a, **k):
            for i in range(3):
                try:
                    return f(*a, **k)
                except Exception:
                    if i == 2: raise
        return wrapper
n = {"calls": 0}
def flaky():
    n["calls"] += 1
    if n["calls"] < 3: raise ValueError("transient")
    return 42
p = uberjob.Plan(); c = p.call(flaky)
try:
    print("result", uberjob.run(p, output=c, retry=Retry(), progress=None), "attempts", n["calls"])
except uberjob.CallError as e:
    print("CallError after", n["calls"], "attempt(s):", repr(e.__cause__))
