"""Rule helpers shared across properties: user-reaching classification, pruning rules."""
from __future__ import annotations

import ast

from ..astq import OPAQUE, arg, ext_names, inside, is_name, loc, names_in, stmt_of
from ..cfg import CFG
from ..model import AnalysisError, head, norm

GRAPH_MUTATORS = {"add_edge", "add_edges_from", "add_node", "add_nodes_from", "remove_node", "remove_nodes_from",
                  "remove_edge", "remove_edges_from", "clear", "update", "add_weighted_edges_from", "clear_edges"}


def make_user_reaching(m):
    """(func, call) -> bool: the call may run code of external origin (call functions, stores, observers, retry
    decorators, transform_physical, predicates) directly or through repo functions."""
    def leaf(f, c):
        return any(o[0] in OPAQUE for o in m.callee_origins(f, c))

    reaches = {f: any(leaf(f, c) for c in f.own_calls()) for f in m.funcs.values()}
    changed = True
    while changed:
        changed = False
        for f in m.funcs.values():
            if reaches[f]:
                continue
            for t, kind in m.call_edges.get(f, ()):
                if kind == "call" and reaches.get(t):
                    reaches[f] = True
                    changed = True
                    break

    def ur(f, c):
        return leaf(f, c) or any(reaches.get(g) for g in m.callee_funcs(f, c))

    ur.reaches = reaches
    ur.leaf = leaf
    return ur


def graph_mutation_calls(f):
    return [c for c in f.own_calls() if isinstance(c.func, ast.Attribute) and c.func.attr in GRAPH_MUTATORS
            and ("graph" in norm(c.func.value).lower() or norm(c.func.value) in ("g", "G"))]


def _is_universe(e):
    """Expression enumerating every node of a graph: G, G.nodes, G.nodes(), list/set/tuple(...) of those."""
    if isinstance(e, ast.Call) and isinstance(e.func, ast.Name) and e.func.id in ("set", "list", "tuple", "frozenset", "sorted") and len(e.args) == 1:
        return _is_universe(e.args[0])
    t = norm(e)
    return t.endswith(".nodes()") or t.endswith(".nodes") or t in ("graph", "plan.graph", "g", "G") or t.endswith(".graph")


def removed_set_facts(m, f, e, depth=0, seen=()):
    """Abstract description of a collection of nodes about to be removed:
    {'complement_of': <name of the kept set> | None  - the collection is EXACTLY universe minus that set,
     'pred_free': bool                               - every element has no predecessor}"""
    none = {"complement_of": None, "pred_free": False}
    if depth > 6:
        return none
    if isinstance(e, ast.Call) and isinstance(e.func, ast.Name) and e.func.id in ("set", "list", "tuple", "frozenset", "sorted") and len(e.args) == 1:
        return removed_set_facts(m, f, e.args[0], depth + 1, seen)
    if isinstance(e, ast.Call) and isinstance(e.func, ast.Name) and e.func.id == "filter" and len(e.args) == 2:
        base = removed_set_facts(m, f, e.args[1], depth + 1, seen)
        pf = base["pred_free"]
        for g in m.callee_funcs(f, ast.Call(func=e.args[0], args=[], keywords=[])) if False else ():
            pass
        return {"complement_of": None, "pred_free": pf}
    if isinstance(e, ast.BinOp) and isinstance(e.op, ast.Sub) and _is_universe(e.left) and isinstance(e.right, ast.Name):
        return {"complement_of": e.right.id, "pred_free": False}
    if isinstance(e, ast.Call) and isinstance(e.func, ast.Attribute) and e.func.attr == "difference" and len(e.args) == 1 \
            and _is_universe(e.func.value) and isinstance(e.args[0], ast.Name):
        return {"complement_of": e.args[0].id, "pred_free": False}
    if isinstance(e, (ast.ListComp, ast.SetComp, ast.GeneratorExp)) and len(e.generators) == 1 and not e.generators[0].is_async:
        gen = e.generators[0]
        if not (isinstance(gen.target, ast.Name) and is_name(e.elt, gen.target.id)):
            return none
        v = gen.target.id
        base_univ = _is_universe(gen.iter)
        base = none if base_univ else removed_set_facts(m, f, gen.iter, depth + 1, seen)
        pf = base["pred_free"]
        comp = None
        for cond in gen.ifs:
            t = cond
            if isinstance(t, ast.Compare) and len(t.ops) == 1 and isinstance(t.ops[0], ast.NotIn) and is_name(t.left, v) \
                    and isinstance(t.comparators[0], ast.Name):
                comp = t.comparators[0].id
            for x in ast.walk(cond):
                if isinstance(x, ast.Call) and x in f.own_calls() and any(is_pred_free_test(m, g) for g in m.callee_funcs(f, x)) \
                        and any(is_name(a, v) for a in x.args):
                    # the test must hold for the element to be selected (conjunct, not under `not`/`or`)
                    conj = cond.values if isinstance(cond, ast.BoolOp) and isinstance(cond.op, ast.And) else [cond]
                    if any(c is x for c in conj):
                        pf = True
        exact = comp if (base_univ and len(gen.ifs) == 1 and comp is not None) else None
        return {"complement_of": exact, "pred_free": pf}
    if isinstance(e, ast.Name) and e.id not in seen:
        bs = f.bindings.get(e.id, [])
        if not bs or any(b[0] != "assign" or b[2] for b in bs):
            return none
        facts = []
        for _k, expr, _p in bs:
            # a re-binding that filters the previous value of the same name keeps 'every element is pred-free'
            sub = removed_set_facts(m, f, expr, depth + 1, seen + (e.id,))
            selfref = any(isinstance(x, ast.Name) and x.id == e.id for x in ast.walk(expr))
            facts.append((sub, selfref))
        roots = [fa for fa, selfref in facts if not selfref]
        if not roots:
            return none
        pf = all(fa["pred_free"] for fa in roots) and all(_is_subset_of_self(expr, e.id) for (_k, expr, _p), (fa, selfref) in zip(bs, facts) if selfref)
        comp = roots[0]["complement_of"] if len(bs) == 1 else None
        return {"complement_of": comp, "pred_free": pf}
    return none


def _is_subset_of_self(expr, name):
    """`expr` selects elements of the collection `name` (comprehension over it / filter(...) on it)."""
    e = expr
    while isinstance(e, ast.Call) and isinstance(e.func, ast.Name) and e.func.id in ("set", "list", "tuple", "sorted") and len(e.args) == 1:
        e = e.args[0]
    if isinstance(e, ast.Call) and isinstance(e.func, ast.Name) and e.func.id == "filter" and len(e.args) == 2:
        return is_name(e.args[1], name)
    if isinstance(e, (ast.ListComp, ast.SetComp, ast.GeneratorExp)) and len(e.generators) == 1:
        gen = e.generators[0]
        return is_name(gen.iter, name) and isinstance(gen.target, ast.Name) and is_name(e.elt, gen.target.id)
    return False


def _closure_at(m, f, kept, stmt):
    """Every definition of `kept` reaching `stmt` is the result of the ancestor-closure function."""
    from ..cfg import reaching_defs
    g = CFG(f)
    IN = reaching_defs(g, kept)
    nodes = g.of(stmt)
    if not nodes:
        return False
    for n in nodes:
        defs = IN[n]
        if not defs:
            return False
        for d in defs:
            if d is g.entry:
                return False
            a = d.ast
            v = a.value if isinstance(a, (ast.Assign, ast.AnnAssign)) else None
            while isinstance(v, ast.Call) and isinstance(v.func, ast.Name) and v.func.id in ("set", "frozenset") and len(v.args) == 1:
                v = v.args[0]
            if not (isinstance(v, ast.Call) and v in f.own_calls() and any(h.name == "all_ancestors" for h in m.callee_funcs(f, v))):
                return False
    return True


def rule_pruning_preserves_paths(ctx, rid):
    """Every node-removal site of the plan transformations is (a) removal of exactly the complement of an ancestor
    closure, (b) removal of predecessor-free nodes only, or (c) removal of one node whose *current* predecessors and
    successors were bridged by a full product of edges immediately before."""
    m = ctx.model
    sites = []
    for f in m.funcs.values():
        if not f.module.name.startswith(("uberjob._transformations", "uberjob._execution", "uberjob._run", "uberjob._util", "uberjob._plan")):
            continue
        for c in f.own_calls():
            if isinstance(c.func, ast.Attribute) and c.func.attr in ("remove_node", "remove_nodes_from"):
                sites.append((f, c))
    ctx.floor(rid, "node-removal sites in the plan transformations", len(sites), 3)
    for f, c in sites:
        mod = f.module
        st = stmt_of(mod, c)
        a0 = c.args[0] if c.args else None
        verdict = None
        coll = None
        if c.func.attr == "remove_nodes_from":
            coll = a0
        else:
            # `for x in L: G.remove_node(x)` with nothing else in the loop is the same bulk removal
            for p in ast.walk(f.node):
                if isinstance(p, ast.For) and inside(mod, c, p) and norm(p.target) == norm(a0) and len(p.body) == 1 and p.body[0] is st:
                    coll = p.iter
        if coll is not None:
            facts = removed_set_facts(m, f, coll)
            if facts["complement_of"] is not None:
                # where the collection is computed (the statement binding it, or the removal itself)
                at = st
                if isinstance(coll, ast.Name):
                    bs = [b for b in f.bindings.get(coll.id, []) if b[0] == "assign"]
                    if len(bs) == 1:
                        at = stmt_of(mod, bs[0][1])
                ok = _closure_at(m, f, facts["complement_of"], at)
                verdict = (ok, "removes exactly the complement of the ancestor closure of the required nodes" if ok else
                           "the kept set is not the ancestor closure at the point of subtraction")
            elif facts["pred_free"]:
                verdict = (True, "removes only nodes without predecessors (cannot lie on a path between kept nodes)")
            else:
                verdict = (False, "several nodes are removed at once although they may have predecessors and successors: bridges computed beforehand "
                                  "cannot account for removed nodes that are adjacent to each other, and nodes removed without bridging drop the "
                                  "dependency (and staleness) paths routed through them")
        if verdict is None and c.func.attr == "remove_node":
            verdict = classify_bridged_removal(ctx, m, f, c, a0)
        if verdict is None:
            raise AnalysisError(f"{f.qualname}: node removal `{norm(st)}` is not a recognised pruning idiom")
        ctx.ob(rid, f"{f.short}/removal", verdict[0], loc(f, c), verdict[1], norm(st), verdict[2] if len(verdict) > 2 else "")


def is_pred_free_test(m, g):
    rets = [n for n in g.own_nodes() if isinstance(n, ast.Return) and n.value is not None]
    return len(rets) == 1 and norm(rets[0].value).replace(" ", "") in (
        f"not{g.pos_params[0]}.pred[{g.pos_params[1]}]", f"{g.pos_params[0]}.in_degree({g.pos_params[1]})==0") if len(g.pos_params) >= 2 else False


def reads_neighbours(m, f, stmt, x, depth=0):
    """Which neighbour sets of node expression `x` statement `stmt` reads: subset of {'pred','succ'}."""
    out = set()
    for c in ast.walk(stmt):
        if isinstance(c, ast.Call) and isinstance(c.func, ast.Attribute) and c.args and norm(c.args[0]) == x:
            if c.func.attr == "predecessors":
                out.add("pred")
            if c.func.attr in ("successors", "neighbors"):
                out.add("succ")
        if isinstance(c, ast.Call) and depth < 2 and any(norm(a) == x for a in c.args):
            for g in m.callee_funcs(f, c) if c in f.own_calls() else ():
                idx = [i for i, a in enumerate(c.args) if norm(a) == x][0]
                ps = g.pos_params[1:] if g.cls is not None else g.pos_params
                if idx < len(ps):
                    for s in g.own_stmts():
                        if isinstance(s, (ast.Assign, ast.Expr, ast.Return, ast.For)):
                            out |= reads_neighbours(m, g, s, ps[idx], depth + 1)
    return out


def classify_bridged_removal(ctx, m, f, c, a0):
    mod = f.module
    x = norm(a0)
    g = CFG(f)
    st = stmt_of(mod, c)
    rm_nodes = set(g.of(st))
    read_stmts = []
    for s in f.own_stmts():
        if isinstance(s, (ast.Assign, ast.AnnAssign)) and s is not st:
            kinds = reads_neighbours(m, f, s, x)
            if kinds:
                read_stmts.append((s, kinds))
    kinds_all = set()
    for _s, k in read_stmts:
        kinds_all |= k
    if kinds_all != {"pred", "succ"}:
        return (False, "a node that may have predecessors and successors is removed without reading both its current "
                       "neighbour sets in the same step: dependencies routed through it are dropped")
    # bridging loop: for (p, s) in product(P, S): add_edge(p, s, ...)
    bridges = []
    nested_full = set()
    for n in f.own_nodes():
        if isinstance(n, ast.For):
            adds = [k for k in ast.walk(n) if isinstance(k, ast.Call) and isinstance(k.func, ast.Attribute) and k.func.attr == "add_edge"]
            if adds and isinstance(n.target, ast.Tuple) and len(n.target.elts) == 2:
                tg = [norm(e) for e in n.target.elts]
                if all(len(k.args) >= 2 and [norm(k.args[0]), norm(k.args[1])] == tg for k in adds):
                    bridges.append((n, adds))
            # the same product written as two nested loops: for p in P: for s in S: add_edge(p, s, ...)
            elif adds and isinstance(n.target, ast.Name) and len(n.body) == 1 and isinstance(n.body[0], ast.For) \
                    and isinstance(n.body[0].target, ast.Name) and not n.orelse and not n.body[0].orelse \
                    and not any(isinstance(x, (ast.Break, ast.Continue, ast.If, ast.Return)) for x in ast.walk(n)):
                tg = [n.target.id, n.body[0].target.id]
                if all(len(k.args) >= 2 and [norm(k.args[0]), norm(k.args[1])] == tg for k in adds) \
                        and isinstance(n.iter, ast.Name) and isinstance(n.body[0].iter, ast.Name):
                    bridges.append((n, adds))
                    nested_full.add(n)
    if not bridges:
        return (False, "no loop adds predecessor->successor edges before the node is removed")
    bridge_add_stmts = {stmt_of(mod, k) for _n, adds in bridges for k in adds}
    full = False
    for n, _adds in bridges:
        it = n.iter
        if n in nested_full:
            full = True
        elif isinstance(it, ast.Call) and ext_names(m, f, it) & {"itertools.product"} and len(it.args) == 2:
            full = True
        elif isinstance(it, ast.Name):
            full = True  # pairs computed by a helper: checked through reads_neighbours + staleness below
    if not full:
        return (False, "bridging loop does not range over the full product predecessors x successors")
    # the bridge dominates the removal
    for n, _ in bridges:
        if not all(g.dominates(set(g.of(n)), r_) for r_ in rm_nodes):
            return (False, "the node can be removed on a path that skips the bridging loop")
    # no other graph mutation between reading the neighbours and the removal
    other_mut = set()
    for k in graph_mutation_calls(f):
        ks = stmt_of(mod, k)
        if ks in bridge_add_stmts:
            continue
        other_mut |= set(g.of(ks))
    other_mut -= rm_nodes
    for s, _k in read_stmts:
        own = set(g.of(s))
        for sn in own:
            fresh = g.reach([sn], avoid=own)  # reachable without re-reading the neighbours
            stale_via = None
            for om in sorted(other_mut & fresh, key=lambda n: n.id):
                if rm_nodes & g.reach([om], avoid=own):
                    stale_via = om
                    break
            if stale_via is None:
                for rn in rm_nodes & fresh:
                    if rn in g.reach([rn], avoid=own):
                        stale_via = rn
                        break
            if stale_via is not None:
                return (False, "the neighbours are read from a graph state that is changed again before the removal "
                               "(batching): edges added or nodes removed in between are missed and dependency paths are lost",
                        g.fmt_path([sn, stale_via] + (g.path(stale_via, rm_nodes, avoid=own) or [])[-1:]))
    return (True, "current predecessors x successors are bridged immediately before the removal")
