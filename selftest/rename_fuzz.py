"""Development tool (not a registered check): robustness of the checks against RENAMING internal helpers.

For every function / method / class defined under /repo/src/uberjob whose name is not part of the public API (not in an
`__all__`, not referenced by tests/ or docs/) and is unique as an identifier, make a scratch copy of the source tree in which
that identifier is renamed everywhere (word-boundary replacement over all source files: a pure renaming, behaviour is
unchanged), and run all 20 checks on it.  Every non-zero result is a defect of the machinery (a rule keyed on a name instead
of a role).   usage: rename_fuzz.py [--jobs N] [names...]"""
import argparse, ast, os, re, shutil, subprocess, sys, tempfile
from concurrent.futures import ThreadPoolExecutor
os.environ.setdefault("UBCHECK_EVAL_PROCS", "2")

SRC = "/repo/src/uberjob"
ap = argparse.ArgumentParser()
ap.add_argument("--jobs", type=int, default=8)
ap.add_argument("names", nargs="*")
a = ap.parse_args()

files = [os.path.join(dp, f) for dp, _d, fs in os.walk(SRC) for f in fs if f.endswith(".py")]
texts = {f: open(f).read() for f in files}
other = ""
for root in ("/repo/tests", "/repo/docs", "/repo/README.md"):
    if os.path.isdir(root):
        for dp, _d, fs in os.walk(root):
            for f in fs:
                if f.endswith((".py", ".rst", ".md", ".txt")):
                    other += open(os.path.join(dp, f), errors="ignore").read()
    elif os.path.exists(root):
        other += open(root).read()

exported = set()
protocol = set()
defs = {}
for f, t in texts.items():
    tree = ast.parse(t)
    for n in ast.walk(tree):
        if isinstance(n, ast.Assign) and any(isinstance(x, ast.Name) and x.id == "__all__" for x in n.targets) and isinstance(n.value, (ast.List, ast.Tuple)):
            exported |= {e.value for e in n.value.elts if isinstance(e, ast.Constant)}
        if isinstance(n, (ast.FunctionDef, ast.ClassDef)):
            defs.setdefault(n.name, []).append(f)
        if isinstance(n, ast.FunctionDef) and any(ast.unparse(d_).split(".")[-1] == "abstractmethod" for d_ in n.decorator_list):
            protocol.add(n.name)  # implemented by subclasses (also the users'): part of an interface, not an internal name
        if isinstance(n, ast.ClassDef) and any(ast.unparse(b_).split(".")[-1] in ("Queue",) for b_ in n.bases):
            protocol.update(x.name for x in n.body if isinstance(x, ast.FunctionDef))  # overrides of queue.Queue's storage protocol
cands = []
for name, where in sorted(defs.items()):
    if name.startswith("__") or name in exported or re.search(rf"\b{re.escape(name)}\b", other):
        continue
    if len(name) < 4 or name in protocol:
        continue
    # methods of the public protocols (read/write/get_modified_time/increment_*, _render, _output ...) are overridden by users / subclasses
    if name in ("read", "write", "get_modified_time", "copy", "run", "observer") or name.startswith("increment_"):
        continue
    cands.append(name)
if a.names:
    cands = [c for c in cands if c in a.names]


def one(name):
    new = name + "_rn" if not name.startswith("_") else "_rn" + name
    tmp = tempfile.mkdtemp(prefix="ubrn_")
    out = tempfile.mkdtemp(prefix="ubout_")
    try:
        dst = os.path.join(tmp, "src", "uberjob")
        shutil.copytree(SRC, dst)
        n_occ = 0
        for dp, _d, fs in os.walk(dst):
            for f in fs:
                if f.endswith(".py"):
                    p = os.path.join(dp, f)
                    t = open(p).read()
                    t2, k = re.subn(rf"(?<![\w.]){re.escape(name)}\b|(?<=\.){re.escape(name)}\b", new, t)
                    n_occ += k
                    if k:
                        open(p, "w").write(t2)
        # still a valid program?
        for dp, _d, fs in os.walk(dst):
            for f in fs:
                if f.endswith(".py"):
                    compile(open(os.path.join(dp, f)).read(), f, "exec")
        env = dict(os.environ, UBCHECK_SRC=os.path.join(tmp, "src"), UBCHECK_OUT=out)
        r = subprocess.run(["/venv/bin/python", "-m", "ubcheck", "all"], cwd="/verif", env=env, capture_output=True, text=True)
        bad, cur = {}, []
        for line in r.stdout.splitlines():
            mm = re.match(r"RESULT (C\d\d) rc=(\d)", line)
            if mm:
                if mm.group(2) != "0":
                    msg = [l for l in cur if l.startswith("ANALYSIS-ERROR") or "rule=" in l]
                    bad[mm.group(1)] = f"rc={mm.group(2)} " + (msg[0][:160] if msg else "")
                cur = []
            else:
                cur.append(line)
        return name, n_occ, bad
    finally:
        shutil.rmtree(tmp, ignore_errors=True)
        shutil.rmtree(out, ignore_errors=True)


n_bad = 0
with ThreadPoolExecutor(a.jobs) as ex:
    for name, n_occ, bad in ex.map(one, cands):
        if bad:
            n_bad += 1
            print(f"{name} ({n_occ} occurrences) ALARM", bad, flush=True)
        else:
            print(f"{name} ({n_occ} occurrences) silent", flush=True)
print(f"{n_bad} of {len(cands)} renamings raised an alarm")
