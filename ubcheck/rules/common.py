"""Rule helpers shared across properties: user-reaching classification (the pruning rules are evaluated: prunerules.py)."""
from __future__ import annotations

import ast

from ..astq import OPAQUE, arg, ext_names, inside, is_name, loc, names_in, stmt_of
from ..cfg import CFG
from ..model import AnalysisError, head, norm

GRAPH_MUTATORS = {"add_edge", "add_edges_from", "add_node", "add_nodes_from", "remove_node", "remove_nodes_from",
                  "remove_edge", "remove_edges_from", "clear", "update", "add_weighted_edges_from", "clear_edges"}


def make_user_reaching(m):
    """(func, call) -> bool: the call may run code of external origin (call functions, stores, observers, retry
    decorators, transform_physical, predicates) directly or through repo functions."""
    def leaf(f, c):
        return any(o[0] in OPAQUE for o in m.callee_origins(f, c))

    reaches = {f: any(leaf(f, c) for c in f.own_calls()) for f in m.funcs.values()}
    changed = True
    while changed:
        changed = False
        for f in m.funcs.values():
            if reaches[f]:
                continue
            for t, kind in m.call_edges.get(f, ()):
                if kind == "call" and reaches.get(t):
                    reaches[f] = True
                    changed = True
                    break

    def ur(f, c):
        return leaf(f, c) or any(reaches.get(g) for g in m.callee_funcs(f, c))

    ur.reaches = reaches
    ur.leaf = leaf
    return ur
