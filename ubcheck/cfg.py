"""E4: statement-level control-flow graph with exceptional edges, built per function from the AST.

Built in continuation-passing style so `finally` suites and `with` exits are duplicated per continuation kind
(normal / return / exception / break / continue).  Exceptional edges leave only *designated* may-raise sites:
explicit `raise`, `assert`, the `yield` of a @contextmanager generator, and statements for which the caller's
`may_raise(expr_or_stmt)` predicate says so.
"""
from __future__ import annotations

import ast

from .model import AnalysisError, Func, head


class N:
    __slots__ = ("id", "kind", "ast", "tag", "owner", "val")

    def __init__(self, id, kind, node, tag=None, owner=None):
        self.val = None  # flag valuation (dict) in a flag-refined graph
        self.id = id
        self.kind = kind  # stmt | test | loop | with_enter | with_exit | dispatch | handler | entry | exit | raise_exit | join
        self.ast = node
        self.tag = tag  # for with_exit / finally copies: continuation kind
        self.owner = owner

    def __repr__(self):
        line = getattr(self.ast, "lineno", "-")
        return f"<{self.kind}#{self.id}@{line}{':' + self.tag if self.tag else ''} {head(self.ast)[:40] if self.ast is not None else ''}>"


class K:
    """Continuations."""
    __slots__ = ("next", "ret", "exc", "brk", "cont")

    def __init__(self, next, ret, exc, brk=None, cont=None):
        self.next, self.ret, self.exc, self.brk, self.cont = next, ret, exc, brk, cont

    def with_(self, **kw):
        k = K(self.next, self.ret, self.exc, self.brk, self.cont)
        for a, v in kw.items():
            setattr(k, a, v)
        return k


def default_may_raise(node):
    return False


def contains_call(node):
    return any(isinstance(x, ast.Call) for x in ast.walk(node))


def any_call_may_raise(node):
    """Conservative predicate: every statement/expression containing a call (or await/yield) may raise."""
    for x in ast.walk(node):
        if isinstance(x, (ast.FunctionDef, ast.AsyncFunctionDef, ast.Lambda)) and x is not node:
            continue
        if isinstance(x, (ast.Call, ast.Await, ast.Yield, ast.YieldFrom)):
            return True
    return False


class CFG:
    def __init__(self, func: Func, may_raise=None, yield_raises=None, refine_flags=True):
        self.func = func
        self.may_raise = may_raise or default_may_raise
        self.yield_raises = func.is_contextmanager if yield_raises is None else yield_raises
        self.nodes = []
        self.succ = {}
        self.pred = {}
        self.by_ast = {}
        self._fin_cache = {}
        self.entry = self._new("entry", None)
        self.exit = self._new("exit", None)  # normal return / fall off the end
        self.raise_exit = self._new("raise_exit", None)  # exception escapes the function
        k = K(self.exit, self.exit, self.raise_exit)
        body = func.node.body if not isinstance(func.node, ast.Lambda) else [ast.Return(value=func.node.body)]
        first = self._block(body, k)
        self._edge(self.entry, first, "n")
        if refine_flags:
            self._refine_flags()

    # ---------------------------------------------------------------- construction
    def _new(self, kind, node, tag=None, owner=None):
        n = N(len(self.nodes), kind, node, tag, owner)
        self.nodes.append(n)
        self.succ[n] = []
        self.pred[n] = []
        if node is not None:
            self.by_ast.setdefault(node, []).append(n)
        return n

    def _edge(self, a, b, label):
        if b is None:
            raise AnalysisError(f"CFG of {self.func.qualname}: control transfer without target at {a}")
        if (b, label) not in self.succ[a]:
            self.succ[a].append((b, label))
            self.pred[b].append((a, label))

    def _raises(self, node):
        if node is None:
            return False
        if self.yield_raises:
            for x in ast.walk(node):
                if isinstance(x, (ast.Yield, ast.YieldFrom)):
                    return True
        return bool(self.may_raise(node))

    def _block(self, stmts, k):
        nxt = k.next
        for s in reversed(stmts):
            nxt = self._stmt(s, k.with_(next=nxt))
        return nxt

    def _stmt(self, s, k):
        if isinstance(s, ast.Return):
            n = self._new("stmt", s)
            if self._raises(s.value):
                self._edge(n, k.exc, "e")
            self._edge(n, k.ret, "n")
            return n
        if isinstance(s, ast.Raise):
            n = self._new("stmt", s)
            self._edge(n, k.exc, "e")
            return n
        if isinstance(s, ast.Break):
            n = self._new("stmt", s)
            self._edge(n, k.brk, "n")
            return n
        if isinstance(s, ast.Continue):
            n = self._new("stmt", s)
            self._edge(n, k.cont, "n")
            return n
        if isinstance(s, ast.If):
            n = self._new("test", s)
            if self._raises(s.test):
                self._edge(n, k.exc, "e")
            self._edge(n, self._block(s.body, k), "t")
            self._edge(n, self._block(s.orelse, k) if s.orelse else k.next, "f")
            return n
        if isinstance(s, ast.While):
            n = self._new("loop", s)
            if self._raises(s.test):
                self._edge(n, k.exc, "e")
            after = self._block(s.orelse, k) if s.orelse else k.next
            body = self._block(s.body, k.with_(next=n, brk=k.next, cont=n))
            self._edge(n, body, "t")
            const_true = isinstance(s.test, ast.Constant) and bool(s.test.value)
            if not const_true:
                self._edge(n, after, "f")
            return n
        if isinstance(s, (ast.For, ast.AsyncFor)):
            n = self._new("loop", s)
            if self._raises(s.iter):
                self._edge(n, k.exc, "e")
            after = self._block(s.orelse, k) if s.orelse else k.next
            body = self._block(s.body, k.with_(next=n, brk=k.next, cont=n))
            self._edge(n, body, "t")
            self._edge(n, after, "f")
            return n
        if isinstance(s, (ast.With, ast.AsyncWith)):
            return self._with(s, k)
        if isinstance(s, ast.Try):
            return self._try(s, k)
        if isinstance(s, ast.Match):
            n = self._new("test", s)
            if self._raises(s.subject):
                self._edge(n, k.exc, "e")
            wildcard = False
            for c in s.cases:
                self._edge(n, self._block(c.body, k), "t")
                if isinstance(c.pattern, ast.MatchAs) and c.pattern.pattern is None and c.guard is None:
                    wildcard = True
            if not wildcard:
                self._edge(n, k.next, "f")
            return n
        # simple statement
        n = self._new("stmt", s)
        if isinstance(s, ast.Assert):
            self._edge(n, k.exc, "e")
        elif isinstance(s, (ast.FunctionDef, ast.AsyncFunctionDef, ast.ClassDef)):
            pass
        elif self._raises(s):
            self._edge(n, k.exc, "e")
        self._edge(n, k.next, "n")
        return n

    def _with(self, s, k):
        enter = self._new("with_enter", s)
        if any(self._raises(it.context_expr) for it in s.items):
            self._edge(enter, k.exc, "e")
        exits = {}

        def exit_to(kind, target):
            if target is None:
                return None
            key = (kind, target)
            if key not in exits:
                x = self._new("with_exit", s, tag=kind)
                self._edge(x, target, "e" if kind == "exc" else "n")
                exits[key] = x
            return exits[key]

        kb = K(exit_to("next", k.next), exit_to("ret", k.ret), exit_to("exc", k.exc),
               exit_to("brk", k.brk), exit_to("cont", k.cont))
        self._edge(enter, self._block(s.body, kb), "n")
        return enter

    def _try(self, s, k):
        def fin(kind, target):
            """Entry of a copy of the finally suite that continues to `target`."""
            if target is None:
                return None
            if not s.finalbody:
                return target
            key = (id(s), kind, target)
            if key not in self._fin_cache:
                marker = self._new("finally", s, tag=kind)
                self._fin_cache[key] = marker
                # exceptions/returns inside the finally suite replace the pending continuation
                inner = self._block(s.finalbody, k.with_(next=target))
                self._edge(marker, inner, "e" if kind == "exc" else "n")
            return self._fin_cache[key]

        k_after = K(fin("next", k.next), fin("ret", k.ret), fin("exc", k.exc), fin("brk", k.brk), fin("cont", k.cont))
        # handlers
        if s.handlers:
            dispatch = self._new("dispatch", s)
            catch_all = False
            for h in s.handlers:
                hn = self._new("handler", h)
                self._edge(dispatch, hn, "e")
                self._edge(hn, self._block(h.body, k_after), "n")
                if h.type is None or (isinstance(h.type, ast.Name) and h.type.id == "BaseException"):
                    catch_all = True
            if not catch_all:
                self._edge(dispatch, k_after.exc, "e")
            body_exc = dispatch
        else:
            body_exc = k_after.exc
        after_body = self._block(s.orelse, k_after) if s.orelse else k_after.next
        kb = K(after_body, k_after.ret, body_exc, k_after.brk, k_after.cont)
        tn = self._new("try", s)
        self._edge(tn, self._block(s.body, kb), "n")
        return tn

    # ---------------------------------------------------------------- flag sensitivity
    def _flag_vars(self):
        """Local variables of this function that only ever hold the constants True/False (control flags)."""
        fn = self.func.node
        if isinstance(fn, ast.Lambda):
            return []
        cands = {}
        computed = set()
        bad = set(self.func.params) | set(self.func.nonlocals) | set(getattr(self.func, "globals_", ()))
        for n in self.func.own_nodes():
            if isinstance(n, ast.Assign) and len(n.targets) == 1 and isinstance(n.targets[0], ast.Name):
                v = n.value
                if isinstance(v, ast.Constant) and isinstance(v.value, bool):
                    cands.setdefault(n.targets[0].id, []).append(n)
                elif isinstance(v, (ast.Compare, ast.BoolOp)) or (isinstance(v, ast.UnaryOp) and isinstance(v.op, ast.Not)):
                    # a flag computed from a condition: both outcomes are followed (and remembered)
                    cands.setdefault(n.targets[0].id, []).append(n)
                    computed.add(n.targets[0].id)
                else:
                    bad.add(n.targets[0].id)
            elif isinstance(n, ast.Name) and isinstance(n.ctx, (ast.Store, ast.Del)):
                pass
        # any other binding form (for target, with-as, augmented, tuple unpacking, nested nonlocal) disqualifies
        for n in self.func.own_nodes():
            if isinstance(n, ast.Name) and isinstance(n.ctx, (ast.Store, ast.Del)) and n.id in cands:
                if not any(a.targets[0] is n for a in cands[n.id]):
                    bad.add(n.id)
        for g in self.func.all_nested():
            bad |= set(g.nonlocals)
        # a computed flag is worth tracking only if it is also branched on
        tested = set()
        for n in self.func.own_nodes():
            if isinstance(n, (ast.If, ast.While)):
                t = n.test
                while isinstance(t, ast.UnaryOp) and isinstance(t.op, ast.Not):
                    t = t.operand
                if isinstance(t, ast.Name):
                    tested.add(t.id)
        return sorted(x for x in cands if x not in bad and (x not in computed or x in tested))

    def _refine_flags(self):
        """Product of the graph with the values of the control flags: a branch on `flag` / `not flag` is followed only
        in the direction the flag's current value allows, so `done = True ... while not done` or
        `committed = True ... finally: if not committed: cleanup()` are analysed as the control flow they are."""
        flags = self._flag_vars()
        if not flags or len(flags) > 3:
            return
        idx = {f: i for i, f in enumerate(flags)}

        def test_flag(node):
            t = node.ast.test if node.kind in ("test", "loop") and hasattr(node.ast, "test") else None
            if node.kind == "loop" and not isinstance(node.ast, ast.While):
                return None
            pol = True
            while isinstance(t, ast.UnaryOp) and isinstance(t.op, ast.Not):
                t, pol = t.operand, not pol
            if isinstance(t, ast.Name) and t.id in idx:
                return t.id, pol
            return None

        old_nodes, old_succ = self.nodes, self.succ
        entry0, exit0, rexit0 = self.entry, self.exit, self.raise_exit
        self.nodes, self.succ, self.pred, self.by_ast = [], {}, {}, {}
        made = {}

        def get(n, val):
            if n is exit0 or n is rexit0:
                val = None
            key = (n, val)
            if key not in made:
                made[key] = self._new(n.kind, n.ast, n.tag, n.owner)
                made[key].val = dict(zip(flags, val)) if val is not None else None
            return made[key]
        init = tuple(None for _ in flags)
        self.entry = get(entry0, init)
        self.exit = get(exit0, None)
        self.raise_exit = get(rexit0, None)
        work = [(entry0, init)]
        seen = {(entry0, init)}
        while work:
            n, val = work.pop()
            src = get(n, val)
            tf = test_flag(n)
            for b, lab in old_succ[n]:
                nv = val
                if tf is not None and lab in ("t", "f") and val[idx[tf[0]]] is not None:
                    truth = val[idx[tf[0]]] if tf[1] else (not val[idx[tf[0]]])
                    if (lab == "t") != truth:
                        continue
                nvs = [nv]
                if n.kind == "stmt" and isinstance(n.ast, ast.Assign) and lab == "n" and len(n.ast.targets) == 1 \
                        and isinstance(n.ast.targets[0], ast.Name) and n.ast.targets[0].id in idx:
                    outcomes = [bool(n.ast.value.value)] if isinstance(n.ast.value, ast.Constant) else [True, False]
                    nvs = []
                    for oc in outcomes:
                        lst = list(val)
                        lst[idx[n.ast.targets[0].id]] = oc
                        nvs.append(tuple(lst))
                for nv in nvs:
                    dst = get(b, nv)
                    self._edge(src, dst, lab)
                    key = (b, None if (b is exit0 or b is rexit0) else nv)
                    if key not in seen and b is not exit0 and b is not rexit0:
                        seen.add(key)
                        work.append((b, nv))
        self.flags_refined = flags

    # ---------------------------------------------------------------- queries
    def of(self, node):
        """CFG nodes for an AST statement (several when it sits in a duplicated finally suite)."""
        return list(self.by_ast.get(node, []))

    def of_stmt_containing(self, sub, module):
        """CFG nodes of the innermost statement of this function that contains AST node `sub`."""
        p = sub
        while p is not None and p not in self.by_ast:
            p = module.parent.get(p)
        return self.of(p) if p is not None else []

    def reach(self, starts, avoid=(), labels=None, first_labels=None):
        """Nodes reachable from `starts` (excluded unless on a cycle) without entering `avoid`.
        `first_labels`: restrict the labels of the first step (e.g. {'e'} = only the exceptional out-edge)."""
        avoid = set(avoid)
        seen = set()
        work = []
        for s in starts:
            for b, lab in self.succ[s]:
                if first_labels is not None and lab not in first_labels:
                    continue
                if b not in avoid:
                    work.append(b)
        while work:
            n = work.pop()
            if n in seen:
                continue
            seen.add(n)
            for b, lab in self.succ[n]:
                if labels is not None and lab not in labels:
                    continue
                if b not in avoid and b not in seen:
                    work.append(b)
        return seen

    def reachable_nodes(self):
        return self.reach([self.entry]) | {self.entry}

    def dominates(self, doms, target):
        """Every path entry -> target passes through some node in `doms`."""
        doms = set(doms)
        if target in doms:
            return True
        return target not in self.reach([self.entry], avoid=doms) and target is not self.entry

    def must_pass(self, start, through, exits=None, first_labels=None):
        """Every path from `start` to any of `exits` (default: both function exits) passes through `through`."""
        exits = set(exits) if exits is not None else {self.exit, self.raise_exit}
        r = self.reach([start], avoid=set(through), first_labels=first_labels)
        return not (r & exits)

    def path(self, start, goal_set, avoid=(), first_labels=None):
        """One path (list of nodes) from start to a node in goal_set avoiding `avoid`, or None."""
        avoid = set(avoid)
        goal_set = set(goal_set)
        prev = {}
        work = []
        for b, lab in self.succ[start]:
            if first_labels is not None and lab not in first_labels:
                continue
            if b not in avoid and b not in prev:
                prev[b] = start
                work.append(b)
        while work:
            n = work.pop(0)
            if n in goal_set:
                out = [n]
                while out[-1] is not start:
                    out.append(prev[out[-1]])
                return list(reversed(out))
            for b, _lab in self.succ[n]:
                if b not in avoid and b not in prev:
                    prev[b] = n
                    work.append(b)
        return None

    def fmt_path(self, path):
        if not path:
            return "<none>"
        parts = []
        for n in path:
            if n.kind in ("entry", "exit", "raise_exit"):
                parts.append(n.kind)
            elif n.kind in ("with_exit", "finally", "dispatch", "try"):
                parts.append(f"{n.kind}:{n.tag or ''}@{getattr(n.ast, 'lineno', '?')}")
            else:
                parts.append(f"{getattr(n.ast, 'lineno', '?')}:{head(n.ast)[:50]}")
        return " -> ".join(parts)


def assigned_names(stmt):
    """Names (re)bound by a simple statement / compound header."""
    out = set()

    def tgt(t):
        if isinstance(t, ast.Name):
            out.add(t.id)
        elif isinstance(t, (ast.Tuple, ast.List)):
            for x in t.elts:
                tgt(x.value if isinstance(x, ast.Starred) else x)

    if isinstance(stmt, ast.Assign):
        for t in stmt.targets:
            tgt(t)
    elif isinstance(stmt, (ast.AnnAssign, ast.AugAssign)):
        tgt(stmt.target)
    elif isinstance(stmt, (ast.For, ast.AsyncFor)):
        tgt(stmt.target)
    elif isinstance(stmt, (ast.With, ast.AsyncWith)):
        for it in stmt.items:
            if it.optional_vars is not None:
                tgt(it.optional_vars)
    elif isinstance(stmt, ast.ExceptHandler) and stmt.name:
        out.add(stmt.name)
    elif isinstance(stmt, (ast.FunctionDef, ast.ClassDef)):
        out.add(stmt.name)
    return out


def reaching_defs(g: CFG, var):
    """IN sets of reaching definitions of `var`: node -> set of defining CFG nodes ('entry' node = parameter/none)."""
    defs = {n for n in g.nodes if n.ast is not None and n.kind in ("stmt", "loop", "with_enter", "handler")
            and var in assigned_names(n.ast)}
    IN = {n: set() for n in g.nodes}
    OUT = {n: set() for n in g.nodes}
    OUT[g.entry] = {g.entry}
    work = list(g.nodes)
    while work:
        n = work.pop()
        i = set()
        for p, _lab in g.pred[n]:
            i |= OUT[p]
        IN[n] = i
        o = {n} if n in defs else (i if n is not g.entry else {g.entry})
        if o != OUT[n]:
            OUT[n] = o
            for s, _lab in g.succ[n]:
                work.append(s)
    return IN


def value_sources(f, g, name, at_node, module, depth=0, seen=None):
    """Where can the value of variable `name`, as used by the statement containing AST node `at_node`, come from?  Follows reaching
    definitions through plain copies (`a = b`), tuple packing / unpacking (`t = (a, b)`; `x, y = t`) and conditional expressions.
    -> set of leaves: ("param", name) | ("expr", ast node) | ("elem", call/expr node, index) | ("loop", ast node) | ("unknown", ...)"""
    import ast as _ast
    seen = seen if seen is not None else set()
    out = set()
    if depth > 12:
        return {("unknown", name)}
    rd = reaching_defs(g, name)
    for cn in g.of_stmt_containing(at_node, module):
        for d in rd[cn]:
            key = (id(d), name)
            if key in seen:
                continue
            seen.add(key)
            if d is g.entry:
                out.add(("param", name))
                continue
            st = d.ast
            if isinstance(st, _ast.Assign):
                for tg in st.targets:
                    out |= _sources_of_target(f, g, tg, st.value, name, st, module, depth, seen)
            elif isinstance(st, _ast.AnnAssign) and st.value is not None:
                out |= _sources_of_target(f, g, st.target, st.value, name, st, module, depth, seen)
            elif isinstance(st, (_ast.For, _ast.With, _ast.AugAssign, _ast.ExceptHandler)):
                out.add(("loop", st))
            else:
                out.add(("unknown", name))
    return out


def _sources_of_target(f, g, tg, value, name, st, module, depth, seen):
    import ast as _ast
    if isinstance(tg, _ast.Name):
        return _sources_of_expr(f, g, value, st, module, depth, seen) if tg.id == name else set()
    if isinstance(tg, (_ast.Tuple, _ast.List)):
        for i, el in enumerate(tg.elts):
            if isinstance(el, _ast.Name) and el.id == name:
                if isinstance(value, (_ast.Tuple, _ast.List)) and len(value.elts) == len(tg.elts):
                    return _sources_of_expr(f, g, value.elts[i], st, module, depth, seen)
                if isinstance(value, _ast.Name):
                    out = set()
                    for leaf in value_sources(f, g, value.id, st, module, depth + 1, seen):
                        if leaf[0] == "expr" and isinstance(leaf[1], (_ast.Tuple, _ast.List)) and i < len(leaf[1].elts):
                            out |= _sources_of_expr(f, g, leaf[1].elts[i], _stmt_holding(module, leaf[1]) or st, module, depth + 1, seen)
                        elif leaf[0] == "expr":
                            out.add(("elem", leaf[1], i))
                        else:
                            out.add(("unknown", name))
                    return out
                return {("elem", value, i)}
    return set()


def _stmt_holding(module, node):
    p = node
    import ast as _ast
    while p is not None and not isinstance(p, _ast.stmt):
        p = module.parent.get(p)
    return p


def _sources_of_expr(f, g, e, st, module, depth, seen):
    import ast as _ast
    if isinstance(e, _ast.Name):
        return value_sources(f, g, e.id, st, module, depth + 1, seen)
    if isinstance(e, _ast.IfExp):
        return _sources_of_expr(f, g, e.body, st, module, depth, seen) | _sources_of_expr(f, g, e.orelse, st, module, depth, seen)
    return {("expr", e)}
