"""Clean-tree observation: a dependency cycle through Literal nodes is pruned away (not reported)
when run() has no registry, but reported (HasACycle) when a registry is passed."""
import networkx as nx
import uberjob

def build():
    plan = uberjob.Plan()
    l1 = plan.lit(1)
    l2 = plan.lit(2)
    plan.add_dependency(l1, l2)
    plan.add_dependency(l2, l1)          # cycle l1 <-> l2
    c = plan.call(lambda: "ran")
    plan.add_dependency(l2, c)           # c must run after the (cyclic) literals
    return plan, c

for label, kw in (("no registry", {}), ("registry with one unrelated entry", None)):
    plan, c = build()
    if kw is None:
        r = uberjob.Registry()
        import datetime as dt
        r.add(plan.lit(0), uberjob.stores.LiteralSource(0, dt.datetime(2020, 1, 1)))
        kw = {"registry": r}
    try:
        print(label, "->", uberjob.run(plan, output=c, progress=None, **kw))
    except nx.HasACycle as e:
        print(label, "-> HasACycle:", e)
