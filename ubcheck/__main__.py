"""CLI:  python -m ubcheck C07 [--tier quick|thorough]   |   python -m ubcheck --replay <report.json>
         python -m ubcheck all [--tier ...]               |   python -m ubcheck findings
Exit: 0 = every obligation discharged, 1 = violation (VIOLATION line printed), 2 = ANALYSIS-ERROR."""
from __future__ import annotations

import argparse
import importlib
import json
import os
import sys
import time
import traceback

from .model import AnalysisError, Model
from .report import Ctx, finish, load_known

ALL = [f"C{i:02d}" for i in range(1, 21)]


def _evaluate(pid, tier, model, quiet):
    """Run the rules of one property on one model.  -> (status, ctx, note) with status ok | violation | error."""
    ctx = Ctx(pid, model, tier, quiet=quiet)
    mod = importlib.import_module(f"ubcheck.rules.{pid.lower()}")
    try:
        try:
            mod.check(ctx)
        except AnalysisError as e:
            # a rule could not finish; if other rules already found violations, report those (exit 1) and
            # mention the incomplete analysis - otherwise this is exit 2
            # (recorded known findings are on the unchanged tree as well: they do not turn an incomplete analysis into a verdict)
            if not _new_findings(ctx):
                return "error", ctx, str(e)
            return "violation", ctx, f"analysis incomplete after the findings below: {e}"
        if ctx.errors:
            if not _new_findings(ctx):
                return "error", ctx, "; ".join(ctx.errors)
            return "violation", ctx, f"some rules could not finish: {'; '.join(ctx.errors)[:400]}"
        return ("violation" if _new_findings(ctx) else "ok"), ctx, None
    except AnalysisError as e:
        return "error", ctx, str(e)
    except Exception:  # any crash of the checker is an analysis error, never a violation
        return "error", ctx, "internal error:\n" + traceback.format_exc()


def _new_findings(ctx):
    known = {(k["rule"], k["instance"], k.get("statement", "")) for k in load_known()
             if k.get("property") == ctx.pid and k.get("status") == "known"}
    return [o for o in ctx.findings if Ctx.key(o) not in known and (o["rule"], o["instance"], "*") not in known
            and not any(k_[0] == o["rule"] and k_[2] == "*" and k_[1].startswith("*") and o["instance"].endswith(k_[1][1:]) for k_ in known)]


def run_property(pid, tier, model=None, quiet=False, write=True, model_cache=None):
    """Evaluate the property's rules on the tree as written (variant 0) and, while some obligation is open, on the
    increasingly canonicalised *equivalent* variants of canon.py.  The first variant that discharges every obligation
    decides (the variants have the same behaviour, so a proof for one is a proof for all); a violation is reported only
    if no variant discharges it, and then from the most canonical variant that produced a verdict."""
    t0 = time.time()
    seed = int(os.environ.get("VERIF_SEED", "0") or 0)
    from . import canon
    max_level = int(os.environ.get("UBCHECK_CANON", canon.MAX_LEVEL))
    tried = []
    prev_log = None
    try:
        for level in range(int(os.environ.get("UBCHECK_CANON_FROM", "0")), max_level + 1):
            try:
                if level == 0 and model is not None:
                    m = model
                elif model_cache is not None:
                    if level not in model_cache:
                        model_cache[level] = Model(canon_level=level)
                    m = model_cache[level]
                else:
                    m = Model(canon_level=level)
            except AnalysisError as e:
                tried.append((level, "error", None, str(e), []))
                break
            log = m.canon_log
            if level > 0 and log == prev_log:
                continue  # this level changed nothing: same program as the previous variant
            prev_log = log
            status, ctx, note = _evaluate(pid, tier, m, quiet)
            tried.append((level, status, ctx, note, log))
            if status == "ok":
                break
    except Exception:
        print(f"ANALYSIS-ERROR property={pid} internal error:\n{traceback.format_exc()}")
        return 2
    oks = [t for t in tried if t[1] == "ok"]
    viols = [t for t in tried if t[1] == "violation"]
    level, status, ctx, note, log = oks[0] if oks else (viols[-1] if viols else tried[0])
    variants = {"variants_tried": [{"level": t[0], "status": t[1], "transformations": t[4],
                                    **({"note": (t[3] or "")[:300]} if t[3] else {})} for t in tried],
                "variant_used": level}
    if status == "error":
        last = tried[-1]
        more = f" | on the most canonical variant (level {last[0]}): {last[3]}" if last[0] != level and last[3] != note else ""
        print(f"ANALYSIS-ERROR property={pid} {note}{more}")
        return 2
    if level and not quiet:
        print(f"{pid}: verdict taken on canonical variant level {level} "
              f"({sum(sum(v for k, v in e.items() if k != 'module') for e in log)} equivalence rewrites in "
              f"{len(log)} module(s); statuses by level: {', '.join(f'{t[0]}={t[1]}' for t in tried)})")
    if note:
        print(f"ANALYSIS-NOTE property={pid} {note}")
    extra = {"canonicalisation": variants}
    if status == "ok" and tier == "thorough":
        from . import mutate
        mod = importlib.import_module(f"ubcheck.rules.{pid.lower()}")
        try:
            mextra, bad = mutate.adequacy(pid, mod, ctx)
        except Exception:
            print(f"ANALYSIS-ERROR property={pid} internal error:\n{traceback.format_exc()}")
            return 2
        extra.update(mextra or {})
        if bad:
            print(f"ANALYSIS-ERROR property={pid} mutation adequacy: {bad}")
            finish(ctx, t0, seed, extra)
            return 2
    try:
        return finish(ctx, t0, seed, extra)
    except Exception:
        print(f"ANALYSIS-ERROR property={pid} internal error:\n{traceback.format_exc()}")
        return 2


def main(argv=None):
    ap = argparse.ArgumentParser(prog="ubcheck")
    ap.add_argument("target", nargs="?")
    ap.add_argument("--tier", default=os.environ.get("VERIF_TIER", "quick"), choices=["quick", "thorough"])
    ap.add_argument("--replay")
    a = ap.parse_args(argv)
    if a.replay:
        with open(a.replay) as fh:
            rep = json.load(fh)
        return run_property(rep["property_id"], "quick")
    if a.target == "findings":
        for k in load_known():
            if k.get("status") == "fixed":
                print(f"fixed: property={k['property']} {k.get('commit', '?')} {k.get('what', '')}")
            else:
                print(f"known: property={k['property']} rule={k['rule']} instance={k['instance']} {k.get('what', '')}")
        return 0
    if a.target == "all":
        cache = {}
        rc = 0
        for pid in ALL:
            if os.path.exists(os.path.join(os.path.dirname(__file__), "rules", f"{pid.lower()}.py")):
                r = run_property(pid, a.tier, model_cache=cache)
                print(f"RESULT {pid} rc={r}")
                rc = max(rc, r)
        return rc
    if not a.target or a.target not in ALL:
        ap.error("give a property id C01..C20, 'all' or 'findings'")
    return run_property(a.target, a.tier)


if __name__ == "__main__":
    sys.exit(main())
