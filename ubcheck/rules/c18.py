"""C18 - staleness depends only on instants, not on time zone or naive/aware form (Z1-Z3).

Z2 types datetime expressions with the *frame* they live in: the normaliser's body is interpreted by the checker's
AST evaluator over abstract datetimes (nothing of uberjob or datetime is executed): an abstract value is either
aware-in-zone-Z or naive with wall clock = instant + sum(c_Z * utcoffset(Z)).  Comparison of two results is a
comparison of instants iff both are aware, or both are naive with all coefficients zero (naive UTC)."""
from __future__ import annotations

import ast

from ..absval import AbsRaise, Env, Interp, Native, Obj, Stub
from ..astq import arg, ext_names, is_name, loc, names_in, stmt_of
from ..model import AnalysisError, head, norm
from . import engine as E
from . import runrules as R


class Zone(Native):
    def __init__(self, name):
        self.name = name

    def __repr__(self):
        return f"tz:{self.name}"


UTC = Zone("UTC")
LOCAL = Zone("LOCAL")


class Offset(Native):
    """utcoffset of a zone times an integer coefficient."""

    def __init__(self, coefs):
        self.coefs = {k: v for k, v in coefs.items() if v}

    def __neg__(self):
        return Offset({k: -v for k, v in self.coefs.items()})


def _zone_of(tz):
    if isinstance(tz, Zone):
        return tz
    if isinstance(tz, Stub) and tz.name.startswith("datetime.timezone.utc"):
        return UTC
    if isinstance(tz, Stub) and tz.name in ("datetime.timezone.utc", "datetime.UTC"):
        return UTC
    if tz is None:
        return LOCAL
    raise AnalysisError(f"C18: zone expression {tz!r} outside the frame language")


class Delta(Native):
    """An abstract timedelta (only its presence matters)."""


class ADT(Native):
    """Abstract datetime denoting a fixed instant t (`inst` names the instant: the examined value or 'now')."""

    def __init__(self, zone=None, coefs=None, inst="value", fold_ok=True, extreme=False):
        self.extreme = extreme  # datetime.min / datetime.max: any shift leaves the representable range (OverflowError/ValueError)
        self.zone = zone  # Zone => aware; None => naive
        self.coefs = {k: v for k, v in (coefs or {}).items() if v}  # naive wall clock = t + sum(c * off(zone))
        self.inst = inst
        self.fold_ok = fold_ok  # False: produced by arithmetic on a naive value (fold is always 0 then)

    @property
    def tzinfo(self):
        return self.zone

    def astimezone(self, tz=None):
        if self.extreme:
            from ..absval import AbsRaise as _AR
            raise _AR("OverflowError: date value out of range")
        if tz is None:
            # fixed-offset zone holding the local offset *at this instant*
            z = Zone(f"LOCALFIXED@{self.inst}")
            if self.zone is None and self.coefs == {"LOCAL": 1} and self.fold_ok:
                return ADT(zone=z, inst=self.inst)
            if self.zone is not None:
                return ADT(zone=z, coefs=self.coefs, inst=self.inst)
        z = _zone_of(tz)
        if self.zone is None:
            if not self.fold_ok:
                return ADT(zone=z, coefs={"__fold_lost__": 1}, inst=self.inst)
            # a naive value is read as local time (fold honoured): exact iff its wall clock is t + off(LOCAL)
            if self.coefs != {"LOCAL": 1}:
                return ADT(zone=z, coefs={"__shifted__": 1, **self.coefs, "LOCAL": self.coefs.get("LOCAL", 0) - 1}, inst=self.inst)
            return ADT(zone=z, inst=self.inst)
        return ADT(zone=z, coefs=self.coefs, inst=self.inst)

    def replace(self, **kw):
        if self.extreme and set(kw) == {"tzinfo"}:
            return ADT(None if kw["tzinfo"] is None else _zone_of(kw["tzinfo"]), self.coefs, self.inst, self.fold_ok, extreme=True)
        if set(kw) != {"tzinfo"}:
            raise AnalysisError("C18: replace() with fields other than tzinfo is outside the frame language")
        tz = kw["tzinfo"]
        if tz is None:
            if self.zone is None:
                return ADT(None, self.coefs, self.inst, self.fold_ok)
            c = dict(self.coefs)
            if self.zone is not UTC:
                zn = "LOCAL" if self.zone.name == f"LOCALFIXED@{self.inst}" else self.zone.name
                c[zn] = c.get(zn, 0) + 1
            # the wall clock of an aware value carries fold=0 (astimezone() attaches a fixed offset, it does not set fold): a naive
            # zone-dependent wall clock made from it is ambiguous in the hour the clocks go back; naive UTC has no such hour
            return ADT(None, c, self.inst, fold_ok=not {k: v for k, v in c.items() if v})
        z = _zone_of(tz)
        if self.zone is None:
            # wall clock kept, zone attached: instant moves unless the wall clock already is t + off(z) at this instant
            c = dict(self.coefs)
            if z is not UTC:
                zn = "LOCAL" if z.name == f"LOCALFIXED@{self.inst}" else z.name
                c[zn] = c.get(zn, 0) - 1
            if not self.fold_ok:
                c["__fold_lost__"] = 1
            return ADT(zone=z, coefs=c, inst=self.inst)
        return ADT(zone=z, coefs=self.coefs, inst=self.inst)

    def utcoffset(self):
        if self.zone is None:
            return None
        return Offset({} if self.zone is UTC else {self.zone.name: 1})

    def __sub__(self, o):
        if isinstance(o, Offset):
            c = dict(self.coefs)
            for k, v in o.coefs.items():
                c[k] = c.get(k, 0) - v
            return ADT(self.zone, c, self.inst, self.fold_ok)
        if isinstance(o, Delta):
            return ADT(self.zone, self.coefs, self.inst, fold_ok=self.zone is not None and self.fold_ok)
        raise AnalysisError("C18: datetime arithmetic outside the frame language")

    def __add__(self, o):
        if isinstance(o, Delta):
            return self.__sub__(o)
        if isinstance(o, Offset):
            return self.__sub__(-o)
        raise AnalysisError("C18: datetime arithmetic outside the frame language")

    def frame(self):
        shifted = {k: v for k, v in self.coefs.items() if v}
        if self.zone is not None:
            return ("aware", tuple(sorted(shifted.items())))
        return ("naive", tuple(sorted(shifted.items())))

    def describe(self):
        kind, sh = self.frame()
        if not self.fold_ok and self.zone is None:
            return "naive with fold lost (result of arithmetic on a naive value: always fold=0)"
        if kind == "aware":
            return "aware (instant preserved)" if not sh else f"aware but shifted by {dict(sh)}"
        if not sh:
            return "naive UTC"
        if dict(sh) == {"LOCAL": 1}:
            return "naive local"
        return f"naive, wall clock = instant + {dict(sh)} x utcoffset"


def _now(tz=None):
    return ADT(None, {"LOCAL": 1}, inst="now") if tz is None else ADT(_zone_of(tz), inst="now")


def _fromtimestamp(t, tz=None):
    return ADT(None, {"LOCAL": 1}) if tz is None else ADT(_zone_of(tz))


def _from_fields(a, k):
    if len(a) >= 6 and all(isinstance(x, tuple) and x[:1] == ("LT",) for x in a[:6]) and [x[1] for x in a[:6]] == list(range(6)) \
            and not k.get("tzinfo") and "fold" not in k:
        return ADT(None, {"LOCAL": 1}, fold_ok=False)
    raise AnalysisError("C18: datetime(...) constructed from fields outside the frame language")


DT_EXT = {
    "datetime.datetime.now": _now,
    "datetime.datetime.fromtimestamp": _fromtimestamp,
    "datetime.datetime.utcfromtimestamp": lambda t: ADT(None, {}),
    "datetime.datetime.utcnow": lambda: ADT(None, {}, inst="now"),
    "datetime.timedelta": lambda *a, **k: Delta(),
    "datetime.timezone.utc": None,
    # time.localtime(t)[:6] fed to the datetime constructor: the wall clock of t in local time, but fold is always 0
    "time.localtime": lambda t=None: tuple(("LT", i) for i in range(9)),
    "datetime.datetime": lambda *a, **k: _from_fields(a, k),
    "os.path.getmtime": lambda p: 1234.5,
    "os.stat": lambda p: Obj(None, {"st_mtime": 1234.5, "st_mtime_ns": 1234500000000}),
    "builtins.divmod": lambda a, b: divmod(a, b),
    "builtins.int": int, "builtins.float": float,
}


def rule_normaliser_frames(ctx, rid):
    """Z2: frame typing of the normaliser (also a premise of the staleness table: it must be order preserving)."""
    m = ctx.model
    nf = m.one_func("_to_naive_utc_time", "NORMALISER")
    # ---------------------------------------------------------------- Z2
    Z = Zone("Z")
    inputs = {"None": None, "naive-local": ADT(None, {"LOCAL": 1}), "aware-Z": ADT(Z), "aware-UTC": ADT(UTC), "aware-LOCAL": ADT(LOCAL)}
    outs = {}
    for name, v in inputs.items():
        interp = Interp(m, ext=DT_EXT)
        try:
            outs[name] = interp.call_func(nf, None, [v], {})
        except AbsRaise as e:
            outs[name] = ("raises", e.value)
    ctx.notes["normaliser_frames"] = {k: (v.describe() if isinstance(v, ADT) else repr(v)) for k, v in outs.items()}
    ok = outs["None"] is None
    ctx.ob(rid, f"{nf.short}/None", ok, loc(nf), "None -> None" if ok else f"None -> {outs['None']!r}")
    decos = nf.decorator_names()
    ctx.ob(rid, f"{nf.short}/not-memoised", not decos, loc(nf),
           "the normaliser is a plain function" if not decos else
           f"the normaliser is wrapped by @{decos[0]}: a cache keyed on datetime equality conflates fold=0 and fold=1 (naive "
           f"equality and hash ignore fold), so the two passes of a repeated hour share one result")
    frames = {}
    for k in ("naive-local", "aware-Z", "aware-UTC", "aware-LOCAL"):
        o = outs[k]
        if not isinstance(o, ADT):
            ctx.ob(rid, f"{nf.short}/{k}", False, loc(nf), f"{k} input -> {o!r} (not a datetime)")
            continue
        kind, sh = o.frame()
        good = not sh
        frames[k] = kind if good else (kind, sh)
        ctx.ob(rid, f"{nf.short}/{k}", good, loc(nf),
               f"{k} input -> {o.describe()}" if good else
               f"{k} input -> {o.describe()}: the result does not denote the input's instant on the UTC time line, so "
               f"comparisons depend on the process time zone", k)
    # sentinel values at the edge of the range (datetime.min / datetime.max as 'always older' / 'always newer') cannot be
    # shifted; the normaliser must hand back a naive value for them instead of raising (they order correctly as they are)
    for k, v in (("naive-extreme", ADT(None, {"LOCAL": 1}, extreme=True)), ("aware-extreme", ADT(UTC, extreme=True))):
        interp = Interp(m, ext=DT_EXT)
        try:
            o = interp.call_func(nf, None, [v], {})
            good = isinstance(o, ADT) and o.zone is None
            why = f"{k} input -> {'a naive value' if good else repr(o)}"
        except AbsRaise as e:
            good = False
            why = (f"{k} input (datetime.min / datetime.max) -> raises {e.value!r}: a run with such a fresh_time or modified time "
                   f"fails instead of comparing it")
        ctx.ob(rid, f"{nf.short}/{k}", good, loc(nf), why, k)
    kinds = set(frames.values())
    ok = len(kinds) == 1 and all(isinstance(x, str) for x in kinds)
    ctx.ob(rid, f"{nf.short}/one-frame", ok, loc(nf),
           f"all inputs land in one frame: {sorted(map(str, kinds))}" if ok else
           f"inputs land in different frames {ctx.notes['normaliser_frames']}: naive and aware values are compared on "
           f"different time lines (or the comparison raises)")


def rule_store_time_frames(ctx, rid):
    m = ctx.model
    # ---------------------------------------------------------------- Z3
    n_ctor = 0
    fs_mod = [mod for mod in m.modules.values() if mod.name == "uberjob.stores._file_store"]
    helpers = [f for f in m.find_funcs("get_modified_time") if f.cls is None and f.module.name.startswith("uberjob.stores")]
    for f in helpers:
        n_ctor += 1
        interp = Interp(m, ext=DT_EXT)
        try:
            out = interp.call_func(f, None, ["/some/path"], {})
        except AbsRaise as e:
            raise AnalysisError(f"C18.Z3: evaluating {f.qualname} raised {e.value!r}")
        if isinstance(out, ADT):
            kind, sh = out.frame()
            ok = out.fold_ok and ((kind == "naive" and dict(sh) == {"LOCAL": 1}) or (kind == "aware" and not sh))
            ctx.ob(rid, f"{f.short}/frame", ok, loc(f),
                   f"bundled file stores report {out.describe()}" if ok else
                   f"bundled file stores report a modified time that is {out.describe()}: the stale check reads naive values as local time "
                   f"(fold honoured), so this value denotes another instant than the file's mtime")
        else:
            ctx.ob(rid, f"{f.short}/frame", False, loc(f), f"get_modified_time of an existing path evaluates to {out!r}")
    # ... and what the store *methods* built on those helpers hand to the stale check
    from ..absval import Obj as _Obj
    for cls in m.classes.values():
        meth = cls.methods.get("get_modified_time")
        if meth is None or not cls.module.name.startswith("uberjob.stores") or not meth.pos_params:
            continue
        if not any(h in m.callee_funcs(meth, c) for c in meth.own_calls() for h in helpers):
            continue
        n_ctor += 1
        interp = Interp(m, ext=DT_EXT)
        try:
            out = interp.call_func(meth, None, [], {}, bound_self=_Obj(cls, {"path": "/some/path"}))
        except AbsRaise as e:
            raise AnalysisError(f"C18.Z3: evaluating {meth.qualname} raised {e.value!r}")
        if isinstance(out, ADT):
            kind, sh = out.frame()
            ok = out.fold_ok and ((kind == "naive" and dict(sh) == {"LOCAL": 1}) or (kind == "aware" and not sh))
            ctx.ob(rid, f"{meth.short}/frame", ok, loc(meth),
                   f"{cls.name}.get_modified_time reports {out.describe()}" if ok else
                   f"{cls.name}.get_modified_time reports {out.describe()}" + ("" if out.fold_ok else " whose fold is always 0 (made from an aware value "
                   "by dropping the zone)") + ": the stale check reads naive values as local time (fold honoured), so in the hour the clocks "
                   "go back this value denotes another instant than the file's mtime")
        else:
            ctx.ob(rid, f"{meth.short}/frame", False, loc(meth), f"get_modified_time of an existing path evaluates to {out!r}")
    for f in m.funcs.values():
        if not f.module.name.startswith("uberjob.stores"):
            continue
        for c in f.own_calls():
            for n in ext_names(m, f, c):
                last = n.split(".")[-1]
                if n.startswith("datetime.") and last in ("utcfromtimestamp", "utcnow"):
                    n_ctor += 1
                    ctx.ob(rid, f"{f.short}/{last}", False, loc(f, c),
                           f"{last} yields naive UTC, which the stale check reads as local time", norm(c))
    ctx.floor(rid, "modified-time constructions in bundled stores", n_ctor, 1)


def check(ctx):
    m = ctx.model
    ctx.rule("C18.Z1", "every datetime reaching a staleness comparison (fresh_time, every get_modified_time result) passes through the normaliser first; no other datetime is synthesised in the stale check")
    ctx.rule("C18.Z2", "frame typing of the normaliser by abstract evaluation: None -> None; naive-local and aware(any zone) inputs land in one frame in which comparison compares instants (aware, or naive UTC)")
    ctx.rule("C18.Z3", "bundled stores construct modified times as naive-local (fromtimestamp(t)) or aware values, never naive-UTC (utcfromtimestamp/utcnow)")
    ctx.trust("datetime: x.astimezone(tz) preserves the instant and reads a naive x as local time honouring fold; x.replace(tzinfo=None) keeps the wall-clock fields; utcoffset() is None for naive values; fromtimestamp(t) is naive local")
    er = E.discover(m)
    rr = R.discover(m, er)
    nf = m.one_func("_to_naive_utc_time", "NORMALISER")
    ctx.run(rule_normaliser_frames, "C18.Z2")
    # ---------------------------------------------------------------- Z1
    st = rr.stale
    ft = [p for p in st.params if "fresh" in p]
    if len(ft) != 1:
        raise AnalysisError("C18.Z1: fresh_time parameter of the stale check not found")
    ft = ft[0]
    binds = [b for b in st.bindings.get(ft, []) if b[0] != "param"]
    ok = len(binds) == 1 and binds[0][0] == "assign" and isinstance(binds[0][1], ast.Call) and nf in m.callee_funcs(st, binds[0][1]) \
        and len(binds[0][1].args) == 1 and is_name(binds[0][1].args[0], ft)
    if not binds:
        # the parameter keeps the caller's value: then every read of it must be the argument of the normaliser
        # (the normalised value lives under another name)
        loads = []
        for f_ in [st] + list(rr.stale_closures):
            if f_ is not st and ft in f_.params:
                continue
            for n_ in f_.own_nodes():
                if isinstance(n_, ast.Name) and n_.id == ft and isinstance(n_.ctx, ast.Load):
                    par = f_.module.parent.get(n_)
                    loads.append(isinstance(par, ast.Call) and par in f_.own_calls() and nf in m.callee_funcs(f_, par) and par.args and par.args[0] is n_)
        ok_alt = bool(loads) and all(loads)
        ctx.ob("C18.Z1", f"{st.short}/{ft}-normalised", ok_alt, loc(st), f"every read of {ft} is normaliser({ft})" if ok_alt else
               f"{ft} is not normalised (or rebound otherwise) before use")
        ok = None
    if ok is not None:
        ctx.ob("C18.Z1", f"{st.short}/{ft}-normalised", ok, loc(st), f"{ft} = normaliser({ft}) is its only rebinding" if ok else
               f"{ft} is not normalised (or rebound otherwise) before use")
    if ok:
        # the normalisation precedes the definition of the closures that use it and the engine call
        # order by position in the function body (line numbers of inlined/moved code say nothing about execution order)
        def top_index(node):
            for i_, top in enumerate(st.node.body):
                if top is node or any(x is node for x in ast.walk(top)):
                    return i_
            return -1
        at = top_index(binds[0][1])
        engine_calls = [c for c in st.own_calls() if rr.er.engine in m.callee_funcs(st, c)]
        later = bool(engine_calls) and all(top_index(c) > at for c in engine_calls)
        uses_before = [n for n in st.own_nodes() if isinstance(n, ast.Name) and n.id == ft and isinstance(n.ctx, ast.Load)
                       and 0 <= top_index(n) < at]
        ctx.ob("C18.Z1", f"{st.short}/{ft}-normalised-first", later and not uses_before, loc(st), "normalised before any use")
    # fresh_time reaches the stale check unmodified from run
    for caller, callee in ((rr.run, rr.apply), (rr.apply, st)):
        for c in R.calls_to(m, caller, callee):
            a = arg(c, None, ft)
            okf = a is not None and isinstance(a, ast.Name) and a.id == ft
            ctx.ob("C18.Z1", f"{caller.short} -> {callee.short}/{ft}", okf, loc(caller, c), f"{ft} forwarded" if okf else
                   f"{ft} is not forwarded unchanged", norm(c)[:80])
        rb = [b for b in caller.bindings.get(ft, []) if b[0] != "param"]
        ctx.ob("C18.Z1", f"{caller.short}/{ft}-untouched", not rb, loc(caller),
               f"{ft} is not rebound before it reaches the normaliser" if not rb else
               f"{ft} is converted before it reaches the normaliser (`{norm(rb[0][1])[:60]}`): a second conversion (e.g. to naive local "
               f"time, which drops fold) changes the instant it denotes")
    n_mt = 0
    for f in [st] + list(rr.stale_closures):
        for node in f.own_nodes():
            if isinstance(node, ast.Attribute) and node.attr == "get_modified_time":
                n_mt += 1
                p = node
                chain_ok = False
                for _ in range(4):
                    p = f.module.parent.get(p)
                    if isinstance(p, ast.Call) and nf in m.callee_funcs(f, p) and p in f.own_calls():
                        chain_ok = True
                        break
                    if not isinstance(p, ast.Call):
                        break
                ctx.ob("C18.Z1", f"{f.short}/modified-time-normalised", chain_ok, loc(f, node),
                       "the store's modified time is passed straight to the normaliser" if chain_ok else
                       "a store's modified time reaches the comparison without normalisation", norm(stmt_of(f.module, node))[:120])
        for c in f.own_calls():
            names = ext_names(m, f, c)
            synth = {n for n in names if n.startswith("datetime.") and n.split(".")[-1] in ("now", "utcnow", "today", "fromtimestamp", "utcfromtimestamp", "datetime")}
            if synth:
                ctx.ob("C18.Z1", f"{f.short}/synthesised-datetime", False, loc(f, c),
                       f"a datetime is synthesised inside the stale check ({sorted(synth)[0]})", norm(c))
    ctx.floor("C18.Z1", "modified-time query sites", n_mt, 1)
    rule_store_time_frames(ctx, "C18.Z3")
    # user-supplied datetimes pass through unchanged
    for cname in ("LiteralSource", "ModifiedTimeSource"):
        cls = m.one_class(cname, "Z3")
        g = cls.methods.get("get_modified_time")
        rets = [n for n in g.own_nodes() if isinstance(n, ast.Return)]
        ok = len(rets) == 1 and norm(rets[0].value) == "self.modified_time"
        init = cls.methods["__init__"]
        ok = ok and any(isinstance(n, ast.Assign) and norm(n.targets[0]) == "self.modified_time" and norm(n.value) == "modified_time" for n in init.own_nodes())
        # ... and `modified_time` still is the caller's object at that point (the parameter is never rebound/converted)
        ok = ok and not [b for b in init.bindings.get("modified_time", []) if b[0] != "param"]
        ok = ok and sum(1 for n in init.own_nodes() if isinstance(n, ast.Attribute) and isinstance(n.ctx, ast.Store) and n.attr == "modified_time") == 1
        ctx.ob("C18.Z3", f"{cname}/identity", ok, loc(g), "user-supplied modified time is returned unchanged" if ok else
               "user-supplied modified time is altered")
