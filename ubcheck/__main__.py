"""CLI:  python -m ubcheck C07 [--tier quick|thorough]   |   python -m ubcheck --replay <report.json>
         python -m ubcheck all [--tier ...]               |   python -m ubcheck findings
Exit: 0 = every obligation discharged, 1 = violation (VIOLATION line printed), 2 = ANALYSIS-ERROR."""
from __future__ import annotations

import argparse
import importlib
import json
import os
import sys
import time
import traceback

from .model import AnalysisError, Model
from .report import Ctx, finish, load_known

ALL = [f"C{i:02d}" for i in range(1, 21)]


def run_property(pid, tier, model=None, quiet=False, write=True):
    t0 = time.time()
    seed = int(os.environ.get("VERIF_SEED", "0") or 0)
    ctx = None
    try:
        if model is None:
            model = Model()
        ctx = Ctx(pid, model, tier, quiet=quiet)
        mod = importlib.import_module(f"ubcheck.rules.{pid.lower()}")
        try:
            mod.check(ctx)
        except AnalysisError as e:
            # a rule could not finish; if other rules already found violations, report those (exit 1) and
            # mention the incomplete analysis - otherwise this is exit 2
            if not ctx.findings:
                raise
            print(f"ANALYSIS-NOTE property={pid} analysis incomplete after the findings below: {e}")
            return finish(ctx, t0, seed, {"incomplete": str(e)})
        if ctx.errors:
            if not ctx.findings:
                raise AnalysisError("; ".join(ctx.errors))
            print(f"ANALYSIS-NOTE property={pid} some rules could not finish: {'; '.join(ctx.errors)[:400]}")
        extra = None
        if tier == "thorough":
            from . import mutate
            extra, bad = mutate.adequacy(pid, mod, ctx)
            if bad and not ctx.findings:
                print(f"ANALYSIS-ERROR property={pid} mutation adequacy: {bad}")
                finish(ctx, t0, seed, extra)
                return 2
        return finish(ctx, t0, seed, extra)
    except AnalysisError as e:
        print(f"ANALYSIS-ERROR property={pid} {e}")
        return 2
    except Exception:  # any crash of the checker is an analysis error, never a violation
        print(f"ANALYSIS-ERROR property={pid} internal error:\n{traceback.format_exc()}")
        return 2


def main(argv=None):
    ap = argparse.ArgumentParser(prog="ubcheck")
    ap.add_argument("target", nargs="?")
    ap.add_argument("--tier", default=os.environ.get("VERIF_TIER", "quick"), choices=["quick", "thorough"])
    ap.add_argument("--replay")
    a = ap.parse_args(argv)
    if a.replay:
        with open(a.replay) as fh:
            rep = json.load(fh)
        return run_property(rep["property_id"], "quick")
    if a.target == "findings":
        for k in load_known():
            if k.get("status") == "fixed":
                print(f"fixed: property={k['property']} {k.get('commit', '?')} {k.get('what', '')}")
            else:
                print(f"known: property={k['property']} rule={k['rule']} instance={k['instance']} {k.get('what', '')}")
        return 0
    if a.target == "all":
        model = Model()
        rc = 0
        for pid in ALL:
            if os.path.exists(os.path.join(os.path.dirname(__file__), "rules", f"{pid.lower()}.py")):
                rc = max(rc, run_property(pid, a.tier, model))
        return rc
    if not a.target or a.target not in ALL:
        ap.error("give a property id C01..C20, 'all' or 'findings'")
    return run_property(a.target, a.tier)


if __name__ == "__main__":
    sys.exit(main())
