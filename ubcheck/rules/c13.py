"""C13 - run, dry_run and render never modify the Plan or Registry they are given (M1-M6)."""
from __future__ import annotations

import ast

from ..astq import arg, const, ext_names, inside, is_name, loc, names_in, stmt_of
from ..cfg import CFG, any_call_may_raise, reaching_defs
from ..model import AnalysisError, Func, head, norm
from .common import GRAPH_MUTATORS
from . import engine as E
from . import roles
from . import runrules as R

PLAN_MUTATING = {"call", "lit", "gather", "add_dependency", "unpack", "scope"}  # + every private method of Plan (plan_mutating())


def plan_mutating(m):
    """Method names through which a Plan is modified: every method of Plan except its copy."""
    return PLAN_MUTATING | {n for n in roles.plan_class(m).methods if n not in ("copy", "__copy__", "__init__", "__repr__")}
PLAN_PURE = {"copy", "__copy__"}
REGISTRY_MUTATING = {"add", "source"}
REGISTRY_PURE = {"get", "keys", "values", "items", "copy", "__contains__", "__getitem__", "__iter__", "__len__"}
DICT_MUTATORS = {"pop", "popitem", "update", "clear", "setdefault", "__setitem__", "__delitem__"}
VALIDATORS = {"assert_is_instance", "assert_is_callable", "isinstance", "type", "id", "bool", "len", "repr", "str"}
NODE_ATTRS = {"scope", "fn", "stack_frame", "is_source", "value_store", "index", "name", "outer", "line", "path"}


def is_copy_expr(m, f, e, var, consts):
    """Does expression `e` evaluate to a copy of (the object bound to) `var`?"""
    if isinstance(e, ast.Call):
        if isinstance(e.func, ast.Attribute) and e.func.attr == "copy" and var in names_in(e.func.value):
            return True
        for g in m.callee_funcs(f, e):
            if roles.is_mutable_plan_func(m, g) and e.args and is_name(e.args[0], var):
                ip = arg(e, 1, "inplace")
                if isinstance(ip, ast.Constant):
                    return ip.value is False
                if isinstance(ip, ast.Name) and ip.id in consts:
                    return consts[ip.id] is False
                return False
    return False


def owned_uses(ctx, rid, m, f, var, kind, consts, chain, depth=0, seen=None, owned_defs=None):
    """Report every use of the caller-owned object bound to parameter `var` of `f` that may mutate it."""
    seen = seen if seen is not None else set()
    key = (f, var, tuple(sorted(consts.items())))
    if key in seen or depth > 6:
        return 0
    seen.add(key)
    g = CFG(f, may_raise=lambda n: False)
    rd = reaching_defs(g, var)

    def is_owned_def(d):
        """the caller's object enters `var` here: the parameter itself, or (for a local alias) the aliasing assignment"""
        if owned_defs is None:
            return d is g.entry
        return d.ast is not None and any(d.ast is a for a in owned_defs)
    mutating = plan_mutating(m) if kind == "plan" else REGISTRY_MUTATING if kind == "registry" else set()
    n_uses = 0
    mod = f.module
    if kind == "registry":
        # objects obtained from the registry's mapping are registry entries: they are owned by the caller as well
        entry_vars = set()
        for nm, bs in f.bindings.items():
            for k, e, p_ in bs:
                if e is not None and k in ("assign", "iter") and var in names_in(e) and "mapping" in norm(e):
                    entry_vars.add(nm)
        for ev in sorted(entry_vars):
            n_uses += owned_entry_uses(ctx, rid, m, f, ev, chain + [f"{f.short}.{var}"], depth, seen)
        # closures of f that see the registry: entries they fetch are the caller's too
        for g_ in f.all_nested():
            if isinstance(g_.node, ast.Lambda) or m.binding_scope(g_, var) is not f:
                continue
            evs = set()
            for nm, bs in g_.bindings.items():
                for k, e, p_ in bs:
                    if e is not None and k in ("assign", "iter") and var in names_in(e) and ("mapping" in norm(e) or f"{var}[" in norm(e)):
                        evs.add(nm)
            for ev in sorted(evs):
                n_uses += owned_entry_uses(ctx, rid, m, g_, ev, chain + [f"{f.short}.{var}"], depth, seen)
            for node in g_.own_nodes():
                # direct stores through the mapping inside the closure
                if isinstance(node, ast.Attribute) and isinstance(node.ctx, (ast.Store, ast.Del)) and var in names_in(node.value) and "mapping" in norm(node.value):
                    n_uses += 1
                    ctx.ob(rid, " -> ".join(chain + [f"{g_.short}.{var}"]), False, loc(g_, node),
                           f"attribute .{node.attr} of an entry of the caller's registry is assigned", norm(stmt_of(g_.module, node))[:100])
    for node in f.own_nodes():
        if not (isinstance(node, ast.Name) and node.id == var and isinstance(node.ctx, ast.Load)):
            continue
        st = stmt_of(mod, node)
        cn = g.of(st)
        if not cn:
            cn = g.of_stmt_containing(node, mod)
        # is the caller's object (the parameter definition) among the reaching definitions here?
        owned = False
        for c in cn:
            for d in rd[c]:
                if is_owned_def(d):
                    owned = True
                elif isinstance(d.ast, ast.Assign) and not is_copy_expr(m, f, d.ast.value, var, consts) and var in names_in(d.ast.value):
                    # alias-preserving rebinding (e.g. `plan = plan if inplace else plan.copy()`)
                    v = d.ast.value
                    if isinstance(v, ast.IfExp) and isinstance(v.test, ast.Name) and v.test.id in consts:
                        chosen = v.body if consts[v.test.id] else v.orelse
                        if is_name(chosen, var):
                            owned = owned or any(is_owned_def(x) for x in rd[d])
                    else:
                        owned = owned or any(is_owned_def(x) for x in rd[d])
        if not owned:
            continue
        n_uses += 1
        p = mod.parent.get(node)
        where = loc(f, node)
        inst = " -> ".join(chain + [f"{f.short}.{var}"])
        if isinstance(p, ast.Attribute) and p.value is node:
            pp = mod.parent.get(p)
            if isinstance(pp, ast.Call) and pp.func is p:
                ok = p.attr not in mutating
                ctx.ob(rid, inst, ok, where, f"non-mutating method .{p.attr}()" if ok else
                       f"the caller's {kind} is modified by .{p.attr}() before/without a copy", norm(st)[:120])
                continue
            if p.attr == "graph" and kind == "plan":
                ok, why = graph_use_ok(mod, p)
                ctx.ob(rid, inst, ok, where, why, norm(st)[:120])
                continue
            if p.attr == "mapping" and kind == "registry":
                ok, why = mapping_use_ok(mod, p)
                ctx.ob(rid, inst, ok, where, why, norm(st)[:120])
                pp_ = mod.parent.get(p)
                if ok and isinstance(pp_, (ast.Assign, ast.AnnAssign)) and pp_.value is p:
                    tg_ = pp_.targets[0] if isinstance(pp_, ast.Assign) and len(pp_.targets) == 1 else getattr(pp_, "target", None)
                    if isinstance(tg_, ast.Name):
                        # a local name for the caller's mapping: it is the caller's dict - follow it
                        n_uses += mapping_alias_uses(ctx, rid, m, f, tg_.id, pp_, chain + [f"{f.short}.{var}"], depth, seen)
                    else:
                        ctx.ob(rid, inst, False, where, f"the caller's registry mapping is stored into `{norm(tg_) if tg_ is not None else '?'}`", norm(st)[:120])
                continue
            if isinstance(p.ctx, ast.Store):
                ctx.ob(rid, inst, False, where, f"attribute .{p.attr} of the caller's {kind} is assigned", norm(st)[:120])
                continue
            ctx.ob(rid, inst, True, where, f"attribute read .{p.attr}", norm(st)[:120])
            continue
        if isinstance(p, (ast.Call, ast.keyword)):
            call = p if isinstance(p, ast.Call) else mod.parent.get(p)
            if isinstance(call, ast.Call) and node is not call.func:
                fn_names = {g_.name for g_ in m.callee_funcs(f, call)} | {x.split(".")[-1] for x in ext_names(m, f, call)}
                if fn_names & VALIDATORS:
                    ctx.ob(rid, inst, True, where, "validation only", norm(call)[:100])
                    continue
                if is_copy_expr(m, f, call, var, consts):
                    ctx.ob(rid, inst, True, where, "argument of the copy", norm(call)[:100])
                    continue
                targets = m.callee_funcs(f, call)
                shift = 0
                if not targets and "functools.partial" in ext_names(m, f, call) and call.args and node is not call.args[0]:
                    # partial(g, ..., x): the caller's object becomes an argument of every later call of g
                    for o_ in m.origins_of(f, call.args[0]):
                        targets |= m._funcs_of_origin(o_)
                    shift = 1
                if not targets:
                    ur = sorted(fn_names) or [norm(call.func)]
                    ctx.ob(rid, inst, False, where, f"the caller's {kind} is handed to `{ur[0]}` (not a repo function with an empty effect on it)", norm(call)[:120])
                    continue
                for tg in targets:
                    # which parameter?
                    pname = None
                    if isinstance(p, ast.keyword):
                        pname = p.arg
                    else:
                        idx = call.args.index(node) - shift
                        ps = tg.pos_params[1:] if (tg.cls is not None and not isinstance(call.func, ast.Name)) else tg.pos_params
                        pname = ps[idx] if idx < len(ps) else None
                    if pname is None:
                        ctx.ob(rid, inst, False, where, f"cannot bind the {kind} argument in `{norm(call)[:80]}`")
                        continue
                    c2 = {}
                    for kw in call.keywords:
                        if kw.arg and isinstance(kw.value, ast.Constant):
                            c2[kw.arg] = kw.value.value
                        elif kw.arg and isinstance(kw.value, ast.Name) and kw.value.id in consts:
                            c2[kw.arg] = consts[kw.value.id]
                    n_uses += owned_uses(ctx, rid, m, tg, pname, kind, c2, chain + [f"{f.short}.{var}"], depth + 1, seen)
                continue
        if isinstance(p, (ast.Compare, ast.BoolOp, ast.If, ast.IfExp, ast.UnaryOp, ast.While)):
            ctx.ob(rid, inst, True, where, "truthiness / membership test", norm(st)[:100])
            continue
        if isinstance(p, ast.Return) or isinstance(p, ast.Tuple):
            ctx.ob(rid, inst, True, where, "returned unchanged", norm(st)[:100])
            continue
        if isinstance(p, ast.Assign):
            if len(p.targets) == 1 and isinstance(p.targets[0], ast.Name) and p.value is node and p.targets[0].id != var:
                # a plain local alias: the alias is the caller's object too - follow it
                ctx.ob(rid, inst, True, where, f"local alias `{p.targets[0].id}` (followed)", norm(st)[:100])
                n_uses += owned_uses(ctx, rid, m, f, p.targets[0].id, kind, consts, chain + [f"{f.short}.{var}"], depth + 1, seen, owned_defs=[p])
                continue
            ctx.ob(rid, inst, False, where, f"the caller's {kind} is aliased into `{norm(p.targets[0])}`", norm(st)[:100])
            continue
        if isinstance(p, ast.comprehension) or isinstance(p, (ast.For,)):
            ctx.ob(rid, inst, True, where, "iteration", norm(st)[:100])
            continue
        ctx.ob(rid, inst, True, where, f"read-only position ({type(p).__name__})", norm(st)[:100])
    return n_uses


SAFE_DICT_READERS = {"len", "list", "tuple", "set", "frozenset", "sorted", "iter", "dict", "bool", "any", "all", "sum", "min", "max", "enumerate",
                     "reversed", "isinstance", "id", "repr", "str"}


def mapping_alias_uses(ctx, rid, m, f, alias, binding_stmt, chain, depth, seen):
    """`alias = registry.mapping`: every later use of `alias` in f must leave the caller's dict (and its entries) untouched."""
    key = (f, alias, "mapping-alias")
    if key in seen:
        return 0
    seen.add(key)
    mod = f.module
    inst = " -> ".join(chain + [f"{f.short}.{alias}"])
    rebinds = [n for n in f.own_nodes() if isinstance(n, ast.Name) and n.id == alias and isinstance(n.ctx, (ast.Store, ast.Del))]
    n = 0
    if len(rebinds) != 1:
        ctx.ob(rid, inst, False, loc(f, binding_stmt), f"`{alias}` (the caller's registry mapping) is rebound: cannot follow it", norm(binding_stmt)[:100])
        return 1
    scopes = [f] + [g for g in f.all_nested() if m.binding_scope(g, alias) is f]
    for g in scopes:
        for node in g.own_nodes():
            if not (isinstance(node, ast.Name) and node.id == alias and isinstance(node.ctx, ast.Load)):
                continue
            n += 1
            p = g.module.parent.get(node)
            st = stmt_of(g.module, node)
            where = loc(g, node)
            if isinstance(p, ast.Attribute) and p.value is node:
                ok = p.attr not in DICT_MUTATORS
                ctx.ob(rid, inst, ok, where, f"mapping query .{p.attr}" if ok else f"the caller's registry mapping is modified by .{p.attr}() through the local name `{alias}`", norm(st)[:120])
                if ok and p.attr in ("values", "items", "get"):
                    for nm, bs in g.bindings.items():
                        for k_, e_, p_ in bs:
                            if e_ is not None and k_ in ("assign", "iter") and any(x is p for x in ast.walk(e_)):
                                n += owned_entry_uses(ctx, rid, m, g, nm, chain + [f"{f.short}.{alias}"], depth, seen)
                continue
            if isinstance(p, ast.Subscript) and p.value is node:
                bad = isinstance(p.ctx, (ast.Store, ast.Del))
                pp = g.module.parent.get(p)
                bad2 = isinstance(pp, ast.Attribute) and isinstance(pp.ctx, (ast.Store, ast.Del))
                ctx.ob(rid, inst, not (bad or bad2), where, "mapping entry read" if not (bad or bad2) else
                       f"an entry of the caller's registry mapping is assigned/deleted through the local name `{alias}`", norm(st)[:120])
                if not (bad or bad2):
                    for nm, bs in g.bindings.items():
                        for k_, e_, p_ in bs:
                            if e_ is not None and k_ == "assign" and any(x is p for x in ast.walk(e_)):
                                n += owned_entry_uses(ctx, rid, m, g, nm, chain + [f"{f.short}.{alias}"], depth, seen)
                continue
            if isinstance(p, (ast.Call, ast.keyword)):
                call = p if isinstance(p, ast.Call) else g.module.parent.get(p)
                nm = norm(call.func).split(".")[-1] if isinstance(call, ast.Call) else ""
                ok = nm in SAFE_DICT_READERS and not m.callee_funcs(g, call)
                ctx.ob(rid, inst, ok, where, f"read-only builtin {nm}()" if ok else
                       f"the caller's registry mapping is handed to `{norm(call.func) if isinstance(call, ast.Call) else '?'}` through the local name `{alias}`", norm(st)[:120])
                continue
            if isinstance(p, (ast.Compare, ast.comprehension, ast.For, ast.BoolOp, ast.UnaryOp, ast.If, ast.IfExp, ast.While)):
                ctx.ob(rid, inst, True, where, "iteration / membership test", norm(st)[:100])
                continue
            ctx.ob(rid, inst, False, where, f"the caller's registry mapping flows on through `{alias}` ({type(p).__name__}): not followed", norm(st)[:100])
    return n


def owned_entry_uses(ctx, rid, m, f, var, chain, depth, seen):
    """`var` holds a registry entry (RegistryValue) of the caller's registry: it must only be read."""
    key = (f, var, "entry")
    if key in seen or depth > 6:
        return 0
    seen.add(key)
    n = 0
    mod = f.module
    inst = " -> ".join(chain + [f"{f.short}.{var}"])
    for node in f.own_nodes():
        if isinstance(node, ast.Name) and node.id == var:
            p = mod.parent.get(node)
            if isinstance(p, ast.Attribute) and p.value is node:
                n += 1
                if isinstance(p.ctx, (ast.Store, ast.Del)):
                    ctx.ob(rid, inst, False, loc(f, node),
                           f"attribute .{p.attr} of an entry of the caller's registry is assigned: run leaves (per-run) state on objects shared "
                           f"by every run that uses this registry", norm(stmt_of(mod, node))[:100])
                else:
                    ctx.ob(rid, inst, True, loc(f, node), f"entry attribute read .{p.attr}", norm(stmt_of(mod, node))[:80])
            elif isinstance(p, (ast.Call, ast.keyword)):
                call = p if isinstance(p, ast.Call) else mod.parent.get(p)
                if isinstance(call, ast.Call) and node is not call.func:
                    for tg in m.callee_funcs(f, call):
                        if isinstance(p, ast.keyword):
                            pname = p.arg
                        else:
                            idx = call.args.index(node)
                            ps = tg.pos_params[1:] if (tg.cls is not None and not isinstance(call.func, ast.Name)) else tg.pos_params
                            pname = ps[idx] if idx < len(ps) else None
                        if pname:
                            n += owned_entry_uses(ctx, rid, m, tg, pname, chain + [f"{f.short}.{var}"], depth + 1, seen)
    # closures of f see the variable too
    for g_ in f.nested:
        if m.binding_scope(g_, var) is f:
            for node in g_.own_nodes():
                if isinstance(node, ast.Name) and node.id == var:
                    p = g_.module.parent.get(node)
                    if isinstance(p, ast.Attribute) and p.value is node and isinstance(p.ctx, (ast.Store, ast.Del)):
                        n += 1
                        ctx.ob(rid, inst, False, loc(g_, node), f"attribute .{p.attr} of a registry entry is assigned in a closure", norm(stmt_of(g_.module, node))[:100])
    return n


def graph_use_ok(mod, attr_node):
    """plan.graph of a caller-owned plan: only .copy() / read-only queries."""
    pp = mod.parent.get(attr_node)
    if isinstance(pp, ast.Attribute):
        ppp = mod.parent.get(pp)
        if pp.attr in GRAPH_MUTATORS:
            return False, f"the caller's graph is modified in place by .{pp.attr}()"
        return True, f"graph query .{pp.attr}"
    if isinstance(pp, ast.Assign) and attr_node in pp.targets:
        return False, "the caller's plan gets a new graph"
    if isinstance(pp, ast.Assign):
        return False, "the caller's graph is aliased (later in-place calls would modify it)"
    if isinstance(pp, ast.IfExp):
        ppp = mod.parent.get(pp)
        if isinstance(ppp, ast.Attribute) and ppp.attr == "copy":
            return True, "graph copied"
        return False, "the caller's graph may be aliased without a copy"
    if isinstance(pp, ast.Call) and attr_node in pp.args:
        return True, "graph passed on (callee checked separately where it is the engine or a query)"
    return True, "graph read"


def mapping_use_ok(mod, attr_node):
    pp = mod.parent.get(attr_node)
    if isinstance(pp, ast.Attribute):
        if pp.attr in DICT_MUTATORS:
            return False, f"registry.mapping is modified by .{pp.attr}()"
        return True, f"mapping query .{pp.attr}"
    if isinstance(pp, ast.Subscript):
        if isinstance(pp.ctx, (ast.Store, ast.Del)):
            return False, "registry.mapping entry assigned/deleted"
        ppp = mod.parent.get(pp)
        if isinstance(ppp, ast.Attribute) and isinstance(ppp.ctx, ast.Store):
            return False, f"attribute .{ppp.attr} of a registry entry is assigned"
        return True, "mapping entry read"
    if isinstance(pp, ast.Assign) and attr_node in pp.targets:
        return False, "registry.mapping replaced"
    return True, "mapping read"


def check(ctx):
    m = ctx.model
    ctx.rule("C13.M1", "in run/render every use of the caller's plan/registry as received is non-mutating: validation, the copy itself, read-only queries, or a callee whose (recursively analysed) uses of that parameter are non-mutating under the call-site constants (inplace)")
    ctx.rule("C13.M3", "attribute stores on node-like objects (scope, fn, stack_frame, registry entries) outside their own constructors target objects created in the same function; BoundCall results are Slots, never Literal nodes")
    ctx.rule("C13.M4", "Plan.copy / Registry.copy build independent containers (graph.copy(), per-entry copy.copy); __copy__ is the same function")
    ctx.rule("C13.M5", "inplace=True is only ever applied to values whose reaching definitions are copies")
    ctx.rule("C13.M6", "render mutates only a graph variable all of whose reaching definitions are .copy() results")
    ctx.trust("networkx copy() shares node objects and edge keys and copies the adjacency structure")
    ctx.assume("user-supplied transform_physical / predicate are outside; effect summaries are context-insensitive except for constant keyword flags")
    er = E.discover(m)
    rr = R.discover(m, er)
    run = rr.run
    render = m.one_func("render", "RENDER")
    n = 0
    n += owned_uses(ctx, "C13.M1", m, run, "plan", "plan", {}, [])
    n += owned_uses(ctx, "C13.M1", m, run, "registry", "registry", {}, [])
    n += owned_uses(ctx, "C13.M1", m, render, "plan", "plan", {}, [])
    n += owned_uses(ctx, "C13.M1", m, render, "registry", "registry", {}, [])
    ctx.floor("C13.M1", "uses of caller-owned plan/registry examined", n, 20)
    # ---------------------------------------------------------------- M5
    g = CFG(run, may_raise=lambda x: False)
    rd = reaching_defs(g, "plan")
    k = 0
    for c in run.own_calls():
        ip = arg(c, None, "inplace")
        if ip is None or not (isinstance(ip, ast.Constant) and ip.value is True):
            continue
        k += 1
        a0 = c.args[0] if c.args else None
        if not isinstance(a0, ast.Name):
            continue
        bad = []
        rd = reaching_defs(g, a0.id)
        for cn in g.of_stmt_containing(c, run.module):
            for d in rd[cn]:
                if d is g.entry:
                    if a0.id in run.params:
                        bad.append("the parameter itself")
                elif isinstance(d.ast, ast.Assign) and isinstance(d.ast.value, ast.Name):
                    bad.append(norm(d.ast))
        ctx.ob("C13.M5", f"{run.short}/inplace-on-copy", not bad, loc(run, c),
               "inplace=True applied to a value defined by a copy / a transformation result" if not bad else
               f"inplace=True can be applied to the caller's own plan ({bad[0]})", norm(c)[:120])
    ctx.notes["inplace_true_sites_in_run"] = k
    # ---------------------------------------------------------------- M3
    k = 0
    for f in m.funcs.values():
        if not f.module.name.startswith(("uberjob._run", "uberjob._transformations", "uberjob._execution", "uberjob._rendering")):
            continue
        for node in f.own_nodes():
            tgs = node.targets if isinstance(node, ast.Assign) else [node.target] if isinstance(node, (ast.AugAssign, ast.AnnAssign)) else []
            for t in tgs:
                if isinstance(t, ast.Attribute) and t.attr in NODE_ATTRS and not (f.name == "__init__" and is_name(t.value, f.pos_params[0] if f.pos_params else "self")):
                    if f.cls is not None and is_name(t.value, f.pos_params[0]):
                        continue
                    k += 1
                    fresh = False
                    if isinstance(t.value, ast.Name):
                        bs = [b for b in f.bindings.get(t.value.id, []) if b[0] != "param"]
                        fresh = bool(bs) and all(b[0] == "assign" and isinstance(b[1], ast.Call) and (
                            (isinstance(b[1].func, ast.Attribute) and b[1].func.attr in ("lit", "call", roles.call_ctor(m).name)) or
                            any(o[0] == "class" for o in m.origins_of(f, b[1].func))) for b in bs) and \
                            not any(b[0] == "param" for b in f.bindings.get(t.value.id, []))
                    ctx.ob("C13.M3", f"{f.short}/{norm(t)}", fresh, loc(f, node),
                           "attribute store on an object created in this function" if fresh else
                           f"`{norm(t)}` is assigned on an object that may be shared with the caller's plan (nodes and edge keys "
                           f"are shared between a plan and its copies)", norm(node))
    ctx.floor("C13.M3", "node-attribute stores examined", k, 1)
    from .extra import rule_result_slots
    ctx.run(rule_result_slots, "C13.M3")
    pf = []
    if len(pf) == 1:
        f = pf[0]
        dcs = [n for n in f.own_nodes() if isinstance(n, ast.DictComp)]
        ok1 = any(norm(d.value) == "node if type(node) is Literal else Slot(None)" for d in dcs)
        ok2 = any(any(norm(c) == "type(node) is Call" for gen in d.generators for c in gen.ifs) and "_create_bound_call" in norm(d.value) for d in dcs)
        ctx.ob("C13.M3", f"{f.short}/results-are-slots", ok1 and ok2, loc(f),
               "only exact Literal nodes stand for themselves; bound calls (whose .result.value is written) exist only for exact Call nodes"
               if ok1 and ok2 else "a Literal node could become a BoundCall result: running a plan would overwrite the literal's value")
    # ---------------------------------------------------------------- M4
    pc = m.method("Plan", "copy", "M4")
    from ..astq import canon, global_names, real_body
    keep = global_names(m, pc)
    txt = canon(real_body(pc.node), keep)
    ok = txt == canon(["new_plan = Plan()", "new_plan.graph = self.graph.copy()", "return new_plan"], keep)
    ctx.ob("C13.M4", "Plan.copy", ok, loc(pc), "new Plan with graph.copy() (own scope, own lock)" if ok else
           "Plan.copy no longer builds an independent plan (e.g. shares the graph)", " ; ".join(txt)[:150])
    rc = m.method("Registry", "copy", "M4")
    dcs = [n for n in rc.own_nodes() if isinstance(n, ast.DictComp)]
    keep = global_names(m, rc)
    ok = len(dcs) == 1 and canon([dcs[0]], keep) == canon(["{node: copy.copy(registry_value) for node, registry_value in self.mapping.items()}"], keep) and \
        canon(real_body(rc.node), keep)[0] == canon(["new_registry = Registry()"], keep)[0] and \
        any(isinstance(s_, ast.Assign) and isinstance(s_.targets[0], ast.Attribute) and s_.targets[0].attr == "mapping" and s_.value is dcs[0] for s_ in rc.node.body)
    ctx.ob("C13.M4", "Registry.copy", ok, loc(rc), "new Registry whose entries are copy.copy of the originals" if ok else
           "Registry.copy shares the mapping or its RegistryValue objects with the original")
    for cname in ("Plan", "Registry"):
        cls = m.one_class(cname, "M4")
        ok = "__copy__" in cls.class_assigns and norm(cls.class_assigns["__copy__"]) == "copy"
        ctx.ob("C13.M4", f"{cname}.__copy__", ok, loc(cls.methods["copy"]), "__copy__ = copy")
    # ---------------------------------------------------------------- M6
    g = CFG(render, may_raise=lambda x: False)
    muts = [c for c in render.own_calls() if isinstance(c.func, ast.Attribute) and c.func.attr in GRAPH_MUTATORS and isinstance(c.func.value, ast.Name)
            and ("graph" in c.func.value.id.lower() or c.func.value.id in ("g", "G") or c.func.value.id == "plan")]
    ctx.floor("C13.M6", "in-place graph calls in render", len(muts), 3)
    for c in muts:
        v = c.func.value.id
        rd = reaching_defs(g, v)
        bad = []
        for cn in g.of_stmt_containing(c, render.module):
            for d in rd[cn]:
                if d is g.entry:
                    bad.append("no definition (parameter)")
                elif isinstance(d.ast, ast.Assign):
                    e = d.ast.value
                    if not (isinstance(e, ast.Call) and isinstance(e.func, ast.Attribute) and e.func.attr == "copy"):
                        bad.append(norm(d.ast)[:80])
        ctx.ob("C13.M6", f"{render.short}/{v}.{c.func.attr}", not bad, loc(render, c),
               "mutates a graph all of whose reaching definitions are copies" if not bad else
               f"a non-copied graph can reach this in-place call (definition `{bad[0]}`): rendering modifies the caller's plan",
               norm(c)[:100])
