"""C15 - progress observers receive an exact, well-formed account of every run (P1-P7)."""
from __future__ import annotations

import ast

from ..astq import arg, const, ext_names, handler_classes, inside, is_name, loc, names_in, stmt_of
from ..cfg import CFG, any_call_may_raise
from ..model import AnalysisError, Func, head, norm
from . import roles
from . import engine as E
from . import runrules as R
from .common import make_user_reaching

NOTIFY = ("increment_total", "increment_running", "increment_completed", "increment_failed")


def notify_calls(f, name=None):
    return [c for c in f.own_calls() if isinstance(c.func, ast.Attribute) and (c.func.attr == name if name else c.func.attr in NOTIFY)]


def check(ctx):
    m = ctx.model
    ctx.rule("C15.P1", "run enters the observer with exactly one with; every call of run that reaches a notification site lies inside it; workers are joined inside it; no explicit __enter__/__exit__ calls")
    ctx.rule("C15.P2", "totals are announced before the phase starts: the stale-totals call dominates the stale check, the run-totals call dominates execution; increment_total has no other call site")
    ctx.rule("C15.P3", "bracket pairing in both callbacks: from increment_running every normal path passes exactly one increment_completed and every Exception-handler path exactly one increment_failed, same section constant and scope variable; only exact Call nodes notify")
    ctx.rule("C15.P4", "totals and reporting use the same scope function over nodes selected by the same exact-type test")
    ctx.rule("C15.P5", "between announcing totals and running the phase the plan is not transformed (copy excepted); execution only removes source literals")
    ctx.rule("C15.P6", "the composite observer defines every abstract method, forwards every notification to every member with every parameter, enters members through one ExitStack and delegates __exit__ to it")
    ctx.rule("C15.P7", "the observer object entered by run is the object that receives the notifications: no truthiness-based substitution on the forwarding chain")
    ctx.assume("BaseException raised by a call is exempt from the pairing (as in the property); actual counts follow from C04 + P3/P4")
    er = E.discover(m)
    rr = R.discover(m, er)
    ur = make_user_reaching(m)
    run = rr.run
    # ---------------------------------------------------------------- P1
    ws = [n for n in run.own_nodes() if isinstance(n, ast.With) and any(norm(it.context_expr) == rr.observer_var for it in n.items)]
    ok = len(ws) == 1
    ctx.ob("C15.P1", f"{run.short}/one-with", ok, loc(run), "one `with progress_observer:`" if ok else f"{len(ws)} with-statements on the observer")
    # notification sites that a run can reach (a leftover, uncalled helper is not on any run's path)
    live = m.reachable([run], kinds=("call", "thread")) | {run}
    notifying = {f for f in m.funcs.values() if not f.module.name.startswith("uberjob.progress") and notify_calls(f) and f in live}
    ctx.floor("C15.P1", "functions with notification sites outside the progress package", len(notifying), 2)
    reach_notify = {f for f in m.funcs.values() if m.reachable([f], kinds=("call", "thread")) & notifying}
    if ok:
        w = ws[0]
        for c in run.own_calls():
            if m.callee_funcs(run, c) & reach_notify:
                ins = inside(run.module, c, w)
                ctx.ob("C15.P1", f"{run.short}/inside-with", ins, loc(run, c), "phase runs inside the observer's with" if ins else
                       "a call that produces notifications runs outside the observer's with (notifications before __enter__ or after __exit__)", norm(c)[:80])
        obs_bind = [b for b in run.bindings.get(rr.observer_var, [])]
        ok1 = len(obs_bind) == 1 and obs_bind[0][0] == "assign" and norm(obs_bind[0][1]).endswith(".observer()")
        ctx.ob("C15.P1", f"{run.short}/one-observer", ok1, loc(run), "one observer object per run, created once" if ok1 else "observer is rebound in run")
    for f in m.funcs.values():
        if f.module.name.startswith(("uberjob._run", "uberjob._execution", "uberjob._transformations")):
            for c in f.own_calls():
                if isinstance(c.func, ast.Attribute) and c.func.attr in ("__enter__", "__exit__"):
                    ctx.ob("C15.P1", f"{f.short}/explicit-enter-exit", False, loc(f, c), "explicit __enter__/__exit__ call on the observer path", norm(c))
    # ... and the phases return only after every worker thread has been joined (normal or exceptional exit of the engine): a worker
    # left running would report 'completed' / 'failed' after the observer's __exit__
    ctx.run(E.rule_pool_joins, "C15.P1", er)
    # ---------------------------------------------------------------- P2 / P5
    from .evalrules import totals_site
    sites_ = {}
    try:
        sites_ = {"run": totals_site(m, rr, "run"), "stale": totals_site(m, rr, "stale")}
        ok = True
    except AnalysisError as e_:
        ok = False
        ctx.ob("C15.P2", "increment_total-sites", False, "", f"the totals of a section are not announced by exactly one call of its phase's host: {e_}")
        raise AnalysisError("C15: totals calls not identified")
    # no other place announces totals
    n_inc = sum(len(notify_calls(f, "increment_total")) for f in notifying)
    ctx.ob("C15.P2", "increment_total-sites", ok and n_inc <= 2, "", f"totals call(s) for 'run' in {sites_['run'][0].short} and for 'stale' in {sites_['stale'][0].short}; "
           f"{n_inc} increment_total site(s)" if ok and n_inc <= 2 else f"{n_inc} increment_total sites: totals can be announced more than once per section")
    for host, tcall, phase, what in ((run, sites_["run"][1], rr.run_physical, "execution"), (rr.apply, sites_["stale"][1], rr.stale, "the stale check")):
        g = CFG(host, may_raise=any_call_may_raise)
        tcalls = tcall if isinstance(tcall, list) else [tcall]
        pcalls = R.calls_to(m, host, phase)
        # several totals calls must be alternatives: no path announces the totals twice
        for i_, t1 in enumerate(tcalls):
            for t2 in tcalls:
                if t1 is not t2:
                    twice = set(g.of_stmt_containing(t2, host.module)) & g.reach(g.of_stmt_containing(t1, host.module))
                    ctx.ob("C15.P2", f"{host.short}/totals-once", not twice, loc(host, t2), "alternative totals calls lie on different paths" if not twice else
                           "a path announces the totals of this section twice", norm(t2)[:80])
        ok = len(pcalls) >= 1
        ctx.ob("C15.P2", f"{host.short}/totals-call", ok, loc(host), f"one totals call before {what}" if ok else f"the call that starts {what} was not found")
        if not ok:
            continue
        tn = {x_ for t_ in tcalls for x_ in g.of_stmt_containing(t_, host.module)}
        for pc in pcalls:
            for pn in g.of_stmt_containing(pc, host.module):
                dom = g.dominates(tn, pn)
                ctx.ob("C15.P2", f"{host.short}/totals-dominate-phase", dom, loc(host, pc),
                       f"totals are announced on every path before {what}" if dom else f"{what} can start before its totals were announced", norm(pc)[:80])
        # P5: same plan between totals and phase
        plan_arg = tcalls[0].args[0] if tcalls[0].args else None
        while isinstance(plan_arg, ast.Attribute):
            plan_arg = plan_arg.value  # plan.graph handed to a shared helper
        if plan_arg is None:
            # the totals are announced inline: the plan is the variable the counting expression reads
            pl_ = [n_ for n_ in names_in(stmt_of(host.module, tcalls[0])) if n_ == host.pos_params[0]]
            plan_arg = ast.Name(id=pl_[0], ctx=ast.Load()) if pl_ else None
        if isinstance(plan_arg, ast.Name):
            pv = plan_arg.id
            # the plan whose calls are counted is the plan the phase works on: same reaching definitions at both sites
            from ..cfg import value_sources as _vs
            for pc in pcalls:
                pa = arg(pc, 0, "plan")
                while isinstance(pa, ast.Attribute):
                    pa = pa.value
                if isinstance(pa, ast.Name):
                    def _key(lf):
                        return tuple(id(x) if isinstance(x, ast.AST) else x for x in lf)

                    def _origins(name, at, depth=0):
                        """reaching definitions, seen through 'the plan or a private copy of it' (plan.copy(), get_mutable_plan(plan, ...))"""
                        out_ = set()
                        for lf in _vs(host, g, name, at, host.module):
                            e_ = lf[1] if lf[0] == "expr" else None
                            if isinstance(e_, ast.Call) and depth < 4:
                                inner = None
                                if isinstance(e_.func, ast.Attribute) and e_.func.attr == "copy" and isinstance(e_.func.value, ast.Name) and not e_.args:
                                    inner = e_.func.value
                                elif e_.args and isinstance(e_.args[0], ast.Name) and e_ in host.own_calls() and (fs_ := m.callee_funcs(host, e_)) \
                                        and all(roles.is_mutable_plan_func(m, f_) for f_ in fs_):
                                    inner = e_.args[0]
                                if inner is not None:
                                    out_ |= _origins(inner.id, e_, depth + 1)
                                    continue
                            out_.add(_key(lf))
                        return out_
                    src_t = _origins(pv, tcalls[0])
                    src_p = _origins(pa.id, pc)
                    same = src_t == src_p
                    ctx.ob("C15.P5", f"{host.short}/totals-count-the-plan-of-the-phase", same, loc(host, tcalls[0]),
                           f"the totals are counted on the plan that {what} works on (same reaching definitions)" if same else
                           f"the totals are counted on `{pv}`, {what} works on `{pa.id}`, and these are not the same value on every path (e.g. after a "
                           f"transform_physical that returns a new plan): scopes are reported running without an announced total and completed differs from total",
                           norm(tcalls[0])[:80])
            between = set()
            for t_ in tn:
                between |= g.reach([t_], avoid={pn for pc in pcalls for pn in g.of_stmt_containing(pc, host.module)})
            for c in host.own_calls():
                if c is tcalls[0] or c in pcalls:
                    continue
                cn = g.of_stmt_containing(c, host.module)
                if not any(x in between for x in cn):
                    continue
                # only calls that can still reach the phase matter
                if not any({pn for pc in pcalls for pn in g.of_stmt_containing(pc, host.module)} & g.reach([x]) for x in cn):
                    continue
                touches = any(is_name(a, pv) for a in c.args) or any(is_name(k.value, pv) for k in c.keywords) or \
                    (isinstance(c.func, ast.Attribute) and pv in names_in(c.func.value))
                if not touches:
                    continue
                fs = m.callee_funcs(host, c)
                okc = bool(fs) and all(roles.is_mutable_plan_func(m, f_) for f_ in fs)
                ctx.ob("C15.P5", f"{host.short}/plan-unchanged-after-totals", okc, loc(host, c),
                       "only a copy of the plan is taken between totals and the phase" if okc else
                       f"the plan is transformed by `{norm(c.func)}` after its totals were announced: the {what} examines a different set of calls than was announced",
                       norm(c)[:100])
            st_assign = [b for b in host.bindings.get(pv, []) if b[0] == "assign"]
            ctx.ob("C15.P5", f"{host.short}/between-checked", True, loc(host), f"examined the calls touching `{pv}` between the totals and {what}")
    # execution phase: only source literals are removed before running
    prep = rr.prep_run
    tcs = [c for c in prep.own_calls() if any(f.module.name.endswith(("pruning", "caching")) for f in m.callee_funcs(prep, c))]
    from .prunerules import litprune_role
    lp_ = litprune_role(m, rr)
    okp = all(m.callee_funcs(prep, c) <= {lp_} for c in tcs)
    ctx.ob("C15.P5", f"{prep.short}/literal-only-transformations", okp, loc(prep), "execution preparation removes source literals only (the set of Call nodes is unchanged)"
           if okp else "execution preparation transforms the plan beyond removing source literals")
    # ---------------------------------------------------------------- P3 / P4
    n_br = 0
    for cb, section in ((rr.runcb, "run"), (rr.stalecb, "stale")):
        mod = cb.module
        runs = notify_calls(cb, "increment_running")
        comps = notify_calls(cb, "increment_completed")
        fails = notify_calls(cb, "increment_failed")
        ok = len(runs) == 1 and len(comps) >= 1 and len(fails) >= 1
        ctx.ob("C15.P3", f"{cb.short}/sites", ok, loc(cb), f"running/completed/failed sites: {len(runs)}/{len(comps)}/{len(fails)}")
        if not ok:
            continue
        n_br += 1
        for c in runs + comps + fails:
            sec = const(arg(c, None, "section"))
            sc = arg(c, None, "scope")
            ok = sec == section and is_name(sc, norm(arg(runs[0], None, "scope")))
            ctx.ob("C15.P3", f"{cb.short}/{c.func.attr}-args", ok, loc(cb, c),
                   f"section={section!r}, scope={norm(sc)}" if ok else
                   f"section/scope differ from the running notification (section={sec!r}, scope={norm(sc) if sc is not None else None})", norm(c)[:100])
            conds = E.path_condition(mod, stmt_of(mod, c), cb.node)
            guarded = any(norm(t) == f"type({cb.pos_params[0]}) is Call" and pol for t, pol in conds)
            ctx.ob("C15.P3", f"{cb.short}/{c.func.attr}-only-calls", guarded, loc(cb, c), "only exact Call nodes notify" if guarded else
                   "notification is not guarded by `type(node) is Call` (totals count exact Call nodes only)", norm(c)[:80])
        scope_var = norm(arg(runs[0], None, "scope"))
        rebinds = [b for b in cb.bindings.get(scope_var, [])]
        ctx.ob("C15.P3", f"{cb.short}/scope-bound-once", len(rebinds) == 1, loc(cb), f"{scope_var} bound once")
        # CFG: user-reaching statements may raise
        def mr(node, cb=cb):
            for x in ast.walk(node):
                if isinstance(x, ast.Call) and x in cb.own_calls() and x not in runs + comps + fails and ur(cb, x):
                    return True
            return False
        g = CFG(cb, may_raise=mr)
        rn = g.of_stmt_containing(runs[0], mod)
        cset, fset = set(), set()
        for c in comps:
            cset |= set(g.of_stmt_containing(c, mod))
        for c in fails:
            fset |= set(g.of_stmt_containing(c, mod))
        for r_ in rn:
            okn = g.must_pass(r_, cset | fset, exits={g.exit}, first_labels={"n"})
            p = "" if okn else g.fmt_path(g.path(r_, {g.exit}, avoid=cset | fset, first_labels={"n"}))
            ctx.ob("C15.P3", f"{cb.short}/running-then-finished", okn, loc(cb, runs[0]),
                   "every normal completion after 'running' reports completed or failed" if okn else
                   "a call can be reported running and then end normally without completed/failed", norm(runs[0])[:80], p)
        # at most one of completed/failed per running
        for x in cset | fset:
            again = g.reach([x]) & (cset | fset)
            ctx.ob("C15.P3", f"{cb.short}/exactly-one-finish", not again, loc(cb, x.ast),
                   "no path reports two outcomes" if not again else
                   "a path reports two outcomes for one 'running' (e.g. completed in a finally after failed)", norm(x.ast)[:80])
        # handlers: Exception handler reports failed before re-raising; completed unreachable from it
        hs = [h for t in cb.own_nodes() if isinstance(t, ast.Try) for h in t.handlers]
        for h in hs:
            hn = g.of(h)
            classes = handler_classes(h)
            for x in hn:
                okf = g.must_pass(x, fset, exits={g.exit, g.raise_exit})
                ctx.ob("C15.P3", f"{cb.short}/handler-reports-failed", okf, loc(cb, h),
                       f"the {classes} handler reports failed on every path" if okf else
                       "an exception from the call can leave the callback without a 'failed' notification (stays 'running' forever)", head(h))
                okc = not (g.reach([x]) & cset)
                ctx.ob("C15.P3", f"{cb.short}/no-completed-after-failure", okc, loc(cb, h), "completed is unreachable from the failure handler")
            ok = "Exception" in classes or "BaseException" in classes
            ctx.ob("C15.P3", f"{cb.short}/handler-class", ok, loc(cb, h), f"handler covers Exception ({classes})" if ok else
                   f"handler {classes} does not cover all Exception subclasses")
        # completed not reachable from the exceptional edge of the user call except through nothing
    ctx.floor("C15.P3", "running/finished brackets", n_br, 2)
    from .evalrules import rule_totals
    ctx.run(lambda c_: rule_totals(c_, "C15.P4", rr))
    from .stalerules import rule_stale_totals
    ctx.run(lambda c_: rule_stale_totals(c_, "C15.P4", rr))
    from .extra import rule_error_path_total
    from .evalrules import rule_run_callback
    ctx.run(lambda c_: rule_run_callback(c_, rr, rid_bracket="C15.P3"))
    ctx.run(rule_error_path_total, "C15.P3")
    ctx.run(E.rule_atomic_counter, "C15.P3", er)
    ctx.run(E.rule_one_callback_per_dequeue, "C15.P3", er)
    # ---------------------------------------------------------------- P6
    po = m.one_class("ProgressObserver", "OBSERVER-API")
    comp = roles.composite_observer(m)
    abstract = [n for n in po.methods if po.is_abstract_method(n)]
    ctx.floor("C15.P6", "abstract methods of ProgressObserver", len(abstract), 6)
    for name in abstract:
        f = comp.lookup(name)
        ok = isinstance(f, Func) and not f.cls.is_abstract_method(name)
        ctx.ob("C15.P6", f"Composite.{name}/defined", ok, loc(comp.methods["__init__"]), "defined" if ok else f"composite does not implement {name}")
    ctx.run(rule_composite, "C15.P6", po, comp, abstract)
    # ---------------------------------------------------------------- P7
    # the totals calls are handed the run's observer as well
    for sec_, (host_, tcs_) in sites_.items():
        for tc_ in (tcs_ if isinstance(tcs_, list) else [tcs_]):
            src_name = rr.observer_var if host_ is run else ([p_ for p_ in host_.params if "observer" in p_] or ["progress_observer"])[0]
            ok = src_name in names_in(tc_)
            ctx.ob("C15.P7", f"{host_.short} -> totals[{sec_}]/observer-forwarded", ok, loc(host_, tc_),
                   "observer forwarded" if ok else "the run's observer is not passed on: the totals of this phase are announced to nobody", norm(tc_)[:80])
    chain = [(run, rr.run_physical), (rr.run_physical, rr.prep_run), (run, rr.apply), (rr.apply, rr.stale)]
    for caller, callee in chain:
        for c in R.calls_to(m, caller, callee):
            pn = [p for p in callee.params if "observer" in p]
            if not pn:
                continue
            idx = callee.pos_params.index(pn[0]) if pn[0] in callee.pos_params else None
            a = arg(c, idx, pn[0])
            src_name = rr.observer_var if caller is run else ([p_ for p_ in caller.params if "observer" in p_] or ["progress_observer"])[0]
            ok = a is not None and is_name(a, src_name)
            ctx.ob("C15.P7", f"{caller.short} -> {callee.short}/observer-forwarded", ok, loc(caller, c),
                   "observer forwarded" if ok else "the run's observer is not passed on: this phase reports to nobody", norm(c)[:80])
    for f in (rr.run_physical, rr.prep_run, rr.apply, rr.stale):
        for kind, expr, path in f.bindings.get("progress_observer", []):
            if kind == "param":
                continue
            ok = False
            why = f"observer rebound by `{norm(expr)}`"
            if kind == "assign" and isinstance(expr, ast.IfExp) and norm(expr.test) in ("progress_observer is not None",) and is_name(expr.body, "progress_observer"):
                ok, why = True, "default only when None"
            if kind == "assign":
                st = stmt_of(f.module, expr)
                conds = E.path_condition(f.module, st, f.node)
                if any(norm(t) == "progress_observer is None" and pol for t, pol in conds):
                    ok, why = True, "default only when None"
            if kind == "assign" and isinstance(expr, ast.BoolOp) and isinstance(expr.op, ast.Or) and is_name(expr.values[0], "progress_observer"):
                why = ("`progress_observer or <default>` replaces an observer that is falsy (e.g. defines __len__/__bool__) by the "
                       "null observer: it is entered and gets totals but none of this phase's notifications")
            ctx.ob("C15.P7", f"{f.short}/observer-default", ok, loc(f, expr), why, norm(stmt_of(f.module, expr))[:100])


def rule_composite(ctx, rid, po, comp, abstract):
    """The composite observer, evaluated with three abstract members (whose methods return True / None / False, so that a
    forwarding loop that stops at - or filters on - a member's answer is seen; the third member is itself falsy):
      * every notification method called on the composite reaches every member exactly once with exactly the arguments given;
      * entering the composite enters every member once; leaving it leaves every member once with the exception triple given;
      * if a member fails to enter, the members entered before it are left again and the later ones are untouched;
      * if a member fails while being left, the other members are still left and the failure propagates.
    contextlib.ExitStack is a checker-side model with the library's documented semantics."""
    from ..absval import AbsRaise, Interp, Native, Obj, Stub
    m = ctx.model
    init = comp.lookup("__init__")
    notes = [n for n in abstract if n not in ("__enter__", "__exit__")]

    def world(fail_enter=None, fail_exit=None, enter_exc=None):
        log = []
        interp_box = []

        class ExitStack(Native):
            def __init__(self):
                self.stack = []

            def __enter__(self):
                return self

            def enter_context(self, cm):
                it = interp_box[0]
                r = it.call(it.getattr(cm, "__enter__"), [], {})
                self.stack.append(lambda *exc, _cm=cm: it.call(it.getattr(_cm, "__exit__"), list(exc), {}))
                return r

            def push(self, ex):
                it = interp_box[0]
                self.stack.append(ex if callable(ex) and not isinstance(ex, Obj) else (lambda *exc, _o=ex: it.call(it.getattr(_o, "__exit__"), list(exc), {})))
                return ex

            def callback(self, fn, *a, **kw):
                it = interp_box[0]
                self.stack.append(lambda *exc: it.call(fn, list(a), dict(kw)) and False)
                return fn

            def pop_all(self):
                new = ExitStack()
                new.stack, self.stack = self.stack, []
                return new

            def __exit__(self, *exc):
                exc = tuple(exc) if exc else (None, None, None)
                cur = None if exc[0] is None else exc
                raised = None
                while self.stack:
                    x_ = self.stack.pop()
                    try:
                        if x_(*(cur or (None, None, None))):
                            cur, raised = None, None
                    except AbsRaise as e2:
                        cur, raised = ("exc", e2.value, None), e2
                if raised is not None:
                    raise raised
                return exc[0] is not None and cur is None

            def close(self):
                self.__exit__(None, None, None)
        members = []
        for i, ret in enumerate((True, None, False)):
            nm = f"m{i + 1}"

            def mk(method, nm=nm, ret=ret):
                def fn(*a, **kw):
                    log.append((nm, method, tuple(a), tuple(sorted(kw.items(), key=lambda t: t[0]))))
                    if method == "__enter__" and fail_enter == nm:
                        raise AbsRaise(enter_exc if enter_exc is not None else f"enter-failure-{nm}")
                    if method == "__exit__" and fail_exit == nm:
                        raise AbsRaise(f"exit-failure-{nm}")
                    return None if method == "__exit__" else ret
                return Stub(f"{nm}.{method}", fn)
            # the third member is an observer object whose truth value is False (e.g. one that is also a container)
            members.append(Obj(po, {meth: mk(meth) for meth in abstract}, name=nm, truthy=(i != 2)))
        interp = Interp(m, ext={"contextlib.ExitStack": ExitStack})
        interp_box.append(interp)
        me = Obj(comp, {}, name="composite")
        if isinstance(init, Func):
            try:
                interp.call_func(init, None, [list(members)], {}, bound_self=me)
            except AbsRaise as e:
                raise AnalysisError(f"abstract evaluation of {init.qualname} raised {e.value!r}")
        return interp, me, members, log

    def call(interp, me, name, args=(), kw=None):
        return interp.call(interp.getattr(me, name), list(args), dict(kw or {}))
    # ---- notifications
    for name in notes:
        f = comp.lookup(name)
        if not isinstance(f, Func):
            continue
        interp, me, members, log = world()
        kw = {}
        for p_ in f.params[1:]:
            kw[p_] = {"section": "sec", "scope": ("a", "b"), "amount": 3}.get(p_, Obj(None, {}, name=f"<{p_}>"))
        try:
            call(interp, me, name, kw=kw)
            err = None
        except AbsRaise as e:
            err = e.value
        want = tuple(sorted(kw.items(), key=lambda t: t[0]))
        got = [(e_[0], e_[1], e_[3]) for e_ in log if not e_[2]]
        ok = err is None and sorted(got) == sorted((f"m{i}", name, want) for i in (1, 2, 3)) and len(log) == 3
        ctx.ob(rid, f"Composite.{name}/forwards-all", ok, loc(f),
               "reaches every member exactly once with every argument (evaluated with three members)" if ok else
               f"notification is not forwarded to every member with every parameter (early exit, filter, or missing argument): "
               f"members saw {[(e_[0], e_[1], dict(e_[3])) for e_ in log]}" + (f", raised {err!r}" if err else ""))
    # ---- enter / exit
    en, ex = comp.lookup("__enter__"), comp.lookup("__exit__")
    if not (isinstance(en, Func) and isinstance(ex, Func)):
        return
    interp, me, members, log = world()
    triple = ("ExcType", Obj(None, {}, name="<exc>"), Obj(None, {}, name="<tb>"))
    try:
        call(interp, me, "__enter__")
        entered = [e_[0] for e_ in log if e_[1] == "__enter__"]
        call(interp, me, "__exit__", triple)
        err = None
    except AbsRaise as e:
        err = e.value
        entered = [e_[0] for e_ in log if e_[1] == "__enter__"]
    exits = [e_ for e_ in log if e_[1] == "__exit__"]
    ok = err is None and sorted(entered) == ["m1", "m2", "m3"] and sorted(e_[0] for e_ in exits) == ["m1", "m2", "m3"] \
        and all(e_[2] == triple for e_ in exits) and all(log.index(e_) >= 3 for e_ in exits)
    ctx.ob(rid, "Composite.__enter__/__exit__/brackets-every-member", ok, loc(en),
           "every member is entered once, then left once with the exception triple the composite was given" if ok else
           f"entering and leaving the composite does not enter and leave every member exactly once with the given exception triple: {[(e_[0], e_[1]) for e_ in log]}"
           + (f", raised {err!r}" if err else ""))
    interp, me, members, log = world(fail_enter="m2")
    try:
        call(interp, me, "__enter__")
        err = None
    except AbsRaise as e:
        err = e.value
    seq = [(e_[0], e_[1]) for e_ in log]
    ok = err == "enter-failure-m2" and ("m1", "__exit__") in seq and seq.count(("m1", "__exit__")) == 1 and ("m2", "__exit__") not in seq \
        and not [x for x in seq if x[0] == "m3"]
    ctx.ob(rid, "Composite.__enter__/exit-stack", ok, loc(en),
           "if a later member fails to enter, the members already entered are left again and the failure propagates" if ok else
           f"if a later member fails to enter, earlier members are never exited (or the failure is lost): {seq}, raised {err!r}")
    # ... also when what interrupts the entering is not an Exception (Ctrl-C while the second display starts)
    ki = Obj(None, {}, name="KeyboardInterrupt")
    interp, me, members, log = world(fail_enter="m2", enter_exc=ki)
    try:
        call(interp, me, "__enter__")
        err = None
    except AbsRaise as e:
        err = e.value
    seq = [(e_[0], e_[1]) for e_ in log]
    ok = err is ki and seq.count(("m1", "__exit__")) == 1 and ("m2", "__exit__") not in seq
    ctx.ob(rid, "Composite.__enter__/exit-stack[BaseException]", ok, loc(en),
           "a KeyboardInterrupt while a later member is being entered leaves the members already entered and propagates" if ok else
           f"a KeyboardInterrupt while a later member is being entered does not unwind the members already entered (their update threads "
           f"run for ever): {seq}, raised {getattr(err, 'name', err)!r}")
    interp, me, members, log = world(fail_exit="m3")
    try:
        call(interp, me, "__enter__")
        call(interp, me, "__exit__", (None, None, None))
        err = None
    except AbsRaise as e:
        err = e.value
    seq = [(e_[0], e_[1]) for e_ in log]
    ok = err == "exit-failure-m3" and all(seq.count((mm, "__exit__")) == 1 for mm in ("m1", "m2", "m3"))
    ctx.ob(rid, "Composite.__exit__/delegates", ok, loc(ex),
           "a member failing in __exit__ does not prevent the others from being left; its failure propagates" if ok else
           f"a member raising from __exit__ prevents the others from being exited (or its failure is lost): {seq}, raised {err!r}")
