import datetime as dt, uberjob
from uberjob._testing import TestStore
t0, t1, t2 = dt.datetime(2020,1,1), dt.datetime(2021,1,1), dt.datetime(2022,1,1)
sx = TestStore("new", modified_time=t1)
s1 = TestStore("fresh", modified_time=t2)   # up to date
s2 = TestStore("old", modified_time=t0)     # out of date
ran = []
def produce(v):
    ran.append(v); s1.write(v); s2.write(v)
p = uberjob.Plan(); r = uberjob.Registry()
x = r.source(p, sx); pr = p.call(produce, x)
z1 = r.source(p, s1); p.add_dependency(pr, z1)
z2 = r.source(p, s2); p.add_dependency(z1, z2)
print("output:", uberjob.run(p, registry=r, output=z2, progress=None), "produce ran:", ran)
