"""Rules decided by interpreting the run-preparation code and the run callback in the checker's abstract evaluator
(absval) over a small symbolic plan - independent of how that code is spelled (comprehensions or loops, helper
functions, closures or classes).  Nothing of uberjob is imported or executed: AST nodes are interpreted over token
values ('Vx', 7, stubs that record their arguments)."""
from __future__ import annotations

from ..absval import AbsRaise, Obj, Stub
from ..astq import loc
from ..model import AnalysisError, norm
from . import roles


class RunEval:
    """plan:  x = call(fx);  lit = 7;  c = call(fc, x, lit, k=x);  d = call(fd, x);  output = c"""

    def __init__(self, m, rr, fail=None, user_frames=None, fail_exc="ValueError", interpret_errors=False, scope=None):
        self.fail_exc = fail_exc
        self.interpret_errors = interpret_errors
        from .rewriterules import World
        self.m, self.rr = m, rr
        self.user_frames = user_frames  # None: legacy anonymous chain; 0: the failing callable is C-implemented; n: n Python frames
        self.raised = None
        w = self.w = World(m, rr)
        self.calls, self.applied, self.events = [], [], []
        self.x = w.call("x")
        self.x.attrs["fn"] = self._fn("x", fail)
        self.lit = w.interp.call_func(m.method("Plan", "lit", "EVAL"), None, [7], {}, bound_self=w.plan)
        self.c = w.interp.call_func(roles.call_ctor(m), None, ["FRAME", self._fn("c", fail), self.x, self.lit], {"k": self.x},
                                    bound_self=w.plan)
        # a second, later consumer of x (x is consumed twice by c and once by d)
        self.d = w.interp.call_func(roles.call_ctor(m), None, ["FRAME", self._fn("d", fail), self.x], {}, bound_self=w.plan)
        w.names[id(self.d)] = "d"
        # two calls that run only for their effect: nobody consumes their results
        self.s1, self.s2 = w.call("s1"), w.call("s2")
        self.s1.attrs["fn"] = self._fn("s1", fail)
        self.s2.attrs["fn"] = self._fn("s2", fail)
        w.names[id(self.c)] = "c"
        w.names[id(self.lit)] = "lit"
        w.interp.ext.setdefault("threading.Lock", lambda: Obj(None, {}, "lock"))
        w.interp.ext.setdefault("threading.RLock", lambda: Obj(None, {}, "lock"))
        w.interp.stubs["prune_source_literals"] = Stub("prune_source_literals", lambda p, **kw: p)
        if not interpret_errors:
            w.interp.stubs["create_chained_call_error"] = Stub("create_chained_call_error", lambda node, exc: ("chained", node, exc))
        else:
            # the error objects handed to the observer are built by the package's own code: calls carry a real frame object and
            # a scope whose values are not strings
            sfc = m.one_class("StackFrame", "EVAL")
            frame = Obj(sfc, {"name": "user_function", "path": "/user/app.py", "line": 12, "outer": None}, name="frame")
            for n_ in (self.x, self.c, self.d, self.s1, self.s2):
                n_.attrs["stack_frame"] = frame
                if scope is not None:
                    n_.attrs["scope"] = scope
        self.observer = Obj(None, {k: Stub(k, self._ev(k)) for k in ("increment_running", "increment_completed", "increment_failed",
                                                                      "increment_total")}, name="observer")

        def retry(f):
            self.applied.append(f)
            return f
        self.retry = Stub("retry", retry)

    def _fn(self, tag, fail):
        def fn(*a, **k):
            self.calls.append((tag, a, k))
            if fail == tag:
                if self.user_frames is None:
                    raise AbsRaise(Obj(None, {"__traceback__": _tb(6)}, name=self.fail_exc))
                # the user's exception with the traceback entries of the user's own frames (a function created by exec in a bare
                # namespace: its globals have no __name__); the evaluator adds the entries of the interpreted uberjob frames
                stack = getattr(self.w.interp, "env_stack", [])
                caller = self.w.interp.frame_of(stack[-1]) if stack else None
                self.raised = Obj(None, {"__traceback__": _user_tb(self.user_frames, caller), "__tb_tracking__": True}, name="UserError")
                raise AbsRaise(self.raised)
            return "V" + tag
        return Stub("fn_" + tag, fn)

    def _ev(self, kind):
        def rec(*a, **k):
            self.events.append((kind, k.get("section"), k.get("scope")))
        return rec

    def prepare(self, output="c"):
        out_node = {"c": self.c, "lit": self.lit, None: None}[output]
        prep = self.w.interp.call_func(self.rr.prep_run, None, [self.w.plan],
                                       {"inplace": False, "output_node": out_node, "retry": self.retry, "progress_observer": self.observer})
        if not isinstance(prep, Obj) or "__tuple_fields__" not in prep.attrs:
            raise AnalysisError("run preparation does not return its record of (bound calls, output slot, callback, plan)")
        vals = [prep.attrs[n] for n in prep.attrs["__tuple_fields__"]]
        tables = [v for v in vals if isinstance(v, dict)]
        procs = [v for v in vals if not isinstance(v, (dict, Obj)) or (isinstance(v, Obj) and "__call__" in v.attrs)]
        procs = [v for v in vals if type(v).__name__ in ("Closure",)] or procs
        # the output slot: the record field that is an object with a `value` cell (not the plan, not a table, not the callback)
        slots = [v for v in vals if isinstance(v, Obj) and v.cls is not None and "value" in v.attrs and "graph" not in v.attrs]
        self.prepared_values = vals
        if len(tables) != 1 or len(procs) != 1:
            raise AnalysisError("run preparation: cannot identify the bound-call table and the run callback in its result")
        return tables[0], (slots[0] if slots else None), procs[0]

    def process(self, proc, node):
        try:
            self.w.interp.call(proc, [node], {})
            return None
        except AbsRaise as e:
            return e.value


def find_token(roots, token, skip_attrs=()):
    """Search the abstract heap reachable from `roots` for an object whose `.value` is `token` (or the token itself held in a
    container).  A closure reaches exactly its free variables.  -> description of the reference path, or None."""
    from ..absval import Closure
    from ..canon import free_names
    seen = set()
    stack = [(r, name) for name, r in roots]
    while stack:
        v, path = stack.pop()
        if id(v) in seen:
            continue
        seen.add(id(v))
        if isinstance(v, str) or v is None or isinstance(v, (int, float, bool, Stub)):
            if v == token and isinstance(v, str):
                return path
            continue
        if isinstance(v, Obj):
            for k, x in v.attrs.items():
                if k in skip_attrs:
                    continue
                if x == token and isinstance(x, str):
                    return f"{path}.{k}"
                stack.append((x, f"{path}.{k}"))
        elif isinstance(v, dict):
            for k, x in v.items():
                stack.append((k, f"{path}<key>"))
                stack.append((x, f"{path}[{getattr(k, 'name', None) or k!r}]"))
        elif isinstance(v, (list, tuple, set, frozenset)):
            for i, x in enumerate(v):
                stack.append((x, f"{path}[{i}]"))
        elif isinstance(v, Closure):
            if v.bound_self is not None:
                stack.append((v.bound_self, f"{path}.__self__"))
            for nm in sorted(free_names(v.func.node)):
                env, x = v.env.lookup(nm) if v.env is not None else (None, None)
                if env is not None:
                    stack.append((x, f"{path}<captures {nm}>"))
    return None


def _tb(n):
    tb = None
    for i in range(n):
        tb = Obj(None, {"tb_next": tb}, name=f"tb{i}")
    return tb


def _user_tb(n, caller_frame=None):
    """Traceback entries of the user's own n frames (outermost first); each frame's f_back is its caller - the outermost user
    frame was called from `caller_frame`, the interpreted uberjob activation that invoked the user's function."""
    frames = []
    for i in range(n):
        frames.append(Obj(None, {"f_code": Obj(None, {"co_filename": "<string>", "co_name": f"user{i}"}, name="code"), "f_globals": {}, "f_locals": {},
                                 "f_back": frames[-1] if frames else caller_frame, "f_lineno": 1}, name=f"frame:user{i}"))
    tb = None
    for i in reversed(range(n)):
        tb = Obj(None, {"tb_next": tb, "tb_frame": frames[i], "tb_lineno": 1, "tb_lasti": 0}, name=f"tb:user{i}")
    return tb


def rule_failure_path(ctx, rr, rid_cause=None, rid_retained=None):
    """The failure path of the run callback, evaluated with a traceback model: the user's function fails (a) in Python code two
    frames deep, in a function whose globals have no `__name__` (created by exec), (b) inside a C-implemented callable (no frame
    of its own), each with a custom retry decorator that returns the function unchanged.  The evaluator prepends one traceback
    entry per interpreted uberjob frame the exception unwinds through, with that frame's live locals.
      cause:    the callback ends by raising the node-error carrier whose __cause__ is the very exception object the call raised
                (nothing on the failure path - frame trimming, notification, chaining - fails first);
      retained: from the carrier (which the engine keeps until the run ends) the values of the failed call's arguments are not
                reachable - not through its cause's traceback frames (BoundCall.run holds args/kwargs), not through the callback
                frame's locals."""
    m = ctx.model
    f = rr.prep_run
    for label, n_user in (("python-function", 2), ("c-callable", 0)):
        try:
            ev = RunEval(m, rr, fail="c", user_frames=n_user)
            ev.w.interp.track_tb = True
            table, out_slot, proc = ev.prepare()
            ev.process(proc, ev.x)
            ev.process(proc, ev.d)
            err = ev.process(proc, ev.c)
        except AbsRaise as e:
            raise AnalysisError(f"abstract evaluation of the run callback raised {e.value!r}")
        exc = ev.raised
        if rid_cause:
            ok = isinstance(err, Obj) and err.cls is not None and err.cls.name == "NodeError" and err.attrs.get("__cause__") is exc \
                and exc is not None
            got = (f"raised {err!r}" + (f" with cause {err.attrs.get('__cause__')!r}" if isinstance(err, Obj) else ""))
            ctx.ob(rid_cause, f"{rr.runcb.short}/failure-path/{label}", ok, loc(rr.runcb),
                   "evaluated: the callback raises the carrier chained from the very exception the call raised" if ok else
                   f"evaluated with a call failing in a {label.replace('-', ' ')} (exec-created function, custom retry): the callback {got} - the "
                   f"exception reported for the call is not the one it raised")
        if rid_retained and isinstance(err, Obj):
            where = find_token([("the carrier kept by the engine", err)], "Vx", skip_attrs=("f_back",))
            ctx.ob(rid_retained, f"{rr.runcb.short}/failure-retains-arguments/{label}", where is None, loc(rr.runcb),
                   "evaluated: the argument values of the failed call are unreachable from the error the engine keeps" if where is None else
                   f"evaluated with a call failing in a {label.replace('-', ' ')}: the argument value of the failed call is still referenced through "
                   f"{where}: inputs of a failed call stay alive while the run continues")
            if where is None and n_user:
                # ... and through the callers of the frames the user's traceback legitimately keeps (frame.f_back): the user's
                # frame was called from BoundCall.run, whose locals are the argument values
                where2 = find_token([("the carrier kept by the engine", err)], "Vx")
                ctx.ob(rid_retained, "RUN/first-failure-pins-arguments-through-f_back", where2 is None, loc(rr.runcb),
                       "evaluated: the argument values of the failed call are unreachable also through the caller frames of the kept traceback" if where2 is None else
                       f"the error the engine keeps until the run ends (the first failure) references the failed call's argument values through "
                       f"{where2}: the frame that invoked the user's function stays alive as f_back of the user's frame in the kept traceback")


def rule_run_callback(ctx, rr, rid_binding=None, rid_slots=None, rid_release=None, rid_bracket=None):
    """Evaluate preparation + callback on the symbolic plan, on the success path and with a failing call."""
    m = ctx.model
    f = rr.prep_run
    try:
        ev = RunEval(m, rr)
        table, out_slot, proc = ev.prepare()
        for n in (ev.x, ev.lit, ev.c, ev.d, ev.s1):
            ev.process(proc, n)
        ev2 = RunEval(m, rr)
        table2, out_slot2, proc2 = ev2.prepare()
        evf = RunEval(m, rr, fail="c")
        tablef, out_slotf, procf = evf.prepare()
        evf.process(procf, evf.x)
        evf.process(procf, evf.d)
        err = evf.process(procf, evf.c)
    except AbsRaise as e:
        raise AnalysisError(f"abstract evaluation of the run callback raised {e.value!r}")
    if rid_binding:
        want = [("x", (), {}), ("c", ("Vx", 7), {"k": "Vx"}), ("d", ("Vx",), {}), ("s1", (), {})]
        ok = ev.calls == want
        ctx.ob(rid_binding, f"{rr.bound_run.short}/binding", ok, loc(rr.bound_run),
               "evaluated on x=fx(); c=fc(x, 7, k=x); d=fd(x): every function receives the values of its argument nodes in order and by name" if ok else
               f"evaluated on x=fx(); c=fc(x, 7, k=x); d=fd(x): the functions were invoked as {ev.calls!r}, expected {want!r}")
        ok = len(ev.applied) == 4 and all(isinstance(a, Stub) and a.name.startswith("fn_") for a in ev.applied)
        ctx.ob(rid_binding, f"{rr.bound_run.short}/through-retry", ok, loc(rr.bound_run),
               "each user function is invoked through retry(fn)" if ok else
               f"the user functions are not (all) wrapped by the retry decorator (decorated: {[getattr(a, 'name', a) for a in ev.applied]})")
        # a failing function is invoked once (per attempt) whatever it raises: an exception class that uberjob's own code also
        # produces (TypeError for an unhashable key, KeyError / AttributeError for a missing entry ...) must not be mistaken for one
        # of its own and answered by calling the function again
        again = []
        for exc_ in ("TypeError", "KeyError", "AttributeError", "LookupError", "StopIteration", "RuntimeError"):
            try:
                e3 = RunEval(m, rr, fail="c", fail_exc=exc_)
                t3, o3, p3 = e3.prepare()
                e3.process(p3, e3.x)
                r3 = e3.process(p3, e3.c)
            except AbsRaise as ex_:
                raise AnalysisError(f"abstract evaluation of the run callback raised {ex_.value!r}")
            k_ = sum(1 for c_ in e3.calls if c_[0] == "c")
            if k_ != 1 or r3 is None:
                again.append(f"raising {exc_}: invoked {k_} time(s)" + ("" if r3 is not None else ", failure swallowed"))
        ctx.ob(rid_binding, f"{rr.bound_run.short}/one-invocation-per-attempt", not again, loc(rr.bound_run),
               "evaluated: a function that raises TypeError / KeyError / AttributeError / LookupError / StopIteration / RuntimeError is invoked once and the failure propagates"
               if not again else "evaluated with a failing function - " + "; ".join(again[:3]))
        ok = out_slot is not None and out_slot.attrs.get("value") == "Vc"
        ctx.ob(rid_binding, f"{f.short}/result-in-output-slot", ok, loc(f),
               "the value returned by the output call ends up in the output slot" if ok else
               f"the output slot holds {out_slot.attrs.get('value') if out_slot is not None else None!r} after the output call returned 'Vc'")
    if rid_slots:
        keys = set(id(k) for k in table)
        ok = keys == {id(ev.x), id(ev.c), id(ev.d), id(ev.s1), id(ev.s2)}
        ctx.ob(rid_slots, f"{f.short}/bound-calls-for-calls-only", ok, loc(f), "bound calls exist only for exact Call nodes" if ok else
               "a non-Call node can get a bound call (its .result.value store would overwrite a Literal)")
        ok = ev.lit.attrs.get("value") == 7 and out_slot is not None and out_slot2 is not None and out_slot is not out_slot2 \
            and out_slot2.attrs.get("value") is None and out_slot is not ev.c and out_slot.cls is not None and out_slot.cls is not ev.c.cls and out_slot.cls is not ev.lit.cls
        ctx.ob(rid_slots, f"{f.short}/one-fresh-slot-per-node", ok, loc(f),
               "slot table: node itself for exact Literal nodes, a fresh Slot(None) for every other node (a second preparation of "
               "the same plan shares no slot with the first; the literal keeps its value)" if ok else
               "the per-run slot table is not `{node: node if type(node) is Literal else Slot(None) for every node}`: results are "
               "shared between calls or between overlapping runs of one plan")
    if rid_release:
        def cell(tb, node):
            v = [v for k, v in tb.items() if k is node]
            return v[0] if v else None
        ok = all(isinstance(cell(table, n), Obj) and cell(table, n).attrs.get("value") is None for n in (ev.x, ev.c, ev.d, ev.s1))
        ctx.ob(rid_release, f"{f.short}/released-after-call", ok, loc(f),
               "after a call returned its bound call (argument slots) has been dropped from the table" if ok else
               "the bound call of a finished call stays in the table: its inputs stay reachable until the run ends")
        okf = isinstance(cell(tablef, evf.c), Obj) and cell(tablef, evf.c).attrs.get("value") is None
        ctx.ob(rid_release, f"{f.short}/released-after-failure", okf, loc(f),
               "after a call raised its bound call has been dropped as well" if okf else
               "the bound call of a failed call stays in the table: its inputs stay reachable while the run continues")
    if rid_release:
        # abstract-heap reachability: once c and d (the consumers of x) have finished, the value of x must not be reachable from
        # anything the preparation handed out - whatever table, closure or record would still hold it
        for label, e_, tb_, os_, pr_ in (("after-last-consumer", ev, table, out_slot, proc), ("after-failed-consumer", evf, tablef, out_slotf, procf)):
            roots = [("bound-call table", tb_), ("output slot", os_), ("run callback", pr_), ("plan", e_.w.plan)]
            where = find_token(roots, "Vx")
            if where is None and label == "after-last-consumer":
                # a finished call whose result nobody consumes (s1; s2 has not run yet) holds nothing either
                where = find_token(roots, "Vs1")
                if where is not None:
                    where += " (result of a finished call that has no consumer)"
            ctx.ob(rid_release, f"{f.short}/unreachable-{label}", where is None, loc(f),
                   "evaluated: the result of x is unreachable from the bound-call table, the output slot, the callback and the plan once its "
                   "last consumer has " + ("finished" if label == "after-last-consumer" else "failed") if where is None else
                   f"evaluated: after its last consumer {'finished' if label == 'after-last-consumer' else 'failed'} the result of x is still "
                   f"referenced through {where}: intermediate results stay alive for the whole run")
    if rid_bracket:
        def well_formed(events, kinds):
            return [e[0] for e in events] == kinds and all(e[1] == "run" for e in events) and \
                all(events[i][2] == events[i + 1][2] for i in range(0, len(events) - 1, 2))
        ok = well_formed(ev.events, ["increment_running", "increment_completed"] * 4)
        ctx.ob(rid_bracket, f"{f.short}/bracket-on-success", ok, loc(f),
               "evaluated: each call reports running then completed with the same section and scope; a literal reports nothing" if ok else
               f"evaluated: the notifications for x, literal, c were {ev.events!r}")
        # the same with the error objects built by the package itself (nothing stubbed) and scope values that are not strings
        try:
            evs = RunEval(m, rr, fail="c", interpret_errors=True, scope=(1, ("t", 2.5), None))
            ts_, os_s, ps_ = evs.prepare()
            evs.process(ps_, evs.x)
            errs = evs.process(ps_, evs.c)
            kinds_ = [e[0] for e in evs.events]
            oks = kinds_ == ["increment_running", "increment_completed", "increment_running", "increment_failed"] and errs is not None
            whys = f"notifications {kinds_}, raised {getattr(errs, 'name', errs)!r}"
        except AbsRaise as e_:
            oks, whys = False, f"evaluation raised {e_.value!r}"
        ctx.ob(rid_bracket, f"{f.short}/bracket-on-failure[scope values of any type]", oks, loc(f),
               "evaluated with the package's own error construction and a scope (1, ('t', 2.5), None): a failing call reports running then failed" if oks else
               f"evaluated with a scope (1, ('t', 2.5), None) and a failing call: building the error for the observer fails - {whys}; "
               f"'running' is never followed by 'failed'")
        okf = well_formed(evf.events, ["increment_running", "increment_completed"] * 2 + ["increment_running", "increment_failed"]) and err is not None
        ctx.ob(rid_bracket, f"{f.short}/bracket-on-failure", okf, loc(f),
               "evaluated: a failing call reports running then failed (once), and the failure propagates" if okf else
               f"evaluated with a failing call: notifications {evf.events!r}, raised {err!r}")


def rule_frames_of_created_calls(ctx, rid, rr):
    """C19.S2 by evaluation: each public plan-building method captures the stack frame exactly once, and every Call node
    it creates - the call itself and the implicit gather / unpack / getitem calls - carries that one frame.  Independent of
    how the frame is threaded through the implementation (parameter, closure, helper object)."""
    from .rewriterules import World
    m = ctx.model
    planc = m.one_class("Plan", "EVAL")
    out = []
    for label, meth, mk_args in (
            ("call", "call", lambda w, x, y, fn: ([fn, x, [x, y]], {"k": {"a": y}})),
            ("gather", "gather", lambda w, x, y, fn: ([(x, [y])], {})),
            ("unpack", "unpack", lambda w, x, y, fn: ([x, 2], {}))):
        w = World(m, rr)
        count = [0]

        def gsf(*a, _c=count):
            _c[0] += 1
            return roles.frame_token(m, f"F#{_c[0]}")
        w.interp.stubs["get_stack_frame"] = Stub("get_stack_frame", gsf)
        w.interp.ext["inspect.signature"] = lambda fn_: Obj(None, {"bind": Stub("bind", lambda *a, **k: None)}, name="signature")
        w.interp.ext.setdefault("builtins.callable", lambda x_: True)
        w.interp.stubs["assert_can_bind"] = Stub("assert_can_bind", lambda *a, **k: None)
        w.interp.stubs["assert_is_callable"] = Stub("assert_is_callable", lambda *a, **k: None)
        w.interp.stubs["assert_is_instance"] = Stub("assert_is_instance", lambda *a, **k: None)
        x, y = w.call("x"), w.call("y")
        before = list(w.g._nodes)
        f = planc.methods.get(meth)
        if f is None:
            raise AnalysisError(f"Plan.{meth} not found")
        args, kwargs = mk_args(w, x, y, Stub("user_fn", None))
        try:
            w.interp.call_func(f, None, args, kwargs, bound_self=w.plan)
        except AbsRaise as e:
            raise AnalysisError(f"abstract evaluation of Plan.{meth} raised {e.value!r}")
        new_calls = [n for n in w.g._nodes if n not in before and isinstance(n, Obj) and n.cls is not None and n.cls.name == "Call"]
        frames = [getattr(n.attrs.get("stack_frame"), "name", n.attrs.get("stack_frame")) for n in new_calls]
        ok = count[0] == 1 and bool(new_calls) and all(fr == "F#1" for fr in frames)
        if ok:
            # a second use of the same method from another caller (same line of a helper, another outer frame): its calls carry the
            # second capture, not a chain remembered from the first
            seen_ = list(w.g._nodes)
            args2, kwargs2 = mk_args(w, x, y, Stub("user_fn", None))
            try:
                w.interp.call_func(f, None, args2, kwargs2, bound_self=w.plan)
            except AbsRaise as e:
                raise AnalysisError(f"abstract evaluation of Plan.{meth} raised {e.value!r}")
            second = [n for n in w.g._nodes if n not in seen_ and isinstance(n, Obj) and n.cls is not None and n.cls.name == "Call"]
            frames2 = [getattr(n.attrs.get("stack_frame"), "name", n.attrs.get("stack_frame")) for n in second]
            ok = count[0] == 2 and bool(second) and all(fr == "F#2" for fr in frames2)
            frames = frames + frames2
        ctx.ob(rid, f"Plan.{meth}/one-frame-for-all-created-calls", ok, loc(f),
               f"evaluated: the frame is captured once and all {len(new_calls)} calls created by plan.{meth}(...) carry it" if ok else
               f"evaluated plan.{meth}(...) on a structured argument: get_stack_frame was called {count[0]} time(s) and the created calls carry "
               f"frames {frames}: some created call is attributed to another line (or to a line inside uberjob)")
        out.append(ok)
    return all(out)


def _announces(m, host, call, section, depth=0):
    """Does this call (in `host`) announce the totals of `section`?  Either it is itself `<observer>.increment_total(section=<section>)`,
    or its callee (transitively) does so with that constant, or with a section parameter that this call binds to the constant."""
    import ast as _ast
    if isinstance(call.func, _ast.Attribute) and call.func.attr == "increment_total":
        sec = [k.value for k in call.keywords if k.arg == "section"]
        return bool(sec) and isinstance(sec[0], _ast.Constant) and sec[0].value == section
    if depth > 3:
        return False
    for f in m.callee_funcs(host, call):
        if f.module.name.startswith("uberjob.progress"):
            continue
        for c2 in f.own_calls():
            if isinstance(c2.func, _ast.Attribute) and c2.func.attr == "increment_total":
                sec = [k.value for k in c2.keywords if k.arg == "section"]
                if sec and isinstance(sec[0], _ast.Constant) and sec[0].value == section:
                    return True
                if sec and isinstance(sec[0], _ast.Name) and sec[0].id in f.params:
                    # the section is a parameter of the helper: what does this call pass for it?
                    pname = sec[0].id
                    given = [k.value for k in call.keywords if k.arg == pname]
                    if not given and pname in f.pos_params:
                        i_ = f.pos_params.index(pname) - (1 if f.cls is not None else 0)
                        given = [call.args[i_]] if 0 <= i_ < len(call.args) else []
                    if not given and pname in f.defaults:
                        given = [f.defaults[pname]]
                    if given and isinstance(given[0], _ast.Constant) and given[0].value == section:
                        return True
            elif _announces(m, f, c2, section, depth + 1):
                return True
    return False


def totals_site(m, rr, section):
    """Role TOTALS[section]: the call in run (section 'run') / in the registry application (section 'stale') that announces the
    totals of the section - a call of a dedicated totals function, of a shared helper that is told the section, or the
    increment_total call itself.  -> (host function, call node)"""
    host = rr.run if section == "run" else rr.apply
    found = [c for c in host.own_calls() if _announces(m, host, c, section)]
    # keep the outermost calls only (a helper call whose argument contains another announcing call cannot occur; defensive)
    if not found:
        raise AnalysisError(f"role TOTALS[{section}]: no call in {host.qualname} announces the '{section}' totals")
    return host, found[0] if len(found) == 1 else found


def totals_function(m, section):
    """The dedicated totals function of a section when there is one (today _update_run_totals / _update_stale_totals), else None."""
    import ast as _ast
    found = []
    for f in m.funcs.values():
        if f.module.name.startswith("uberjob.progress") or f.module.name.startswith("uberjob._testing"):
            continue
        for c in f.own_calls():
            if isinstance(c.func, _ast.Attribute) and c.func.attr == "increment_total":
                sec = [k.value for k in c.keywords if k.arg == "section"]
                if sec and isinstance(sec[0], _ast.Constant) and sec[0].value == section:
                    found.append(f)
    found = list(dict.fromkeys(found))
    return found[0] if len(found) == 1 else None


def eval_totals_site(interp, m, rr, section, values):
    """Evaluate the totals call of `section` with the host's variables bound to abstract values (values: {'plan': ..,
    'observer': .., 'registry': ..}).  The names are the host's own: run's plan parameter and observer variable / the
    registry application's parameters."""
    from ..absval import Env
    from ..astq import names_in
    host, call = totals_site(m, rr, section)
    if isinstance(call, list):
        call = call[0]  # several call sites on different paths (e.g. one per arm): they are checked to be alternatives by C15.P2
    env = Env(host, Env(host.module))
    if host is rr.run:
        env.vars[host.pos_params[0]] = values["plan"]
        env.vars[rr.observer_var] = values["observer"]
    else:
        for p_ in host.params:
            if "observer" in p_:
                env.vars[p_] = values["observer"]
            elif "registry" in p_:
                env.vars[p_] = values.get("registry")
        env.vars[host.pos_params[0]] = values["plan"]
    missing = [n for n in names_in(call) if env.lookup(n)[0] is None and m.binding_scope(host, n) is host]
    if missing:
        raise AnalysisError(f"role TOTALS[{section}]: the totals call `{norm(call)[:80]}` uses the local(s) {sorted(missing)} of {host.short}")
    return interp.eval(call, env)


def rule_totals(ctx, rid, rr, rid_positive=None):
    """Totals, evaluated on a symbolic plan with calls a1, a2 (scope A), b (scope B) and a literal: the run-totals function
    announces, for section 'run', exactly one total per scope whose amount is the number of Call nodes in it (2 and 1, never
    0), and the scope it announces for a call is the scope the run callback reports for that call."""
    from .rewriterules import World
    m = ctx.model
    host_, call_ = totals_site(m, rr, "run")
    if isinstance(call_, list):
        call_ = call_[0]
    f = totals_function(m, "run") or host_
    w = World(m, rr)
    a1, a2, b = w.call("a1", scope=("A",)), w.call("a2", scope=("A",)), w.call("b", scope=("B",))
    w.interp.call_func(m.method("Plan", "lit", "EVAL"), None, [7], {}, bound_self=w.plan)
    import collections as _c
    w.interp.ext["collections.Counter"] = lambda it=(): _c.Counter(list(it))
    totals, events = [], []
    obs = Obj(None, {"increment_total": Stub("increment_total", lambda *a, **k: totals.append((k.get("section"), k.get("scope"), k.get("amount")))),
                     "increment_running": Stub("increment_running", lambda *a, **k: events.append(("running", k.get("section"), k.get("scope")))),
                     "increment_completed": Stub("increment_completed", lambda *a, **k: None),
                     "increment_failed": Stub("increment_failed", lambda *a, **k: None)}, name="observer")
    params = {"plan": w.plan, "progress_observer": obs}
    try:
        try:
            eval_totals_site(w.interp, m, rr, "run", {"plan": w.plan, "observer": obs})
        except AnalysisError as e0:
            # the call hands further locals of run to a dedicated totals function: evaluate that function on its own, with its
            # extra parameters at their defaults (they are exercised separately below)
            if f is host_ or "uses the local(s)" not in str(e0):
                raise
            args = [params[p] for p in f.pos_params if p in params]
            if len(args) != len([p for p in f.pos_params if p not in f.defaults]):
                raise AnalysisError(f"unexpected parameters of {f.qualname}: {f.pos_params}")
            w.interp.call_func(f, None, args, {})
    except AbsRaise as e:
        raise AnalysisError(f"abstract evaluation of the run totals ({norm(call_)[:60]}) raised {e.value!r}")
    amounts = sorted(t[2] for t in totals if isinstance(t[2], int))
    ok = amounts == [1, 2] and all(t[0] == "run" for t in totals) and len({t[1] for t in totals}) == 2
    ctx.ob(rid, f"{f.short}/amount", ok, loc(f), "amount = multiplicity of the scope among the Call nodes" if ok else
           f"announced amount is not the multiplicity of the scope: two calls in scope A, one in scope B and a literal announced {totals}")
    if rid_positive and f is not host_ and all(p in f.params for p in ("plan", "progress_observer")):
        # further inputs of the totals function (parameters with an empty default) are exercised with a scope that no call of
        # the plan is in: whatever they are for, they must not make a total of 0 appear
        import ast as _ast
        for p_ in f.params:
            d_ = f.defaults.get(p_)
            if p_ in params or d_ is None:
                continue
            empty = (isinstance(d_, (_ast.Tuple, _ast.List, _ast.Set)) and not d_.elts) or (isinstance(d_, _ast.Constant) and d_.value is None) \
                or (isinstance(d_, _ast.Dict) and not d_.keys)
            if not empty:
                continue
            try:
                kw = {p_: [("Z",)]}
                w.interp.call_func(f, None, [params[x] for x in f.pos_params if x in params], kw if p_ in f.kwonly_params else {},
                                   ) if p_ in f.kwonly_params else w.interp.call_func(
                    f, None, [params.get(x, [("Z",)] if x == p_ else None) for x in f.pos_params[:f.pos_params.index(p_) + 1]], {})
            except (AbsRaise, AnalysisError):
                pass
    if rid_positive:
        pos = bool(totals) and all(isinstance(t[2], int) and t[2] >= 1 for t in totals)
        ctx.ob(rid_positive, f"{f.short}/totals-positive", pos, loc(f),
               "every announced total is at least 1 (the displays divide by it)" if pos else
               f"a total of 0 (or a non-count) can be announced ({totals}): the HTML display divides by the total and its update thread dies")
    # same scope as the reports: run the callback for a1 and compare
    w.interp.ext.setdefault("threading.Lock", lambda: Obj(None, {}, "lock"))
    w.interp.stubs["prune_source_literals"] = Stub("prune_source_literals", lambda p, **kw: p)
    for n_ in (a1, a2, b):
        n_.attrs["fn"] = Stub("fn", lambda *a, **k: "V")
    try:
        prep = w.interp.call_func(rr.prep_run, None, [w.plan], {"inplace": False, "output_node": None, "retry": Stub("retry", lambda g: g), "progress_observer": obs})
        vals = [prep.attrs[n] for n in prep.attrs.get("__tuple_fields__", [])]
        procs = [v for v in vals if type(v).__name__ == "Closure"]
        if len(procs) == 1:
            w.interp.call(procs[0], [a1], {})
    except AbsRaise as e:
        raise AnalysisError(f"abstract evaluation of the run callback raised {e.value!r}")
    sc = [e[2] for e in events if e[0] == "running"]
    same = bool(sc) and any(t[1] == sc[0] and t[2] == 2 for t in totals)
    ctx.ob(rid, f"{f.short}~{rr.runcb.short}", same, loc(f),
           "totals and reporting derive the same scope for a call (evaluated)" if same else
           f"totals and reports disagree per scope: the total for a1 was announced under {[t[1] for t in totals]}, its execution is reported under {sc}")
