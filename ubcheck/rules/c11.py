"""C11 - file-backed stores replace their file atomically at every failure point.

Decides (statically): who may write where, the publication CFG of the staging helpers, close-before-rename
nesting, staging-name derivation, mode discipline.  Does not decide: atomicity of rename(2) on the host,
os.remove failing, power loss."""
from __future__ import annotations

import ast

from ..astq import arg, const, ext_names, handler_catches_all, inside, is_name, loc, names_in, stmt_of
from ..cfg import CFG
from ..model import AnalysisError, norm, head

MUTATING_EXT = {
    "os.open", "os.replace", "os.rename", "os.renames", "os.remove", "os.unlink", "os.truncate", "os.utime",
    "os.rmdir", "os.removedirs", "os.link", "os.symlink", "os.ftruncate", "os.write", "os.mkfifo",
    "io.open", "io.FileIO", "codecs.open",
}
MUTATING_PREFIX = ("shutil.", "tempfile.")
MUTATING_ATTRS = {"write_text", "write_bytes", "touch", "rename", "replace", "unlink", "rmdir", "rmtree",
                  "truncate", "hardlink_to", "symlink_to"}
REMOVE_EXT = {"os.remove", "os.unlink"}
REMOVE_ATTRS = {"unlink"}
RENAME_EXT = {"os.replace", "os.rename"}


def open_mode(call):
    m = arg(call, 1, "mode")
    if m is None:
        return "r"
    return const(m, None)


def is_open(model, f, call):
    return bool(ext_names(model, f, call) & {"builtins.open", "io.open", "codecs.open"})


def roles(model):
    publish = []  # contextmanager generators that rename a staging file onto the target
    for f in model.funcs.values():
        if f.is_contextmanager and any(ext_names(model, f, c) & RENAME_EXT for c in f.own_calls()):
            publish.append(f)
    if not publish:
        raise AnalysisError("role PUBLISH: no @contextmanager generator calling os.replace/os.rename found")
    stagefile = []
    for f in model.funcs.values():
        if f.is_contextmanager and f not in publish:
            if any(model.callee_funcs(f, c) & set(publish) for c in f.own_calls()):
                stagefile.append(f)
    filestore = model.one_class("FileStore", "FILESTORES")
    stores = [c for c in model.classes.values() if filestore in c.repo_mro() and c is not filestore
              and not c.is_abstract()]
    return publish, stagefile, filestore, stores


def mutating_call(model, f, call):
    """Returns a description if `call` can create/truncate/rename/remove/re-time a file, else None."""
    names = ext_names(model, f, call)
    for n in names:
        if n in MUTATING_EXT or n.startswith(MUTATING_PREFIX):
            return n
        if n in ("builtins.open",):
            mode = open_mode(call)
            if mode is None:
                return "open(<non-constant mode>)"
            if any(ch in mode for ch in "wax+"):
                return f"open(mode={mode!r})"
    if isinstance(call.func, ast.Attribute) and call.func.attr in MUTATING_ATTRS:
        # str.replace / re.replace on text is not a file operation: require a path-ish receiver
        if call.func.attr == "replace" and not any(n.startswith("pathlib.") for n in names):
            recv = model.origins_of(f, call.func.value)
            if not any(o[0] in ("extinst", "ext") and "pathlib" in o[1] for o in recv):
                return None
        return f".{call.func.attr}()"
    return None


def check(ctx):
    m = ctx.model
    ctx.rule("C11.A1", "no method of a FileStore subclass (nor the HTML observer) creates, truncates, renames, removes "
                       "or re-times a file except through the staging helpers called with its own path")
    ctx.rule("C11.A2", "publication CFG: one yield; rename reachable only from the normal out-edge of the yield, with "
                       "(staging, target) arguments; on any BaseException the staging file is removed and the "
                       "exception re-raised by a bare raise")
    ctx.rule("C11.A3", "the staging file object is closed before the rename: open(staging) is nested inside the "
                       "publishing context, the rename is outside every with-open")
    ctx.rule("C11.A4", "the staging name is the full target path with a constant suffix appended (same directory, injective)")
    ctx.rule("C11.A5", "mode discipline: helper rejects modes without 'w'; call sites pass constant modes from {w, wb}")
    ctx.rule("C11.A6", "the helpers touch the target path only through the rename")
    ctx.rule("C11.A8", "on the normal path of the with-body the rename happens on every path (write success <=> target replaced, modified time advanced)")
    ctx.rule("C11.A9", "staging files are private to the publishing helpers: nothing else in the package names a staging path (the suffix constant or its text) - a staging file left behind by a killed process is not looked at, waited for or treated as a lock by anyone")
    ctx.run(rule_staging_names_private, "C11.A9")
    ctx.rule("C11.A7", "a failing rename (I/O error on rename) is covered by the same remove-and-re-raise cleanup")
    ctx.trust("os.replace(src, dst) is atomic when both are on one file system; open(..., 'w') truncates")
    ctx.trust("try/finally and with run their exit code on every exit; a bare raise re-raises the handled exception")
    ctx.assume("exceptional edges leave only: the yield of a @contextmanager generator (the with-body's exception is "
               "thrown in there), explicit raise, open() and the rename call")
    publish, stagefile, filestore, stores = roles(m)
    ctx.floor("C11.A1", "concrete FileStore subclasses", len(stores), 5)
    ctx.floor("C11.A2", "publishing context managers", len(publish), 1)
    helpers = set(publish) | set(stagefile)

    # ---------------------------------------------------------------- A1 who-may-write
    def check_writer(f, self_path_ok):
        for call in f.own_calls():
            targets = m.callee_funcs(f, call)
            if targets & helpers:
                a0 = arg(call, 0, "path")
                ok = a0 is not None and self_path_ok(a0)
                ctx.ob("C11.A1", f.short, ok, loc(f, call),
                       "staging helper must be called with the store's own path" if not ok else "helper(self.path)",
                       norm(call))
                continue
            why = mutating_call(m, f, call)
            if why:
                ctx.ob("C11.A1", f.short, False, loc(f, call),
                       f"direct file mutation {why} bypasses the staging helpers", norm(stmt_of(f.module, call)))
        for g in f.nested:
            check_writer(g, self_path_ok)

    n_write_ok = 0
    for cls in [filestore] + stores:
        for name, meth in sorted(cls.methods.items()):
            selfname = meth.pos_params[0] if meth.pos_params else "self"

            def self_path(e, selfname=selfname):
                return (isinstance(e, ast.Attribute) and e.attr == "path" and is_name(e.value, selfname))

            before = len(ctx.findings)
            check_writer(meth, self_path)
            # transitive: repo functions called from the method (other than the helpers) must not mutate files
            for g in m.reachable([meth], kinds=("call",)) - {meth} - helpers - m.reachable(list(helpers), kinds=("call",)):
                for call in g.own_calls():
                    why = mutating_call(m, g, call)
                    if why:
                        ctx.ob("C11.A1", f"{meth.short} -> {g.short}", False, loc(g, call),
                               f"file mutation {why} reachable from a store method outside the staging helpers",
                               norm(stmt_of(g.module, call)))
            if len(ctx.findings) == before:
                ctx.ob("C11.A1", meth.short, True, loc(meth), "no direct file mutation")
        if cls is not filestore:
            w = cls.lookup("write")
            if w is None or isinstance(w, tuple):
                raise AnalysisError(f"{cls.name} has no write method")
            n_help = [c for c in w.own_calls() if m.callee_funcs(w, c) & helpers]
            ok = len(n_help) >= 1
            n_write_ok += ok
            ctx.ob("C11.A1", f"{cls.name}.write/uses-helper", ok, loc(w),
                   "write goes through a staging helper" if ok else "write never calls a staging helper")
    # other users of the helpers in the package (HTML observer): path argument must not be written elsewhere
    for f in m.funcs.values():
        if f in helpers or (f.cls in stores) or f.module.name.startswith("uberjob._testing"):
            continue
        uses = [c for c in f.own_calls() if m.callee_funcs(f, c) & helpers]
        if not uses:
            continue
        for call in f.own_calls():
            why = mutating_call(m, f, call)
            if why and not (m.callee_funcs(f, call) & helpers):
                ctx.ob("C11.A1", f.short, False, loc(f, call), f"direct file mutation {why} next to a staged write",
                       norm(stmt_of(f.module, call)))
        ctx.ob("C11.A1", f.short, True, loc(f), "uses staging helper")

    # ---------------------------------------------------------------- A2/A7 publication CFG
    def raising(node):
        for x in ast.walk(node):
            if isinstance(x, ast.Call):
                ns = ext_names(m, cur, x)
                if ns & RENAME_EXT or ns & {"builtins.open"}:
                    return True
        return False

    for f in publish:
        cur = f
        mod = f.module
        g = CFG(f, may_raise=raising)
        yields = [n for n in f.own_nodes() if isinstance(n, ast.Yield)]
        ok = len(yields) == 1
        ctx.ob("C11.A2", f"{f.short}/one-yield", ok, loc(f), f"{len(yields)} yield expressions")
        if not ok:
            continue
        y = yields[0]
        ystmt = stmt_of(mod, y)
        ynodes = g.of(ystmt)
        renames = [c for c in f.own_calls() if ext_names(m, f, c) & RENAME_EXT]
        if not f.pos_params:
            raise AnalysisError(f"{f.qualname}: publishing helper without a path parameter")
        path_param = f.pos_params[0]
        staging_names = names_in(y.value) if y.value is not None else set()
        # the staging variable: the name yielded, or (file-object helper) the first argument of open()
        opens = [c for c in f.own_calls() if is_open(m, f, c)]
        staging_vars = set()
        if y.value is not None and isinstance(y.value, ast.Name) and not opens:
            staging_vars.add(y.value.id)
        for oc in opens:
            a0 = arg(oc, 0, "file")
            if isinstance(a0, ast.Name):
                staging_vars.add(a0.id)
        for rc in renames:
            rstmt = stmt_of(mod, rc)
            rnodes = set(g.of(rstmt))
            # (i) not reachable from the exceptional out-edge of the yield
            bad = set()
            for yn in ynodes:
                bad |= g.reach([yn], first_labels={"e"}) & rnodes
            p = ""
            if bad:
                p = g.fmt_path(g.path(ynodes[0], bad, first_labels={"e"}))
            ctx.ob("C11.A2", f"{f.short}/rename-only-on-success", not bad, loc(f, rc),
                   "rename is reachable after an exception at the yield (a half-written staging file would be published)"
                   if bad else "rename unreachable from the exceptional edge of the yield", norm(rstmt), p)
            # (ii) dominated by the yield's normal completion
            dom = all(g.dominates(set(ynodes), rn) for rn in rnodes)
            ctx.ob("C11.A2", f"{f.short}/rename-after-body", dom, loc(f, rc),
                   "rename dominated by the yield" if dom else "rename can run before the with-body", norm(rstmt))
            # (iii) arguments
            a0, a1 = arg(rc, 0, "src"), arg(rc, 1, "dst")
            ok = isinstance(a0, ast.Name) and a0.id in staging_vars and is_name(a1, path_param)
            ctx.ob("C11.A2", f"{f.short}/rename-args", ok, loc(f, rc),
                   "rename(staging, target)" if ok else
                   f"rename arguments are not (staging variable {sorted(staging_vars)}, target parameter {path_param!r})",
                   norm(rc))
            # A7: the rename itself may fail -> cleanup must cover it
            for rn in rnodes:
                if not any(lab == "e" for _b, lab in g.succ[rn]):
                    continue
                removes = cleanup_nodes(m, f, g, staging_vars)
                ok = g.must_pass(rn, removes, exits={g.raise_exit}, first_labels={"e"})
                p = "" if ok else g.fmt_path(g.path(rn, {g.raise_exit}, avoid=removes, first_labels={"e"}))
                ctx.ob("C11.A7", f"{f.short}/rename-failure-cleanup", ok, loc(f, rc),
                       "a failing rename reaches the staging-file removal" if ok else
                       "if the rename raises, the exception escapes without removing the staging file "
                       "(staging file left behind after a failed write)", norm(rstmt), p)
        # (v) A8: on the normal path the rename always happens (the target and its mtime change iff the write succeeded)
        rn_all = set()
        for rc in renames:
            rn_all |= set(g.of(stmt_of(mod, rc)))
        for yn in ynodes:
            okp = g.must_pass(yn, rn_all, exits={g.exit}, first_labels={"n"})
            p = "" if okp else g.fmt_path(g.path(yn, {g.exit}, avoid=rn_all, first_labels={"n"}))
            ctx.ob("C11.A8", f"{f.short}/publish-on-every-normal-path", okp, loc(f, ystmt),
                   "after the with-body completed normally every path publishes the staging file" if okp else
                   "a successful write can return without replacing the target: the value (or at least its modified time) is not the "
                   "new one although write() reported success", norm(ystmt), p)
        # (iv) exceptional edge of the yield: cleanup then bare re-raise, never swallowed
        removes = cleanup_nodes(m, f, g, staging_vars)
        for yn in ynodes:
            ok_rm = g.must_pass(yn, removes, exits={g.raise_exit, g.exit}, first_labels={"e"})
            p = "" if ok_rm else g.fmt_path(g.path(yn, {g.raise_exit, g.exit}, avoid=removes, first_labels={"e"}))
            ctx.ob("C11.A2", f"{f.short}/cleanup-on-exception", ok_rm, loc(f, ystmt),
                   "every exceptional path from the yield removes the staging file" if ok_rm else
                   "an exception at the yield can leave the function without removing the staging file",
                   norm(ystmt), p)
            swallowed = g.exit in g.reach([yn], first_labels={"e"}, avoid=set())
            # normal exit reachable after exception only if a handler swallows it
            exc_reach = g.reach([yn], first_labels={"e"})
            swallowed = g.exit in exc_reach
            ctx.ob("C11.A2", f"{f.short}/no-swallow", not swallowed, loc(f, ystmt),
                   "the exception is re-raised on every path" if not swallowed else
                   "a handler swallows the exception of the with-body (failed write reported as success)", norm(ystmt))
        # handler class on the yield
        t = None
        for anc in [p for p in ast.walk(f.node) if isinstance(p, ast.Try)]:
            if any(s is ystmt or inside(mod, ystmt, s) for s in anc.body):
                t = anc
        if t is not None and t.handlers:
            for h in t.handlers:
                covers = handler_catches_all(h)
                has_rm = any(isinstance(x, ast.Call) and is_cleanup_call(m, f, x, staging_vars) for x in ast.walk(h))
                if has_rm or len(t.handlers) == 1:
                    ctx.ob("C11.A2", f"{f.short}/handler-class", covers, loc(f, h),
                           "handler catches BaseException" if covers else
                           f"cleanup handler catches only {norm(h.type)}: KeyboardInterrupt/SystemExit during "
                           f"serialisation leave the staging file behind", head(h))
                    raises = [x for x in ast.walk(h) if isinstance(x, ast.Raise)]
                    bare = bool(raises) and all(r.exc is None for r in raises)
                    ctx.ob("C11.A2", f"{f.short}/bare-reraise", bare, loc(f, h),
                           "bare raise" if bare else "handler does not re-raise with a bare raise", head(h))
        elif not stagefile_like(m, f, publish):
            # no handler: fine exactly when a finally does the cleanup for every exception class - which is what the
            # path obligation cleanup-on-exception above has decided (must-pass on the exceptional out-edge of the yield)
            covered = all(g.must_pass(yn, removes, exits={g.raise_exit, g.exit}, first_labels={"e"}) for yn in ynodes) and bool(removes)
            ctx.ob("C11.A2", f"{f.short}/handler-class", covered, loc(f, ystmt),
                   "cleanup runs for every exception class (finally)" if covered else
                   "the yield is not protected by any exception handler", norm(ystmt))

        # ------------------------------------------------------------ A3 close before rename
        for oc in opens:
            w = None
            for anc in ast.walk(f.node):
                if isinstance(anc, ast.With) and any(it.context_expr is oc for it in anc.items):
                    w = anc
            if w is None:
                ctx.ob("C11.A3", f"{f.short}/open-in-with", False, loc(f, oc),
                       "staging file opened outside a with statement (not closed on all paths)", norm(oc))
                continue
            for rc in renames:
                ins = inside(mod, rc, w)
                ctx.ob("C11.A3", f"{f.short}/rename-outside-open", not ins, loc(f, rc),
                       "rename happens while the staging file is still open (unflushed data published; a failing "
                       "close is reported after the target was replaced)" if ins else "rename after close",
                       norm(stmt_of(mod, rc)))

        # ------------------------------------------------------------ A4 staging name
        check_staging_name(ctx, m, f, staging_vars, path_param)

        # ------------------------------------------------------------ A6 target otherwise untouched
        check_path_uses(ctx, m, f, path_param, helpers)

    # ---------------------------------------------------------------- A3 for the file-object helper(s)
    for f in stagefile:
        mod = f.module
        outer = [n for n in f.own_nodes() if isinstance(n, ast.With)
                 and any(isinstance(it.context_expr, ast.Call) and m.callee_funcs(f, it.context_expr) & set(publish)
                         for it in n.items)]
        ctx.ob("C11.A3", f"{f.short}/enters-publish", len(outer) == 1, loc(f), f"{len(outer)} publishing with-statements")
        if len(outer) != 1:
            continue
        ow = outer[0]
        it = [i for i in ow.items if isinstance(i.context_expr, ast.Call)][0]
        as_name = it.optional_vars.id if isinstance(it.optional_vars, ast.Name) else None
        a0 = arg(it.context_expr, 0, "path")
        ok = f.pos_params and is_name(a0, f.pos_params[0])
        ctx.ob("C11.A3", f"{f.short}/publish-arg", bool(ok), loc(f, ow), "publishing helper receives the path parameter"
               if ok else "publishing helper is not given the caller's path", head(ow))
        opens = [c for c in f.own_calls() if is_open(m, f, c)]
        yields = [n for n in f.own_nodes() if isinstance(n, ast.Yield)]
        for oc in opens:
            w = enclosing_with_item(f, oc)
            nested = w is not None and inside(mod, w, ow)
            first = arg(oc, 0, "file")
            okarg = as_name is not None and is_name(first, as_name)
            ctx.ob("C11.A3", f"{f.short}/open-nested", bool(nested and okarg), loc(f, oc),
                   "open(staging) nested inside the publishing context" if nested and okarg else
                   "the file is not opened on the yielded staging path inside the publishing context (rename of an "
                   "unflushed or different file)", norm(oc))
            for y in yields:
                yin = w is not None and inside(mod, y, w)
                ctx.ob("C11.A3", f"{f.short}/yield-inside-open", bool(yin), loc(f, y),
                       "file object yielded while open, closed before the publishing context exits" if yin else
                       "yield is outside the with-open block", norm(stmt_of(mod, y)))
        # mode guard (A5)
        check_mode_guard(ctx, m, f)
        check_path_uses(ctx, m, f, f.pos_params[0], helpers)
    for f in publish:
        if any(is_open(m, f, c) for c in f.own_calls()):
            check_mode_guard(ctx, m, f)

    # ---------------------------------------------------------------- A5 call-site modes
    n_sites = 0
    for f in m.funcs.values():
        for call in f.own_calls():
            tg = m.callee_funcs(f, call) & helpers
            for h in tg:
                if "mode" not in h.params:
                    continue
                n_sites += 1
                idx = h.pos_params.index("mode") if "mode" in h.pos_params else None
                me = arg(call, idx, "mode")
                if me is None:
                    ok, why = True, "default mode"
                else:
                    v = const(me)
                    ok = v in ("w", "wb", "wt")
                    why = f"mode {v!r}" if v is not None else f"non-constant mode {norm(me)}"
                ctx.ob("C11.A5", f"{f.short}/mode", ok, loc(f, call),
                       why if ok else f"{why}: append/exclusive/update modes break on a leftover staging file", norm(call))
                # keyword arguments are handed to open(): an unbuffered raw file (buffering=0) reports a short write
                # only through write()'s return value, so a truncated staging file would be renamed over the target
                bf = arg(call, None, "buffering")
                if bf is not None:
                    okb = const(bf) not in (0, False) and const(bf) is not None
                    ctx.ob("C11.A5", f"{f.short}/buffered", okb, loc(f, call),
                           "staging file is buffered" if okb else
                           "the staging file is opened unbuffered (raw FileIO): a short write is not an error there, a truncated "
                           "value is published as if complete", norm(call))
    ctx.floor("C11.A5", "staged_write call sites", n_sites, 6)


def stagefile_like(m, f, publish):
    return False


def enclosing_with_item(f, callnode):
    for anc in ast.walk(f.node):
        if isinstance(anc, ast.With) and any(it.context_expr is callnode for it in anc.items):
            return anc
    return None


def is_cleanup_call(m, f, call, staging_vars):
    names = ext_names(m, f, call)
    a0 = call.args[0] if call.args else None
    on_staging = isinstance(a0, ast.Name) and a0.id in staging_vars
    if names & REMOVE_EXT and on_staging:
        return True
    if isinstance(call.func, ast.Attribute) and call.func.attr in REMOVE_ATTRS and isinstance(call.func.value, ast.Name) \
            and call.func.value.id in staging_vars:
        return True
    # repo helper that removes its argument on every path
    for g in m.callee_funcs(f, call):
        if on_staging and g.pos_params and removes_param(m, g):
            return True
    return False


def removes_param(m, g):
    p = g.pos_params[0]
    for c in g.own_calls():
        if ext_names(m, g, c) & REMOVE_EXT and c.args and is_name(c.args[0], p):
            # must be reached on every path: first statement or inside a try body at top level
            top = g.node.body
            st = stmt_of(g.module, c)
            for s in top:
                if s is st or (isinstance(s, ast.Try) and st in s.body) or (
                        isinstance(s, ast.With) and any(st is b for b in s.body)):
                    return True
    return False


def cleanup_nodes(m, f, g, staging_vars):
    out = set()
    for c in f.own_calls():
        if is_cleanup_call(m, f, c, staging_vars):
            out |= set(g.of(stmt_of(f.module, c)))
    return out


def check_staging_name(ctx, m, f, staging_vars, path_param):
    mod = f.module
    for v in sorted(staging_vars):
        binds = [b for b in f.bindings.get(v, []) if b[0] == "assign"]
        if not binds:
            if any(b[0] == "with" for b in f.bindings.get(v, [])):
                continue  # comes from the publishing helper, checked there
            raise AnalysisError(f"{f.qualname}: staging variable {v} has no assignment")
        base_ok = False
        for kind, expr, path in binds:
            verdict, why = classify_staging_expr(m, f, expr, path_param, v)
            if verdict == "unknown":
                raise AnalysisError(f"{f.qualname}: staging name expression `{norm(expr)}` is not a recognised idiom "
                                    f"(idioms: f'{{path}}<const>', str(path)+<const>, pathlib.Path(<same variable>))")
            ctx.ob("C11.A4", f"{f.short}/{v}", verdict == "ok", loc(f, expr), why, norm(expr))
            base_ok |= verdict == "ok"


def _const_str(m, f, e):
    if isinstance(e, ast.Constant) and isinstance(e.value, str):
        return e.value
    if isinstance(e, ast.Name):
        vals = [o[1] for o in m.origins_of(f, e) if o[0] == "const" and isinstance(o[1], str)]
        if len(vals) == 1:
            return vals[0]
    return None


def classify_staging_expr(m, f, e, path_param, var, depth=0):
    # pathlib.Path(var) / type(path)(var): conversion of the already derived name
    if isinstance(e, ast.Call) and len(e.args) == 1 and is_name(e.args[0], var):
        names = ext_names(m, f, e)
        if any(n.startswith("pathlib.") for n in names) or norm(e.func) == f"type({path_param})":
            return "ok", "conversion of the derived staging name back to a Path"
    # the same through a conditional expression and/or a differently named temporary
    if isinstance(e, ast.IfExp) and depth < 4:
        a = classify_staging_expr(m, f, e.body, path_param, var, depth + 1)
        b = classify_staging_expr(m, f, e.orelse, path_param, var, depth + 1)
        for v_ in (a, b):
            if v_[0] != "ok":
                return v_
        return "ok", f"{a[1]} / {b[1]}"
    if isinstance(e, ast.Name) and e.id not in (var, path_param) and depth < 4:
        bs = [b_ for b_ in f.bindings.get(e.id, [])]
        if len(bs) == 1 and bs[0][0] == "assign" and not bs[0][2]:
            return classify_staging_expr(m, f, bs[0][1], path_param, e.id, depth + 1)
    if isinstance(e, ast.Call) and len(e.args) == 1 and not e.keywords and depth < 4 and \
            (norm(e.func) in ("pathlib.Path", "Path", "pathlib.PurePath", f"type({path_param})")):
        return classify_staging_expr(m, f, e.args[0], path_param, var, depth + 1)
    if isinstance(e, ast.JoinedStr):
        vals = e.values
        if (len(vals) >= 2 and isinstance(vals[0], ast.FormattedValue) and is_name(vals[0].value, path_param)
                and vals[0].conversion in (-1, 115) and vals[0].format_spec is None):
            rest = vals[1:]
            suffix = ""
            for r in rest:
                if isinstance(r, ast.Constant) and isinstance(r.value, str):
                    suffix += r.value
                elif isinstance(r, ast.FormattedValue) and _const_str(m, f, r.value) is not None:
                    suffix += _const_str(m, f, r.value)
                else:
                    return "bad", "staging suffix is not a constant"
            if suffix and "/" not in suffix and "\\" not in suffix:
                return "ok", f"target path + constant suffix {suffix!r}"
            return "bad", "empty or directory-changing staging suffix"
        return "bad", "staging name is not the full target path followed by a constant suffix"
    if isinstance(e, ast.BinOp) and isinstance(e.op, ast.Add):
        left_ok = (isinstance(e.left, ast.Call) and len(e.left.args) == 1 and is_name(e.left.args[0], path_param)
                   and ext_names(m, f, e.left) & {"builtins.str", "os.fspath", "os.fsdecode"}) or is_name(e.left, path_param)
        suf = _const_str(m, f, e.right)
        if left_ok and suf and "/" not in suf:
            return "ok", f"target path + constant suffix {suf!r}"
        return "bad", "staging name is not target path + constant suffix"
    if isinstance(e, ast.Call) and isinstance(e.func, ast.Attribute):
        if e.func.attr in ("with_suffix", "with_stem", "with_name") and path_param in names_in(e.func.value):
            if e.func.attr == "with_name" and e.args and path_param in names_in(e.args[0]) and ".name" in norm(e.args[0]):
                return "ok", "same directory, full name + suffix"
            return "bad", (f"Path.{e.func.attr} replaces part of the name instead of appending: different targets "
                           f"share one staging file")
        names = ext_names(m, f, e)
        if any(n.startswith("tempfile.") for n in names):
            return "bad", "temporary file may live on another file system (rename not atomic) "
    if isinstance(e, ast.Call) and any(n.startswith("tempfile.") for n in ext_names(m, f, e)):
        return "bad", "temporary file may live on another file system (rename not atomic)"
    if isinstance(e, ast.Constant):
        return "bad", "constant staging name shared by all targets"
    if is_name(e, path_param):
        return "bad", "the staging name is the target path itself: the value is written straight into the target, a failed or interrupted write leaves a partial value under the final name"
    return _evaluate_staging_expr(m, f, e, path_param)


_PROBE_TARGETS = ["/d/report.txt", "/d/report.md", "/d/report", "/d/x.y/report.txt", "/d/report.txt.bak", "/d/.report"]


def _evaluate_staging_expr(m, f, e, path_param):
    """A staging name computed some other way (a helper of the package, library path functions): evaluated on a handful of target
    paths, as strings.  The derivation must be injective (two targets never share a staging file), must stay in the target's
    directory (the rename is atomic only within a file system), and must never produce a name that is itself one of the targets."""
    import os as _os
    from ..absval import AbsRaise, Env, Interp
    import pathlib as _pl
    verdicts = []
    for as_path in (False, True):
        v_ = _evaluate_staging_probes(m, f, e, path_param, as_path)
        if v_[0] != "ok":
            return v_
        verdicts.append(v_[1])
    return "ok", verdicts[0] + " (targets given as str and as pathlib.Path)"


def _evaluate_staging_probes(m, f, e, path_param, as_path):
    import os as _os
    import pathlib as _pl
    from ..absval import AbsRaise, Env, Interp
    out = {}
    for t in _PROBE_TARGETS:
        interp = Interp(m, ext={"os.path.splitext": _os.path.splitext, "os.path.basename": _os.path.basename, "os.path.dirname": _os.path.dirname,
                                "os.path.join": _os.path.join, "os.fspath": lambda x: x, "os.fsdecode": lambda x: x, "os.path.split": _os.path.split})
        env = Env(f)
        env.vars[path_param] = _pl.PosixPath(t) if as_path else t
        # module-level string constants the expression refers to resolve through the module scope
        try:
            v = interp.eval(e, env)
        except AbsRaise as ex:
            return "unknown", ""
        except AnalysisError:
            return "unknown", ""
        if isinstance(v, _pl.PurePath):
            v = str(v)
        if not isinstance(v, str):
            return "unknown", ""
        out[t] = v
    names = list(out.values())
    if len(set(names)) != len(names):
        a_, b_ = next((x, y) for i, x in enumerate(_PROBE_TARGETS) for y in _PROBE_TARGETS[i + 1:] if out[x] == out[y])
        return "bad", (f"evaluated on {len(out)} target paths: the targets {a_!r} and {b_!r} share the staging file {out[a_]!r} - overlapping "
                       f"writes publish one value under the other's name")
    for t, v in out.items():
        if v in out:
            return "bad", f"evaluated: the staging name of {t!r} is {v!r}, which is itself a possible target"
        if _os.path.dirname(v) != _os.path.dirname(t):
            return "bad", f"evaluated: the staging file {v!r} of {t!r} is in another directory (rename may cross file systems)"
        if not v.startswith(t):
            return "bad", f"evaluated: the staging name {v!r} does not extend the full target name {t!r}: targets that differ only in the replaced part collide"
    return "ok", f"evaluated on {len(out)} target paths: injective, same directory, never a target name, extends the full target name"


def check_mode_guard(ctx, m, f):
    if "mode" not in f.params:
        ctx.ob("C11.A5", f"{f.short}/mode-guard", True, loc(f), "helper has no mode parameter")
        return
    ok = False
    for n in f.own_nodes():
        if isinstance(n, ast.If):
            t = n.test
            txt = norm(t)
            if txt in ("'w' not in mode", "not 'w' in mode") and any(isinstance(s, ast.Raise) for s in n.body):
                ok = True
    ctx.ob("C11.A5", f"{f.short}/mode-guard", ok, loc(f),
           "modes without 'w' are rejected" if ok else "helper no longer rejects modes without 'w'")
    # the mode must reach open() unchanged
    for c in f.own_calls():
        if is_open(m, f, c):
            me = arg(c, 1, "mode")
            ok2 = is_name(me, "mode")
            ctx.ob("C11.A5", f"{f.short}/mode-forwarded", ok2, loc(f, c),
                   "open receives the checked mode" if ok2 else "open does not receive the checked mode parameter", norm(c))


def check_path_uses(ctx, m, f, path_param, helpers):
    """Every use of the target-path parameter inside a helper is in a non-writing position."""
    mod = f.module
    for n in f.own_nodes():
        if not (isinstance(n, ast.Name) and n.id == path_param and isinstance(n.ctx, ast.Load)):
            continue
        p = mod.parent.get(n)
        ok, why = False, ""
        if isinstance(p, ast.FormattedValue):
            ok, why = True, "formatted into the staging name"
        elif isinstance(p, ast.Call) and n in p.args:
            names = ext_names(m, f, p)
            idx = p.args.index(n)
            if names & RENAME_EXT and idx == 1:
                ok, why = True, "rename destination"
            elif names & {"builtins.isinstance", "builtins.str", "os.fspath", "builtins.type", "os.fsdecode"}:
                ok, why = True, "type test / conversion"
            elif m.callee_funcs(f, p) & helpers and idx == 0:
                ok, why = True, "passed to the publishing helper"
            else:
                why = f"target path passed to {norm(p.func)}"
        elif isinstance(p, ast.Attribute) and p.attr in ("name", "parent", "suffix", "stem", "with_name", "with_suffix"):
            ok, why = True, "name derivation (checked by A4)"
        elif isinstance(p, ast.BinOp):
            ok, why = True, "name derivation (checked by A4)"
        else:
            why = f"unrecognised use of the target path in `{norm(stmt_of(mod, n))}`"
        ctx.ob("C11.A6", f"{f.short}/{path_param}", ok, loc(f, n),
               why if ok else f"{why}: the target must change only through the rename", norm(stmt_of(mod, n)))



# ------------------------------------------------------------------------------------------------ C11.A9
def rule_staging_names_private(ctx, rid):
    m = ctx.model
    publish, stagefile, filestore, stores = roles(m)
    # the suffix: string constants of the publishing helpers' module that end a staging-name expression, found as the text(s) the
    # helpers append; and module-level names bound to such a text
    texts, names = set(), set()
    for f in publish:
        for n in f.own_nodes():
            if isinstance(n, ast.JoinedStr):
                for v in n.values[1:]:
                    if isinstance(v, ast.Constant) and isinstance(v.value, str) and v.value.startswith("."):
                        texts.add(v.value)
                    if isinstance(v, ast.FormattedValue) and isinstance(v.value, ast.Name):
                        names.add(v.value.id)
            if isinstance(n, ast.BinOp) and isinstance(n.op, ast.Add) and isinstance(n.right, ast.Constant) and isinstance(n.right.value, str) and n.right.value.startswith("."):
                texts.add(n.right.value)
        for g in m.reachable([f], kinds=("call",)):
            if g.module is f.module and g is not f:
                for n in g.own_nodes():
                    if isinstance(n, ast.JoinedStr):
                        for v in n.values[1:]:
                            if isinstance(v, ast.Constant) and isinstance(v.value, str) and v.value.startswith("."):
                                texts.add(v.value)
                            if isinstance(v, ast.FormattedValue) and isinstance(v.value, ast.Name):
                                names.add(v.value.id)
    home = {f.module for f in publish}
    for mod in home:
        for st in mod.tree.body:
            if isinstance(st, ast.Assign) and isinstance(st.value, ast.Constant) and isinstance(st.value.value, str) and st.value.value.startswith(".") \
                    and (st.value.value in texts or any(isinstance(t, ast.Name) and t.id in names for t in st.targets)):
                texts.add(st.value.value)
                names |= {t.id for t in st.targets if isinstance(t, ast.Name)}
    names = {n_ for n_ in names if any(any(isinstance(t, ast.Name) and t.id == n_ for t in st.targets) for mod in home for st in mod.tree.body if isinstance(st, ast.Assign))}
    if not texts:
        raise AnalysisError("role STAGING-SUFFIX: the text the publishing helper appends to the target name was not found")
    allowed = set(publish) | set(stagefile)
    for f in list(allowed):
        allowed |= {g for g in m.reachable([f], kinds=("call",)) if g.module in home}
    n = 0
    for f in m.funcs.values():
        if f in allowed or f.module.name.startswith("uberjob._testing"):
            continue
        for node in f.own_nodes():
            hit = (isinstance(node, ast.Constant) and isinstance(node.value, str) and any(t_ in node.value for t_ in texts)) or \
                (isinstance(node, ast.Name) and node.id in names and isinstance(node.ctx, ast.Load)) or \
                (isinstance(node, ast.Attribute) and node.attr in names)
            if hit:
                n += 1
                ctx.ob(rid, f"{f.short}/names-a-staging-file", False, loc(f, node),
                       f"`{norm(stmt_of(f.module, node))[:70]}` refers to a store's staging file outside the publishing helpers: a staging file left "
                       f"by a killed process (nobody removes it) then influences later runs", norm(node)[:60])
    if not n:
        ctx.ob(rid, "STAGING/private", True, loc(publish[0]), f"only the publishing helpers name a staging file (suffix {sorted(texts)})")
