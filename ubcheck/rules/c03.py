"""C03 - an incremental run equals a from-scratch run (T1-T6; reuses C09 table and C01 ordering as premises)."""
from . import engine as E
from . import runrules as R
from . import stalerules as S


def check(ctx):
    ctx.rule("C03.T1", "staleness decision table of the stale-check callback, extracted by abstract evaluation over order types (ranks), equals the specification derived from the property text, for all node kinds / store kinds / 0-2 predecessors")
    ctx.rule("C03.T2", "timestamps are used only through max / comparison / None tests (so the rank abstraction is exact)")
    ctx.rule("C03.T3", "in the parallel stale check every worker writes only its own node's entry and reads only predecessors' entries")
    ctx.rule("C03.T4", "every registry entry is transformed; is_stale = membership in the stale set; every write node is required")
    ctx.rule("C03.T5", "all_ancestors is a complete predecessor closure seeded with all required nodes and the output; prune removes exactly the complement")
    ctx.rule("C03.T7", "every worker is joined before run returns, also on KeyboardInterrupt (an abandoned in-flight write could land after a later run's write)")
    ctx.rule("C03.T8", "execution premises re-evaluated under this id: a call (and the store write that follows it, and the stale check of a node) starts only after everything it depends on finished successfully; a failed call releases nothing; the callbacks are driven only by the engine")
    ctx.rule("C03.T6", "the stale check examines a copy from which only unregistered source literals were removed")
    ctx.assume("determinism of calls, stores returning what was written and increasing modified times are assumptions of the property; value equality over histories is not decided")
    ctx.run(E.rule_queue_is_library_queue, "C03.T8", ctx.model.one_func("run_function_on_graph", "ENGINE"))
    from .engineeval import rule_engine_evaluated
    ctx.run(rule_engine_evaluated, "C03.T8", None, ("containment", "order", "once"))
    er = E.discover(ctx.model)
    rr = R.discover(ctx.model, er)
    ctx.run(S.rule_stale_table, "C03.T1", rr)
    ctx.notes["exhaustive"] = True
    ctx.run(S.rule_order_only, "C03.T2", rr)
    from .c18 import rule_normaliser_frames, rule_store_time_frames
    ctx.run(rule_store_time_frames, "C03.T2")
    ctx.run(rule_normaliser_frames, "C03.T2")
    ctx.run(S.rule_owner_writes_only, "C03.T3", rr)
    ctx.run(S.rule_every_stale_entry_rebuilt, "C03.T4", rr)
    from .rewriterules import rule_independent_entries
    ctx.run(rule_independent_entries, "C03.T4", rr)
    from .prunerules import rule_pruning_evaluated
    ctx.run(rule_pruning_evaluated, "C03.T5", rr)
    ctx.run(S.rule_stale_check_sees_stored_nodes, "C03.T6", rr)
    ctx.run(E.rule_catch_all, "C03.T4", er)
    from .extra import rule_fresh_time_untouched
    ctx.run(rule_fresh_time_untouched, "C03.T2", rr)
    ctx.run(S.rule_apply_examines_whole_plan, "C03.T6", rr)
    # interrupted runs are part of the histories: no store write may still be in flight when run returns
    ctx.run(E.rule_pool_joins, "C03.T7", er)
    # values are only stored from computations whose inputs were complete: ordering and failure containment of the engine
    ctx.run(E.rule_enqueue_after_success, "C03.T8", er)
    ctx.run(E.rule_atomic_counter, "C03.T8", er)
    ctx.run(E.rule_counting_agreement, "C03.T8", er)
    ctx.run(E.rule_callbacks_only_via_engine, "C03.T8", er, [rr.runcb, rr.stalecb])
    ctx.run(E.rule_interrupt_cleanup, "C03.T7", er)
