"""C17 - Ctrl-C during a run stops new work, waits for in-flight calls and cleans up (K1-K5)."""
from . import engine as E
from . import runrules as R


def check(ctx):
    ctx.rule("C17.K1", "queue.join() is the body of a try whose finally sets the stop flag and posts the sentinels, inside the pool context whose finally joins every worker")
    ctx.rule("C17.K2", "the stop flag is tested before every user call and only ever set to True")
    ctx.rule("C17.K3", "no handler / __exit__ on the calling thread's path absorbs KeyboardInterrupt")
    ctx.rule("C17.K4", "the sentinel's priority in the default scheduler is strictly below every node priority")
    ctx.rule("C17.K5", "the observer's __exit__ sets the done event then joins its update thread; run holds it in one with")
    ctx.assume("only an interrupt delivered while the calling thread is inside queue.join() is considered; a second interrupt during cleanup is not")
    r = E.discover(ctx.model)
    rr = R.discover(ctx.model, r)
    E.rule_interrupt_cleanup(ctx, "C17.K1", r)
    E.rule_sentinels(ctx, "C17.K1", r)
    E.rule_pool_joins(ctx, "C17.K1", r)
    E.rule_stop_discipline(ctx, "C17.K2", r)
    R.rule_nothing_swallows_interrupt(ctx, "C17.K3", rr)
    R.rule_sentinel_priority(ctx, "C17.K4", rr)
    R.rule_observer_exit(ctx, "C17.K5", rr)
