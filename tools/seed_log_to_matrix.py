"""Development tool: store the own-property results of a run of selftest/seeded.py (its stdout) in seeded/MATRIX.json under "own".
usage: seed_log_to_matrix.py <log file>"""
import json, re, sys
res = {}
for l in open(sys.argv[1]):
    m = re.match(r"(\S+) (CAUGHT by \S+|MISSED)(?: \[base \w+\])? (\{.*\})$", l.strip())
    if m:
        res[m.group(1)] = json.loads(m.group(3))
p = "/verif/seeded/MATRIX.json"
d = json.load(open(p))
d["own"] = res
json.dump(d, open(p, "w"), indent=0, sort_keys=True)
print(len(res), "own-property results stored")
