"""C01 - a call never starts before everything it depends on has finished successfully (premises A1-A6)."""
from . import engine as E


def check(ctx):
    ctx.rule("C01.A1", "successors are enqueued only on paths where the user call returned normally (CFG path rule)")
    ctx.rule("C01.A2", "decrement and zero test of the remaining-predecessor counter lie in one lock region; no access outside")
    ctx.rule("C01.A3", "counter initialisation and decrement loop count the same thing (distinct neighbours vs parallel edges); "
                       "exact 3-way partition of nodes by predecessor count")
    ctx.rule("C01.A4", "the ready queue is seeded with exactly the zero-predecessor nodes")
    ctx.rule("C01.A5", "every queue kind: _put adds exactly the item, _get removes exactly what it returns; engine code "
                       "uses only the public queue protocol")
    ctx.rule("C01.A7", "the callbacks that execute calls / examine stores are invoked only through the engine (no sibling executor); Plan.add_dependency and Plan._call record every declared dependency unconditionally")
    ctx.rule("C01.A6", "node removals in plan transformations preserve dependency paths (complement of ancestor closure, "
                       "predecessor-free nodes, or bridged by the full product of current neighbours)")
    ctx.assume("exceptional edges: every statement containing a call may raise (conservative); CPython/queue.Queue/"
               "threading.Lock/networkx behave as documented; the induction from these premises to the behavioural "
               "statement is the paper argument of DESIGN.md section 4.C01")
    ctx.rule("C01.A8", "the engine evaluated as a whole (abstract interpretation of run_function_on_graph with sequentially simulated workers) on every small multigraph, failing set, max_errors, scheduler and dequeue order: a node is called only after all its predecessors were called and succeeded, and every node whose ancestors succeed is called")
    ctx.run(E.rule_queue_is_library_queue, "C01.A5", ctx.model.one_func("run_function_on_graph", "ENGINE"))
    from .engineeval import rule_engine_evaluated
    ctx.run(rule_engine_evaluated, "C01.A8", None, ("order", "containment", "complete"))
    ctx.run(E.rule_shared_state_atomic, "C01.A2", ctx.model.one_func("run_function_on_graph", "ENGINE"))
    r = E.discover(ctx.model)
    ctx.run(E.rule_enqueue_after_success, "C01.A1", r)
    ctx.run(E.rule_atomic_counter, "C01.A2", r)
    ctx.run(E.rule_counting_agreement, "C01.A3", r, rid_initial="C01.A4")
    ctx.run(E.rule_initial_ready_set, "C01.A4", r)
    ctx.run(E.rule_queue_effects, "C01.A5", r)
    ctx.run(E.rule_queue_internals, "C01.A5", r)
    from . import runrules as R
    from .prunerules import rule_pruning_evaluated as _rpe
    ctx.run(lambda c_: _rpe(c_, "C01.A6", R.discover(c_.model, r)))
    from .extra import rule_plan_records_dependencies
    rr = R.discover(ctx.model, r)
    ctx.run(E.rule_callbacks_only_via_engine, "C01.A7", r, [rr.runcb, rr.stalecb])
    ctx.run(rule_plan_records_dependencies, "C01.A7")
    ctx.run(E.rule_catch_all, "C01.A1", r)
