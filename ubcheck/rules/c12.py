"""C12 - stores return what was written and report modified times faithfully (S1-S3).

Decides only reader/writer agreement on the on-disk format (a necessary condition), mounted-store ordering and the
missing->None mapping.  Value equality for all JSON/pickle values and OS mtime behaviour are not decided."""
from __future__ import annotations

import ast

from ..astq import arg, const, ext_names, inside, is_name, loc, names_in, stmt_of
from ..model import AnalysisError, head, norm
from . import c11

PAIRS = {"json.dump": "json.load", "pickle.dump": "pickle.load"}


def check(ctx):
    m = ctx.model
    ctx.rule("C12.S1", "codec symmetry per FileStore: same binary-ness, same encoding expression, serialiser/deserialiser pair from the table applied to the unmodified value/result; raw text written in text mode requires newline translation off on both sides")
    ctx.rule("C12.S2", "mounted stores: write = inner write then copy_from_local; read = copy_to_local then inner read; same create_store(local_path); inside the temporary-directory context")
    ctx.rule("C12.S3", "missing or inaccessible path => None, otherwise a datetime built from the path's mtime; FileStore.get_modified_time asks about the very path that write publishes to")
    ctx.trust("open() in text mode translates newlines iff newline is None (read: \\r and \\r\\n -> \\n; write: \\n -> os.linesep); json.dump escapes control characters, JSON whitespace is insignificant")
    publish, stagefile, filestore, stores = c11.roles(m)
    helpers = set(publish) | set(stagefile)
    ctx.floor("C12.S1", "concrete FileStore subclasses", len(stores), 5)
    for cls in sorted(stores, key=lambda c: c.name):
        rd, wr = cls.lookup("read"), cls.lookup("write")
        if not (rd and wr) or isinstance(rd, tuple) or isinstance(wr, tuple):
            raise AnalysisError(f"{cls.name}: read/write not found")
        ropen = [c for c in rd.own_calls() if c11.is_open(m, rd, c)]
        wcall = [c for c in wr.own_calls() if m.callee_funcs(wr, c) & helpers]
        if len(wcall) == 0:
            direct = [c for c in wr.own_calls() if c11.mutating_call(m, wr, c)]
            ctx.ob("C12.S1", f"{cls.name}/writes-through-staging", False, loc(wr, direct[0]) if direct else loc(wr),
                   "write does not go through the staging helper that replaces the file: an existing file's content can survive a "
                   "'successful' write (e.g. touching a non-empty file), so read() does not return what was written",
                   norm(direct[0])[:80] if direct else "")
            continue
        if len(ropen) != 1 or len(wcall) != 1:
            raise AnalysisError(f"{cls.name}: expected one open() in read and one staging call in write")
        ro, wc = ropen[0], wcall[0]
        h = next(iter(m.callee_funcs(wr, wc) & helpers))
        rmode = c11.open_mode(ro)
        widx = h.pos_params.index("mode") if "mode" in h.pos_params else None
        wm = arg(wc, widx, "mode")
        wmode = const(wm) if wm is not None else const(h.defaults.get("mode"), "w") if "mode" in h.defaults else "w"
        if rmode is None or wmode is None:
            raise AnalysisError(f"{cls.name}: non-constant open mode")
        rb, wb = "b" in rmode, "b" in wmode
        ctx.ob("C12.S1", f"{cls.name}/binary-ness", rb == wb, loc(rd, ro),
               f"read mode {rmode!r} / write mode {wmode!r}" if rb == wb else
               f"read opens {rmode!r} but write opens {wmode!r}: text/binary mismatch", norm(ro))
        spath = is_self_path(arg(ro, 0, "file"), rd) and is_self_path(arg(wc, 0, "path"), wr)
        ctx.ob("C12.S1", f"{cls.name}/same-path", spath, loc(rd, ro), "read and write use self.path" if spath else "read and write use different paths")
        if not rb:
            re_, we_ = arg(ro, None, "encoding"), arg(wc, None, "encoding")
            from ..astq import expand_locals
            same = (norm(expand_locals(rd, re_)) if re_ is not None else None) == (norm(expand_locals(wr, we_)) if we_ is not None else None)
            ctx.ob("C12.S1", f"{cls.name}/encoding", same, loc(rd, ro),
                   f"same encoding expression on both sides ({norm(re_) if re_ is not None else 'default'})" if same else
                   f"encoding differs: read {norm(re_) if re_ is not None else 'locale default'}, write {norm(we_) if we_ is not None else 'locale default'}",
                   norm(ro))
            for side, c in (("read", ro), ("write", wc)):
                er = arg(c, None, "errors")
                ctx.ob("C12.S1", f"{cls.name}/{side}-errors", er is None, loc(rd if side == "read" else wr, c),
                       "no lossy error handler" if er is None else f"errors={norm(er)} silently alters characters", norm(c))
        # serialiser pair
        ww = with_of(wr, wc)
        rw = with_of(rd, ro)
        wf = as_name(ww, wc)
        rf = as_name(rw, ro)
        valp = wr.pos_params[1] if len(wr.pos_params) > 1 else None
        wkind, wraw = classify_write(m, wr, ww, wf, valp)
        rkind = classify_read(m, rd, rw, rf)
        if wkind is None or rkind is None:
            raise AnalysisError(f"{cls.name}: serialiser/deserialiser outside the codec table (write={wkind}, read={rkind})")
        okpair = (wkind, rkind) in {("json.dump", "json.load"), ("pickle.dump", "pickle.load"), ("f.write", "f.read"), ("touch", "touch")}
        ctx.ob("C12.S1", f"{cls.name}/codec-pair", okpair, loc(wr, wc),
               f"{wkind} / {rkind}" if okpair else f"write uses {wkind} but read uses {rkind}", norm(wc))
        if wkind == "touch":
            from .engine import path_condition, cond_set
            guard = any(isinstance(n, ast.Raise) and cond_set(path_condition(wr.module, n, wr.node), valp) for n in wr.own_nodes())
            ctx.ob("C12.S1", f"{cls.name}/touch-domain", guard, loc(wr), "only None may be written" if guard else "touch store accepts values it cannot return")
        # raw text rule
        if not wb and wraw:
            for side, c, f in (("read", ro, rd), ("write", wc, wr)):
                nl = arg(c, None, "newline")
                ok = nl is not None and not (isinstance(nl, ast.Constant) and nl.value is None) and isinstance(nl, ast.Constant)
                if ok and side == "read":
                    ok = nl.value == ""
                if ok and side == "write":
                    ok = nl.value in ("", "\n")
                ctx.ob("C12.S1", f"{cls.name}/{side}-newline", ok, loc(f, c),
                       f"newline translation off ({norm(nl)})" if ok else
                       "the user's str is written/read raw in text mode with newline translation on: '\\r' and '\\r\\n' "
                       "come back as '\\n' (and '\\n' is written as os.linesep)", norm(c))
    # staging names: two different targets never share a staging file (otherwise overlapping writes mix their values)
    for f in publish:
        ys = [n for n in f.own_nodes() if isinstance(n, ast.Yield)]
        opens = [c for c in f.own_calls() if c11.is_open(m, f, c)]
        svars = set()
        if len(ys) == 1 and isinstance(ys[0].value, ast.Name) and not opens:
            svars.add(ys[0].value.id)
        for oc in opens:
            a0 = arg(oc, 0, "file")
            if isinstance(a0, ast.Name):
                svars.add(a0.id)
        before = len(ctx.obligations)
        c11.check_staging_name(ctx, m, f, svars, f.pos_params[0])
        for o in ctx.obligations[before:]:
            o["rule"] = "C12.S1"
    # ------------------------------------------------------------ S2 mounted store
    ms = m.one_class("MountedStore", "MOUNTED")
    rd, wr = ms.methods["read"], ms.methods["write"]
    direct_forms = set()
    for f, first, second in ((wr, "create_store", "copy_from_local"), (rd, "copy_to_local", "create_store")):
        ws = [n for n in f.own_nodes() if isinstance(n, ast.With)]
        ok = len(ws) == 1 and len([s_ for s_ in f.node.body if not (isinstance(s_, ast.Expr) and isinstance(s_.value, ast.Constant))]) == 1
        ctx.ob("C12.S2", f"{f.short}/inside-tempdir", ok, loc(f), "whole body inside the temporary path context" if ok else
               "operations outside the temporary path context")
        if not ok:
            continue
        lp = ws[0].items[0].optional_vars.id if isinstance(ws[0].items[0].optional_vars, ast.Name) else None
        wbody = list(ws[0].body)
        ce = ws[0].items[0].context_expr
        if isinstance(ce, ast.Call) and ext_names(m, f, ce) & {"tempfile.TemporaryDirectory"} and not ce.args and not ce.keywords and lp:
            # direct form: `with TemporaryDirectory() as d: p = os.path.join(d, <constant>); ...` - the directory is
            # created by this very call, the scratch path lies inside it
            st0 = wbody[0] if wbody else None
            inner = st0.value if isinstance(st0, ast.Assign) and len(st0.targets) == 1 and isinstance(st0.targets[0], ast.Name) else None
            okp = isinstance(inner, ast.Call) and ext_names(m, f, inner) & {"os.path.join"} and len(inner.args) == 2 and is_name(inner.args[0], lp) \
                and _constant_str(m, f, inner.args[1]) and not inner.keywords
            if okp:
                okp = sum(1 for n in f.own_nodes() if isinstance(n, ast.Name) and isinstance(n.ctx, ast.Store) and n.id in (lp, st0.targets[0].id)) == 2
            ctx.ob("C12.S2", f"{f.short}/private-scratch", bool(okp), loc(f, ws[0]),
                   "the operation creates its own TemporaryDirectory; the scratch path is a fixed name inside it" if okp else
                   "the scratch path is not a fixed name inside the operation's own TemporaryDirectory")
            if not okp:
                continue
            direct_forms.add(f)
            lp = st0.targets[0].id
            wbody = wbody[1:]
        seq = []
        for st in wbody:
            txt = norm(st)
            for nm in ("create_store", "copy_from_local", "copy_to_local"):
                if f"self.{nm}(" in txt:
                    seq.append((nm, st))
        names = [s for s, _ in seq]
        ok = names == [first, second] and len(wbody) == 2
        ctx.ob("C12.S2", f"{f.short}/order", ok, loc(f), f"{first} then {second}" if ok else
               f"body is {[norm(s_)[:40] for s_ in wbody]} (operations {names}): the remote copy happens before the local file is complete, the local file is read before it was fetched, or an extra check changes which values round-trip")
        for nm, st in seq:
            c = [x for x in ast.walk(st) if isinstance(x, ast.Call) and isinstance(x.func, ast.Attribute) and x.func.attr == nm][0]
            ok = len(c.args) == 1 and is_name(c.args[0], lp)
            ctx.ob("C12.S2", f"{f.short}/{nm}-arg", ok, loc(f, c), "operates on the temporary local path" if ok else "not given the temporary local path", norm(c))
    # the scratch path is private to each operation: created per call by tempfile.TemporaryDirectory() around the yield
    ctxs = set()
    for f in (rd, wr):
        for w_ in [n for n in f.own_nodes() if isinstance(n, ast.With)]:
            for it in w_.items:
                if isinstance(it.context_expr, ast.Call):
                    ctxs |= {g for g in m.callee_funcs(f, it.context_expr) if g.is_contextmanager}
    if not ctxs and direct_forms != {rd, wr}:
        raise AnalysisError("MountedStore: temporary path context not resolved")
    for pc in ctxs:
        ys = [n for n in pc.own_nodes() if isinstance(n, ast.Yield)]
        tws = [n for n in pc.own_nodes() if isinstance(n, ast.With) and any(
            isinstance(it.context_expr, ast.Call) and ext_names(m, pc, it.context_expr) & {"tempfile.TemporaryDirectory"} for it in n.items)]
        ok = len(ys) == 1 and len(tws) == 1 and inside(pc.module, ys[0], tws[0]) and not pc.own_nodes() == []
        if ok:
            tv = tws[0].items[0].optional_vars
            ok = isinstance(tv, ast.Name) and ys[0].value is not None and tv.id in names_in(ys[0].value) and \
                not [d for d in pc.decorator_names() if d != "contextmanager"]
            cached = [c for c in pc.own_calls() if any(g.decorator_names() and set(g.decorator_names()) & {"lru_cache", "cache"} for g in m.callee_funcs(pc, c))]
            ok = ok and not cached
        ctx.ob("C12.S2", f"{pc.short}/private-scratch", ok, loc(pc),
               "each operation gets its own TemporaryDirectory; the yielded path lies inside it" if ok else
               "the scratch path is not created per operation inside its own TemporaryDirectory: concurrent reads/writes of "
               "mounted stores share one local file and publish each other's values")
    wtxt = [norm(n) for n in ast.walk(wr.node) if isinstance(n, ast.Call) and "create_store" in norm(n.func) and isinstance(n.func, ast.Attribute) and n.func.attr == "write"]
    rtxt = [norm(n) for n in ast.walk(rd.node) if isinstance(n, ast.Call) and "create_store" in norm(n.func) and isinstance(n.func, ast.Attribute) and n.func.attr == "read"]
    ok = len(wtxt) == 1 and len(rtxt) == 1 and wtxt[0].split(".write(")[0] == rtxt[0].split(".read(")[0] and wtxt[0].endswith(f".write({wr.pos_params[1]})")
    ctx.ob("C12.S2", "MountedStore/same-inner-store", ok, loc(wr), "read and write build the same inner store; write passes the value unmodified; read returns the inner result" if ok else
           "read and write use different inner stores or alter the value")
    rret = [n for n in rd.own_nodes() if isinstance(n, ast.Return)]
    ok = len(rret) == 1 and norm(rret[0].value) == (rtxt[0] if rtxt else "")
    ctx.ob("C12.S2", "MountedStore/read-returns-inner", ok, loc(rd), "read returns the inner store's value unmodified")
    # ------------------------------------------------------------ S4 a successful write publishes what it was given
    ctx.rule("C12.S4", "a write that returns normally has replaced the target with the staged value on every path (publication CFG of the staging helper): no 'unchanged, skip the rename' shortcut can drop a written value")
    sub = type(ctx)(ctx.pid, ctx.model, ctx.tier, quiet=True)
    ctx.run(lambda _c: c11.check(sub))
    for o in sub.obligations:
        if o["rule"] in ("C11.A8", "C11.A2", "C11.A3"):
            o = dict(o)
            o["rule"] = "C12.S4"
            ctx.obligations.append(o)
    # the copy steps of every bundled implementation of the mounted-store interface (the test double included) move bytes
    # verbatim: whatever file they open themselves - in the copy methods or in helpers below them - is opened in binary mode
    n_copy = 0
    for cls in m.classes.values():
        if ms not in cls.repo_mro() or cls is ms:
            continue
        for nm in ("copy_from_local", "copy_to_local"):
            meth = cls.methods.get(nm)
            if meth is None:
                continue
            for g_ in {meth} | {x for x in m.reachable([meth], kinds=("call",)) if x.module is meth.module}:
                for c in g_.own_calls():
                    if ext_names(m, g_, c) & {"builtins.open", "io.open"}:
                        n_copy += 1
                        mode = arg(c, 1, "mode")
                        okb = isinstance(mode, ast.Constant) and isinstance(mode.value, str) and "b" in mode.value
                        ctx.ob("C12.S2", f"{cls.name}.{nm}/binary-copy", okb, loc(g_, c),
                               "the copy step opens the file in binary mode" if okb else
                               "the copy step opens the staged file in text mode: decoding and newline translation change the bytes on the way "
                               "('\\r\\n' and '\\r' come back as '\\n'), so what read returns is not what was written", norm(c)[:100])
    # ------------------------------------------------------------ S3 missing => None
    g = [f for f in m.find_funcs("get_modified_time") if f.cls is None and f.module is filestore.module]
    if len(g) != 1:
        raise AnalysisError("module-level get_modified_time helper not found")
    g = g[0]
    # evaluated (any spelling: getmtime / stat().st_mtime, early return / else-branch / result variable)
    from ..absval import AbsRaise as _AR, Interp as _I, Obj as _O
    from .c18 import DT_EXT as _DT
    seen_ts = []

    def _fts(t, tz=None):
        seen_ts.append(t)
        return _DT["datetime.datetime.fromtimestamp"](t, tz)

    def _missing(*a, **k):
        raise _AR("OSError")
    ext_missing = dict(_DT, **{"os.path.getmtime": _missing, "os.stat": _missing, "os.path.exists": lambda p_: False,
                               "datetime.datetime.fromtimestamp": _fts})
    def ext_there_for(ts):
        return dict(_DT, **{"os.path.getmtime": lambda p_: ts,
                            "os.stat": lambda p_: _O(None, {"st_mtime": ts, "st_mtime_ns": int(ts * 1e9)}),
                            "os.path.exists": lambda p_: True, "datetime.datetime.fromtimestamp": _fts})
    ext_there = ext_there_for(1234.5)
    try:
        r_missing = _I(m, ext=ext_missing).call_func(g, None, ["/some/path"], {})
        ok = r_missing is None
    except _AR as e_:
        ok = False
    ctx.ob("C12.S3", f"{g.short}/missing-is-None", ok, loc(g), "OSError from getmtime(path) -> None" if ok else "a missing/inaccessible path is not mapped to None")
    seen_ts.clear()
    try:
        r_there = _I(m, ext=ext_there).call_func(g, None, ["/some/path"], {})
        ok = r_there is not None and seen_ts == [1234.5]
    except _AR as e_:
        ok = False
    ctx.ob("C12.S3", f"{g.short}/from-mtime", ok, loc(g), "datetime built from the file's mtime, unmodified" if ok else "modified time is not the file's mtime")
    # every mtime a file can have, also the epoch itself (restored archives, os.utime(path, (0, 0))) and times before it
    for ts in (0.0, 1e-06, -86400.0):
        seen_ts.clear()
        try:
            r_ = _I(m, ext=ext_there_for(ts)).call_func(g, None, ["/some/path"], {})
            ok = r_ is not None and seen_ts == [ts]
        except _AR as e_:
            ok = False
        ctx.ob("C12.S3", f"{g.short}/from-mtime[{ts}]", ok, loc(g), f"an existing file with mtime {ts} reports that time" if ok else
               f"an existing file whose mtime is {ts} is reported as missing (None) or with another time: a truthiness test on the "
               f"timestamp confuses the epoch with 'no file' - the stored value exists, read() returns it, but get_modified_time() says None")
    # "never decreases across successive writes": the values are compared by their users as they come.  Aware values and naive
    # UTC values order like the instants they denote; naive LOCAL values do not (comparison ignores fold: the hour before the
    # clocks go back is repeated).  Evaluated on the datetime frame model of C18.
    from .c18 import ADT as _ADT
    naive_local = isinstance(r_there, _ADT) and r_there.zone is None and dict(r_there.coefs) == {"LOCAL": 1}
    ctx.ob("C12.S3", "STORE/modified-time-orders-like-the-instants", not naive_local, loc(g),
           "the reported value orders like the file's mtime (aware, or naive UTC)" if not naive_local else
           "the reported value is naive local time (datetime.fromtimestamp(t)): across a daylight-saving fall-back a later write reports a "
           "SMALLER value (01:30 fold=0, then 01:10 fold=1; comparison ignores fold) - the modified time decreases across successive writes")
    fm = filestore.methods.get("get_modified_time")
    rets = [n for n in fm.own_nodes() if isinstance(n, ast.Return)] if fm else []
    ok = bool(fm) and len(rets) == 1 and isinstance(rets[0].value, ast.Call) and g in m.callee_funcs(fm, rets[0].value) and \
        len(rets[0].value.args) == 1 and is_self_path(rets[0].value.args[0], fm)
    ctx.ob("C12.S3", "FileStore.get_modified_time/self-path", ok, loc(fm) if fm else "", "asks about self.path, the path write publishes to" if ok else
           "get_modified_time does not report the mtime of self.path")
    for cls in stores:
        if "get_modified_time" in cls.methods:
            ctx.ob("C12.S3", f"{cls.name}/no-override", False, loc(cls.methods["get_modified_time"]), "subclass overrides get_modified_time")


def _constant_str(m, f, e):
    """A string literal, or a module-level name bound exactly once to a string literal."""
    if isinstance(e, ast.Constant):
        return isinstance(e.value, str) and e.value not in ("", ".", "..") and "/" not in e.value
    if isinstance(e, ast.Name):
        defs = [st for st in f.module.tree.body if isinstance(st, (ast.Assign, ast.AnnAssign)) and any(
            isinstance(t, ast.Name) and t.id == e.id for t in (st.targets if isinstance(st, ast.Assign) else [st.target]))]
        rebinds = [n for n in ast.walk(f.module.tree) if isinstance(n, ast.Name) and n.id == e.id and isinstance(n.ctx, (ast.Store, ast.Del))]
        glob = [n for n in ast.walk(f.module.tree) if isinstance(n, ast.Global) and e.id in n.names]
        return len(defs) == 1 and len(rebinds) == 1 and not glob and defs[0].value is not None and _constant_str(m, f, defs[0].value) \
            and isinstance(defs[0].value, ast.Constant)
    return False


def is_self_path(e, f):
    return isinstance(e, ast.Attribute) and e.attr == "path" and f.pos_params and is_name(e.value, f.pos_params[0])


def with_of(f, call):
    for n in f.own_nodes():
        if isinstance(n, ast.With) and any(it.context_expr is call for it in n.items):
            return n
    raise AnalysisError(f"{f.qualname}: `{norm(call)}` is not used as a with-item")


def as_name(w, call):
    for it in w.items:
        if it.context_expr is call:
            return it.optional_vars.id if isinstance(it.optional_vars, ast.Name) else None


def classify_write(m, f, w, fname, valp):
    """(kind, raw): kind in json.dump/pickle.dump/f.write/touch; raw = the user's value reaches f.write unescaped."""
    body = [s for s in w.body]
    if len(body) == 1 and isinstance(body[0], ast.Pass):
        return "touch", False
    if len(body) != 1 or not isinstance(body[0], ast.Expr) or not isinstance(body[0].value, ast.Call):
        return None, False
    c = body[0].value
    names = ext_names(m, f, c)
    for ser in PAIRS:
        if ser in names:
            ok = len(c.args) >= 2 and is_name(c.args[0], valp) and is_name(c.args[1], fname)
            return (ser if ok else None), False
    if isinstance(c.func, ast.Attribute) and c.func.attr == "write" and is_name(c.func.value, fname):
        ok = len(c.args) == 1 and is_name(c.args[0], valp)
        return ("f.write" if ok else None), True
    return None, False


def classify_read(m, f, w, fname):
    body = w.body
    rets = [s for s in body if isinstance(s, ast.Return)]
    if len(body) == 1 and len(rets) == 1 and isinstance(rets[0].value, ast.Call):
        c = rets[0].value
        names = ext_names(m, f, c)
        for de in PAIRS.values():
            if de in names:
                return de if len(c.args) == 1 and is_name(c.args[0], fname) and not c.keywords else None
        if isinstance(c.func, ast.Attribute) and c.func.attr == "read" and is_name(c.func.value, fname) and not c.args:
            return "f.read"
        return None
    # touch: checks emptiness, returns None afterwards
    after = [s for s in f.node.body if isinstance(s, ast.Return)]
    if not rets and all(isinstance(s, ast.If) for s in body) and after and const(after[-1].value, 0) is None:
        return "touch"
    return None
