"""C07 - run always terminates and leaves nothing running; cycles are rejected up front (L1-L8)."""
from . import engine as E
from . import runrules as R
from .common import make_user_reaching


def check(ctx):
    ctx.rule("C07.L1", "every queue.get() is followed on every path (normal, sentinel, exception) by exactly one task_done()")
    ctx.rule("C07.L2", "the node callback cannot raise out of user code (catch-all handler, no re-raise)")
    ctx.rule("C07.L3", "sentinel count == thread count (same value), posted in a finally covering queue.join(); workers exit only on the sentinel")
    ctx.rule("C07.L4", "the pool joins every started thread, without timeout, in a finally covering the yield")
    ctx.rule("C07.L5", "every queue is unbounded (put never blocks)")
    ctx.rule("C07.L6", "seeded queues seed unfinished_tasks")
    ctx.rule("C07.L7", "the acyclicity assertion dominates thread creation and node preparation; Kahn generator exhausted; cycle verdict idiom")
    ctx.rule("C07.L8", "no blocking primitive and no user-reaching call inside any engine lock region; public queue protocol only")
    ctx.assume("calls are assumed to terminate; Thread.start() failing half-way is outside the fault model")
    r = E.discover(ctx.model)
    ur = make_user_reaching(ctx.model)
    E.rule_get_task_done(ctx, "C07.L1", r)
    E.rule_catch_all(ctx, "C07.L2", r)
    E.rule_sentinels(ctx, "C07.L3", r)
    E.rule_pool_joins(ctx, "C07.L4", r)
    E.rule_queue_effects(ctx, "C07.L6", r, rid_seed="C07.L6", rid_unbounded="C07.L5")
    E.rule_cycle_check_first(ctx, "C07.L7", r)
    E.rule_nothing_blocks_under_lock(ctx, "C07.L8", r, ur)
    E.rule_queue_internals(ctx, "C07.L8", r)
    E.rule_atomic_counter(ctx, "C07.L8", r)
    E.rule_counting_agreement(ctx, "C07.L7", r)
