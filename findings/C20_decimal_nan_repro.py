"""Unmodified library: a scope value whose ordering raises something other than TypeError kills the display.

Decimal('NaN') is hashable and equatable (so Plan.scope permits it), but `Decimal('NaN') < Decimal(1)` raises
decimal.InvalidOperation, an ArithmeticError. sorted_scope_items only falls back to the string key on TypeError.
Exits 1 when the update thread died and nothing was emitted, 0 otherwise. Run with PYTHONPATH=<worktree>/src.
"""
import sys
import threading
from decimal import Decimal

import uberjob
from uberjob.progress import html_progress

errors = []
threading.excepthook = lambda args: errors.append(repr(args.exc_value))

plan = uberjob.Plan()
outs = []
for value in (Decimal("NaN"), Decimal(1)):
    with plan.scope(value):
        outs.append(plan.call(int, 7))
pages = []
print("result:", uberjob.run(plan, output=outs, progress=html_progress(pages.append)))
print("pages emitted:", len(pages), "update thread errors:", errors)
sys.exit(1 if errors or not pages else 0)
