"""C10 - run limits are honoured: max_workers, max_errors and retry (F1-F7)."""
from . import engine as E
from . import runrules as R
from .common import make_user_reaching


def check(ctx):
    ctx.rule("C10.F1", "parameter forwarding chains (max_workers, stale_check_max_workers, max_errors, retry, scheduler, fresh_time, observer) reach their sinks unchanged up to allow-listed coercions")
    ctx.rule("C10.F2", "threads are created only in the pool (range(worker_count)) and the observer's update thread; sentinel/thread agreement")
    ctx.rule("C10.F3", "no lock region contains a user-reaching or blocking call; engine uses only the public queue protocol (one wake-up per put)")
    ctx.rule("C10.F4", "the only blocking primitive in worker code is queue.get()")
    ctx.rule("C10.F5", "stop discipline: tested before the user call, monotone, set under the failure lock iff max_errors is not None and error_count > max_errors, count += 1 per failure")
    ctx.rule("C10.F6", "retry loop shape: range(attempts), first success returns, bare re-raise exactly on the last index (evaluated for attempts in {2,3,4,7}), Exception only")
    ctx.rule("C10.F7", "every user call / modified-time query is invoked through the retry decorator on the forwarding chain")
    ctx.assume("measured concurrency and the k + max_workers bound are derived on paper from these premises (DESIGN 4.C10)")
    ctx.rule("C10.F8", "the engine evaluated as a whole: exactly worker_count threads are started; after the failure that exceeds max_errors (0, 1; never for None) no further call starts")
    from .engineeval import rule_engine_evaluated
    ctx.run(rule_engine_evaluated, "C10.F8", None, ("workers", "budget"))
    r = E.discover(ctx.model)
    rr = R.discover(ctx.model, r)
    ur = make_user_reaching(ctx.model)
    ctx.run(R.rule_forwarding, "C10.F1", rr)
    ctx.run(R.rule_thread_sites, "C10.F2", rr)
    ctx.run(E.rule_sentinels, "C10.F2", r)
    ctx.run(E.rule_nothing_blocks_under_lock, "C10.F3", r, ur)
    # the bundled displays share one lock between the workers' notifications and the update thread: the thread must not call its output
    # sink (print, file write, user callback) while holding it (evaluated, see c20.rule_update_thread)
    from .c20 import rule_update_thread, update_thread_of
    ctx.run(lambda c_: rule_update_thread(c_, "C10.F3", *update_thread_of(ctx.model), sink_outside_lock=True))
    ctx.run(E.rule_queue_internals, "C10.F3", r)
    ctx.run(R.rule_workers_wait_only_for_work, "C10.F4", rr, ur)
    ctx.run(E.rule_stop_discipline, "C10.F5", r)
    ctx.run(E.rule_atomic_counter, "C10.F5", r)
    ctx.run(E.rule_one_callback_per_dequeue, "C10.F5", r)
    ctx.run(R.rule_retry_loop, "C10.F6", rr)
    ctx.run(R.rule_retry_coverage, "C10.F7", rr)
