"""C06 - nothing downstream of a failed call runs; the raised error names a real failure (X1-X5)."""
from . import engine as E
from . import runrules as R


def check(ctx):
    ctx.rule("C06.X1", "no successor enqueue is reachable from the exceptional out-edge of the user call; readiness counter atomic")
    ctx.rule("C06.X2", "the handler protecting the user call in the worker catches BaseException and never re-raises")
    ctx.rule("C06.X3", "the first-error cell is written once, under the failure lock, from (this node, caught exception); the engine raises it after the pool")
    ctx.rule("C06.X4", "every handler between the user call and the API chains the very exception object (`from <bound name>`) and names the processed node; run translates the carrier as CallError(e.node) from e.__cause__")
    ctx.rule("C06.X5", "no handler between the engine call and the returned value can absorb the carrier")
    ctx.assume("which of several concurrent failures is recorded first is not decided (the property fixes it for one worker only)")
    ctx.rule("C06.X6", "the engine evaluated as a whole on every small multigraph, failing set (Exception and BaseException), max_errors, scheduler and dequeue order: nothing downstream of a failed call is called, no call starts after the failure budget is exceeded, the carrier of the first failed node is raised, chained to that call's exception")
    from .engineeval import rule_engine_evaluated
    ctx.run(rule_engine_evaluated, "C06.X6", None, ("containment", "budget", "outcome", "cause"))
    ctx.run(E.rule_callback_state_private, "C06.X4")
    r = E.discover(ctx.model)
    rr = R.discover(ctx.model, r)
    ctx.run(E.rule_enqueue_after_success, "C06.X1", r)
    ctx.run(E.rule_atomic_counter, "C06.X1", r)
    ctx.run(E.rule_catch_all, "C06.X2", r)
    ctx.run(E.rule_first_error, "C06.X3", r)
    ctx.run(R.rule_cause_chain, "C06.X4", rr)
    from .evalrules import rule_failure_path
    ctx.run(lambda c_: rule_failure_path(c_, rr, rid_cause="C06.X4"))
    ctx.run(R.rule_no_value_on_failure, "C06.X5", rr)
    from .extra import rule_plan_records_dependencies, rule_exit_not_truthy, rule_error_path_total
    ctx.run(rule_exit_not_truthy, "C06.X5")
    ctx.run(rule_plan_records_dependencies, "C06.X1")
    ctx.run(E.rule_callbacks_only_via_engine, "C06.X1", r, [rr.runcb, rr.stalecb])
    ctx.run(rule_error_path_total, "C06.X4")
    from .prunerules import rule_pruning_evaluated as _rpe
    ctx.run(_rpe, "C06.X1", rr)
