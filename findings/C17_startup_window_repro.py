"""Genuine defect in the UNMODIFIED library w.r.t. C17 (not one of the injected changes).

worker_pool() starts the worker threads one by one *outside* the try/finally that sets the
stop flag and enqueues the DONE sentinels:

    with worker_pool(queue, process_node, worker_count):   # <- threads are started here
        try:
            queue.join()
        finally:
            stop = True; put DONE x worker_count

The first worker begins executing calls as soon as it is started, while the calling thread
is still starting workers 2..N.  If SIGINT reaches the calling thread in that window
(i.e. "during the 1st call"), KeyboardInterrupt is raised inside worker_pool's for-loop:
worker_pool's own finally joins the already-started workers, but nobody has set `stop` or
enqueued DONE, so
  * the started workers keep running EVERY remaining call of the plan, and
  * afterwards they block forever in queue.get(), so run() never returns and
    KeyboardInterrupt never reaches the caller (a 2nd Ctrl-C is needed, which then leaks
    the threads).
The same happens if Thread.start() itself fails for the k-th worker (RuntimeError: can't
start new thread).

This script hits the window deterministically: Thread.start is wrapped so that, when the
calling thread is about to start the 2nd worker and the 1st call is already executing,
it sends SIGINT to itself.

exit 0: run() raised KeyboardInterrupt and no call started after the signal.
exit 1: defect observed.
"""
import os
import signal
import sys
import threading
import time

import uberjob

MAIN_IDENT = threading.main_thread().ident
N_CALLS = 6
first_call_running = threading.Event()
release_first_call = threading.Event()
signal_time = [None]
started = []
lock = threading.Lock()

_orig_start = threading.Thread.start
worker_starts = [0]


def patched_start(self):
    if (
        threading.get_ident() == MAIN_IDENT
        and getattr(self, "_target", None) is not None
        and self._target.__name__ == "process_items"
    ):
        worker_starts[0] += 1
        if worker_starts[0] == 2 and signal_time[0] is None:
            first_call_running.wait(10)
            signal_time[0] = time.monotonic()
            signal.pthread_kill(MAIN_IDENT, signal.SIGINT)  # KeyboardInterrupt raised right here
            time.sleep(0.05)  # (never reached: the handler runs at the next bytecode)
    return _orig_start(self)


def call(i):
    with lock:
        started.append((i, time.monotonic()))
        first = len(started) == 1
    if first:
        first_call_running.set()
        release_first_call.wait(2)  # in flight across the interrupt
    return i


def watchdog():
    time.sleep(8)
    late = [i for i, t in started if signal_time[0] and t > signal_time[0]]
    frame = sys._current_frames()[MAIN_IDENT]
    where = []
    while frame is not None and len(where) < 5:
        where.append(f"{os.path.basename(frame.f_code.co_filename)}:{frame.f_code.co_name}")
        frame = frame.f_back
    print("DEFECT: run() has not returned 8 s after the interrupt")
    print("  main thread is in          :", " <- ".join(where))
    print("  calls started after SIGINT :", late, f"({len(started)} of {N_CALLS} calls ran in total)")
    print("  live worker threads        :", [t.name for t in threading.enumerate() if "process_items" in t.name])
    sys.stdout.flush()
    os._exit(1)


def main():
    threading.Thread(target=watchdog, daemon=True).start()
    threading.Thread.start = patched_start
    plan = uberjob.Plan()
    items = [plan.call(call, i) for i in range(N_CALLS)]
    try:
        uberjob.run(plan, output=items, max_workers=3, progress=None)
        outcome = "returned normally"
    except KeyboardInterrupt:
        outcome = "KeyboardInterrupt"
    late = [i for i, t in started if signal_time[0] and t > signal_time[0]]
    print("outcome:", outcome, "| calls started after SIGINT:", late)
    os._exit(0 if outcome == "KeyboardInterrupt" and not late else 1)


if __name__ == "__main__":
    main()
