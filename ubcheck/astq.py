"""Small AST query helpers shared by the rules."""
from __future__ import annotations

import ast

from .model import AnalysisError, Func, Model, describe, norm

OPAQUE = ("param", "attr", "callres", "elem", "unknown", "usermethod")


def ext_names(model: Model, func: Func, call: ast.Call):
    return {o[1] for o in model.callee_origins(func, call) if o[0] == "ext"}


def callee_desc(model, func, call):
    return sorted(describe(o) for o in model.callee_origins(func, call))


def arg(call: ast.Call, idx=None, name=None):
    """The expression passed at positional index `idx` or keyword `name` (None if absent / starred)."""
    if idx is not None and idx < len(call.args) and not any(isinstance(a, ast.Starred) for a in call.args[: idx + 1]):
        return call.args[idx]
    if name is not None:
        for kw in call.keywords:
            if kw.arg == name:
                return kw.value
    return None


def const(expr, default=None):
    return expr.value if isinstance(expr, ast.Constant) else default


def is_name(expr, ident):
    return isinstance(expr, ast.Name) and expr.id == ident


def is_self_attr(expr, attr, selfname="self"):
    return (isinstance(expr, ast.Attribute) and expr.attr == attr and isinstance(expr.value, ast.Name)
            and expr.value.id == selfname)


def ancestors(mod, node):
    p = mod.parent.get(node)
    while p is not None:
        yield p
        p = mod.parent.get(p)


def inside(mod, node, anc):
    return any(p is anc for p in ancestors(mod, node))


def stmt_of(mod, node):
    p = node
    while p is not None and not isinstance(p, ast.stmt):
        p = mod.parent.get(p)
    return p


def enclosing(mod, node, types):
    for p in ancestors(mod, node):
        if isinstance(p, types):
            return p
    return None


def in_body(mod, node, compound, field):
    """Is `node` (transitively) inside compound.<field> (e.g. Try.finalbody, With.body)?"""
    for s in getattr(compound, field):
        if s is node or inside(mod, node, s):
            return True
    return False


def names_in(expr):
    return {n.id for n in ast.walk(expr) if isinstance(n, ast.Name)}


def handler_catches_all(h: ast.ExceptHandler):
    return h.type is None or (isinstance(h.type, ast.Name) and h.type.id == "BaseException")


def handler_classes(h: ast.ExceptHandler):
    if h.type is None:
        return ["BaseException"]
    if isinstance(h.type, ast.Tuple):
        return [norm(e).split(".")[-1] for e in h.type.elts]
    return [norm(h.type).split(".")[-1]]


def calls_of(func: Func, pred):
    return [c for c in func.own_calls() if pred(c)]


def attr_calls(func: Func, attr):
    return [c for c in func.own_calls() if isinstance(c.func, ast.Attribute) and c.func.attr == attr]


def is_opaque_callee(model, func, call):
    return any(o[0] in OPAQUE for o in model.callee_origins(func, call))


def with_items_calls(w: ast.With):
    return [it.context_expr for it in w.items if isinstance(it.context_expr, ast.Call)]


def loc(func: Func, node=None):
    return func.loc(node)


def need(cond, msg):
    if not cond:
        raise AnalysisError(msg)


def lock_withs(model, func):
    """`with X:` statements in func's own scope whose context expr is a threading.Lock/RLock object."""
    out = []
    for n in func.own_nodes():
        if isinstance(n, ast.With):
            for it in n.items:
                os_ = model.origins_of(func, it.context_expr)
                if any(o[0] == "extinst" and o[1] in ("threading.Lock", "threading.RLock") for o in os_):
                    out.append((n, it.context_expr))
    return out


def unparse_target(t):
    return norm(t)


def real_body(fn_node):
    """Statements of a def without docstrings / constant-expression no-ops."""
    return [s for s in fn_node.body if not (isinstance(s, ast.Expr) and isinstance(s.value, ast.Constant))]


class _Canon(ast.NodeTransformer):
    def __init__(self, keep):
        self.keep = keep
        self.map = {}

    def visit_Name(self, node):
        if node.id in self.keep:
            return node
        if node.id not in self.map:
            self.map[node.id] = f"_{len(self.map) + 1}"
        return ast.copy_location(ast.Name(id=self.map[node.id], ctx=node.ctx), node)

    def visit_IfExp(self, node):
        # positive form: `a if not c else b` == `b if c else a`; `is not`/`!=`/`not in` likewise
        test, body, orelse = node.test, node.body, node.orelse
        flipped = False
        while isinstance(test, ast.UnaryOp) and isinstance(test.op, ast.Not):
            test, flipped = test.operand, not flipped
        neg = {ast.IsNot: ast.Is, ast.NotEq: ast.Eq, ast.NotIn: ast.In}
        if isinstance(test, ast.Compare) and len(test.ops) == 1 and type(test.ops[0]) in neg:
            test = ast.Compare(left=test.left, ops=[neg[type(test.ops[0])]()], comparators=test.comparators)
            flipped = not flipped
        if flipped:
            body, orelse = orelse, body
        new = ast.IfExp(test=test, body=body, orelse=orelse)
        return self.generic_visit(ast.copy_location(new, node))

    def visit_ExceptHandler(self, node):
        self.generic_visit(node)
        if node.name and node.name not in self.keep:
            if node.name not in self.map:
                self.map[node.name] = f"_{len(self.map) + 1}"
            node.name = self.map[node.name]
        return node


def canon(nodes, keep):
    """Alpha-normalised text of a list of AST nodes (or source strings): every Name not in `keep` is replaced by
    _1, _2, ... in order of first occurrence, so renaming local variables does not change the result."""
    import copy
    c = _Canon(set(keep))
    out = []
    for n in nodes:
        if isinstance(n, str):
            n = ast.parse(n).body[0]
            if isinstance(n, ast.Expr):
                n = n.value
        n = c.visit(copy.deepcopy(n))
        out.append(" ".join(ast.unparse(n).split()))
    return out


def global_names(model, func):
    """Names that are not local to `func` or its enclosing functions: parameters, module globals, builtins stay fixed
    under alpha-renaming of locals."""
    keep = set()
    f = func
    while f is not None:
        keep |= set(f.params)
        f = f.parent
    keep |= set(func.module.bindings.keys())
    import builtins
    keep |= set(dir(builtins))
    return keep


def expand_locals(f, e, depth=0):
    """Copy of expression `e` in which every local name of `f` that is bound exactly once, by a plain assignment, is
    replaced by the assigned expression (recursively): two sides that go through differently named - or equally named -
    temporaries compare by what they compute."""
    import copy

    class X(ast.NodeTransformer):
        def visit_Name(self, n):
            if isinstance(n.ctx, ast.Load) and depth < 4 and n.id not in f.params:
                bs = f.bindings.get(n.id, [])
                if len(bs) == 1 and bs[0][0] == "assign" and not bs[0][2] and isinstance(bs[0][1], ast.expr):
                    return expand_locals(f, bs[0][1], depth + 1)
            return n
    return X().visit(copy.deepcopy(e))


def tree_order(root):
    """{id(node): position} in depth-first pre-order of the tree below `root` - the textual order of a function's statements,
    independent of line numbers (which canonicalisation keeps from wherever a statement was moved from)."""
    pos = {}

    def go(n):
        pos[id(n)] = len(pos)
        for c in ast.iter_child_nodes(n):
            go(c)
    go(root)
    return pos


def comes_before(root, a, b):
    """Does node `a` come before node `b` in the tree below `root`?"""
    pos = tree_order(root)
    return id(a) in pos and id(b) in pos and pos[id(a)] < pos[id(b)]
