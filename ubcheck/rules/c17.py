"""C17 - Ctrl-C during a run stops new work, waits for in-flight calls and cleans up (K1-K5)."""
from . import engine as E
from . import runrules as R


def check(ctx):
    ctx.rule("C17.K1", "queue.join() is the body of a try whose finally sets the stop flag and posts the sentinels, inside the pool context whose finally joins every worker")
    ctx.rule("C17.K2", "the stop flag is tested before every user call and only ever set to True")
    ctx.rule("C17.K3", "no handler / __exit__ on the calling thread's path absorbs KeyboardInterrupt")
    ctx.rule("C17.K4", "the sentinel's priority in the default scheduler is strictly below every node priority")
    ctx.rule("C17.K5", "the observer's __exit__ sets the done event then joins its update thread; run holds it in one with")
    ctx.rule("C17.K6", "an exception on the calling thread while the pool is still starting its workers (the first worker is already executing calls) releases the started workers - stop flag, sentinels - before they are joined")
    ctx.assume("an interrupt is considered at every point of the calling thread between the first thread start and the return of run; a second interrupt during cleanup is not")
    ctx.rule("C17.K7", "the engine evaluated as a whole with KeyboardInterrupt raised out of queue.join() after 1 or 2 items, or out of Thread.start while the workers are being started (every small multigraph, scheduler, with and without recorded failures): no call starts afterwards, every worker gets a sentinel and exits, every thread is joined, and KeyboardInterrupt - not the recorded failure - comes out")
    from .engineeval import rule_engine_evaluated
    ctx.run(rule_engine_evaluated, "C17.K7", None, ("hang", "joined", "interrupt-propagates", "interrupt-stops"), kinds=("interrupt", "startup"))
    r = E.discover(ctx.model)
    rr = R.discover(ctx.model, r)
    ctx.run(E.rule_interrupt_cleanup, "C17.K1", r)
    ctx.run(E.rule_sentinels, "C17.K1", r)
    ctx.run(E.rule_pool_joins, "C17.K1", r)
    ctx.run(E.rule_stop_discipline, "C17.K2", r)
    ctx.run(R.rule_nothing_swallows_interrupt, "C17.K3", rr)
    ctx.run(R.rule_sentinel_priority, "C17.K4", rr)
    ctx.run(R.rule_observer_exit, "C17.K5", rr)
    from .extra import rule_composite_exit_stack, rule_finally_clean, rule_exit_not_truthy
    ctx.run(rule_composite_exit_stack, "C17.K5")
    ctx.run(rule_exit_not_truthy, "C17.K3")
    ctx.run(rule_finally_clean, "C17.K3", [rr.run, rr.apply, rr.stale, rr.run_physical, r.engine, r.pool])
    ctx.run(E.rule_first_error, "C17.K3", r)
    ctx.run(E.rule_startup_interrupt, "C17.K6", r)
    # the observer's __exit__ joins the display's update thread: that thread must end once the done event is set, also when the
    # display's sink keeps failing (evaluated, see c20.rule_update_thread)
    from .c20 import rule_update_thread, update_thread_of
    ctx.run(lambda c_: rule_update_thread(c_, "C17.K5", *update_thread_of(ctx.model), termination_only=True))
    ctx.run(lambda c_: rule_update_thread(c_, "C17.K5", *update_thread_of(ctx.model), failing_output=True))
