"""Observations on the UNMODIFIED library (not part of the seeded changes)."""
import sys, threading, warnings
import uberjob
from uberjob.progress import Progress
from uberjob.progress._console_progress_observer import ConsoleProgressObserver

errors = []
threading.excepthook = lambda a: errors.append((a.exc_type.__name__, str(a.exc_value)))

def make(outs):
    o = ConsoleProgressObserver(initial_update_delay=0.05, min_update_interval=0.05, max_update_interval=3600)
    o._output = outs.append
    return o

def bad_syntax_error():
    raise SyntaxError("bad config", ("cfg.ini", 3, 1, 42))   # text is not a str

def sys_exit():
    raise SystemExit(3)

def ok():
    return 1

def run(fn, **kw):
    outs = []; o = make(outs)
    plan = uberjob.Plan(); x = plan.call(fn)
    try:
        uberjob.run(plan, output=x, progress=Progress(lambda: o), **kw)
    except BaseException as e:
        print("  run raised", type(e).__name__)
    return outs

print("1. SyntaxError with a non-str text attribute:")
del errors[:]; outs = run(bad_syntax_error); print("  renderings:", len(outs), "thread errors:", errors)
print("2. BaseException from a call (SystemExit):")
del errors[:]; outs = run(sys_exit); print("  last rendering:", outs[-1].splitlines()[1:] if outs else None, "thread errors:", errors)
print("3. warnings as errors (python -W error): datetime.utcnow() is deprecated in 3.12")
del errors[:]
with warnings.catch_warnings():
    warnings.simplefilter("error")
    outs = run(ok)
print("  renderings:", len(outs), "thread errors:", errors)
