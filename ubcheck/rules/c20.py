"""C20 - bundled progress displays render every reachable state, ending with the final one (R1-R5).

Decides: totality of every sort key over scope-derived data, the final-render path of the update thread, exit
order, lock/stale-flag discipline of notifications, sibling agreement of the state transitions.  Does not decide:
that _render never raises for arbitrary __str__, wall-clock sums."""
from __future__ import annotations

import ast

from ..absval import Native
from ..astq import comes_before, arg, ext_names, handler_catches_all, handler_classes, inside, is_name, loc, lock_withs, names_in, stmt_of, in_body
from ..cfg import CFG, any_call_may_raise
from ..model import AnalysisError, Func, head, norm
from . import roles

TOTAL_CALLS = {"str", "repr", "len", "id", "hash", "int", "float", "bool"}


def totality(m, f, e, raw_names, depth=0):
    """'total' | 'raw' | 'unknown' for a sort-key expression; raw_names = variables holding raw scope values."""
    if isinstance(e, ast.Constant):
        return "total"
    if isinstance(e, ast.Name):
        return "raw" if e.id in raw_names else "unknown"
    if isinstance(e, ast.Call):
        fn = e.func
        if isinstance(fn, ast.Name) and fn.id in TOTAL_CALLS:
            return "total"
        if isinstance(fn, ast.Name) and fn.id == "tuple" and len(e.args) == 1:
            return totality(m, f, e.args[0], raw_names, depth)
        if isinstance(fn, ast.Attribute) and fn.attr in ("__name__", "__qualname__"):
            return "total"
        if depth < 3:
            for g in m.callee_funcs(f, e):
                rets = [n for n in g.own_nodes() if isinstance(n, ast.Return) and n.value is not None]
                if isinstance(g.node, ast.Lambda):
                    rets = [ast.Return(value=g.node.body)]
                if len(rets) == 1:
                    # parameters receive raw data if any argument does
                    arg_raw = any(totality(m, f, a.value if isinstance(a, ast.Starred) else a, raw_names, depth + 1) == "raw"
                                  or (isinstance(a, ast.Starred) and names_in(a) & raw_names)
                                  or (isinstance(a, (ast.Subscript, ast.Attribute)) and names_in(a) & raw_names) for a in e.args)
                    inner_raw = set(g.params) if arg_raw else set()
                    return totality(m, g, rets[0].value, inner_raw, depth + 1)
        return "unknown"
    if isinstance(e, ast.Attribute):
        if e.attr in ("__name__", "__qualname__"):
            return "total"
        return "raw" if names_in(e) & raw_names else "unknown"
    if isinstance(e, ast.Subscript):
        return "raw" if names_in(e) & raw_names else "unknown"
    if isinstance(e, ast.Tuple):
        ts = [totality(m, f, x, raw_names, depth) for x in e.elts]
        return "raw" if "raw" in ts else ("unknown" if "unknown" in ts else "total")
    if isinstance(e, (ast.GeneratorExp, ast.ListComp)):
        gen = e.generators[0]
        inner = set(raw_names)
        if names_in(gen.iter) & raw_names:
            inner |= names_in(gen.target)
        return totality(m, f, e.elt, inner, depth)
    if isinstance(e, ast.JoinedStr):
        return "total"
    return "unknown"


def sort_sites(m):
    out = []
    for f in m.funcs.values():
        if not f.module.name.startswith("uberjob.progress"):
            continue
        for c in f.own_calls():
            if (isinstance(c.func, ast.Name) and c.func.id in ("sorted", "min", "max")) or (
                    isinstance(c.func, ast.Attribute) and c.func.attr == "sort"):
                out.append((f, c))
    return out


def scope_derived(m, f, c):
    """Is the sorted iterable derived from a scope dictionary / scope tuples?"""
    it = c.args[0] if c.args else (c.func.value if isinstance(c.func, ast.Attribute) else None)
    if it is None:
        return False
    txt = norm(it)
    return any(w in txt for w in ("scope", "items()", "keys()", "mapping"))


def check(ctx):
    m = ctx.model
    ctx.rule("C20.R1", "every ordering of scope-derived data uses a key whose components are total (str/repr/len/type name ...), or falls back to such a key when the natural comparison raises TypeError")
    ctx.rule("C20.R2", "update thread: after the done-wait returns true the render step still runs before the loop exits; the render step clears the stale flag under the lock")
    ctx.rule("C20.R3", "__exit__ sets the done event, then joins the update thread")
    ctx.rule("C20.R4", "each notification method takes the lock, sets the stale flag and forwards (section, scope[, amount]) to the same-named state method")
    ctx.rule("C20.R10", "the render methods of the console and HTML displays evaluated on states produced by the package's own counting state (nothing announced, stale check only, no 'run' section, dry run, mixed with a recorded exception) over string / number / tuple / None / HTML-special scope values: a rendering comes back, nothing is raised")
    ctx.run(rule_renderers_evaluated, "C20.R10")
    ctx.rule("C20.R9", "the bundled displays as the package configures them (the constant timing arguments of every constructor / partial of a concrete display in the progress package): the update thread, evaluated with a clock that advances between its wake-ups and nothing changing, does not die and still renders the final state")
    ctx.run(rule_displays_as_configured, "C20.R9")
    ctx.rule("C20.R8", "exceptions are part of the state to render: every formatting of a recorded exception by the traceback module in the progress package (format_exception and friends can raise on exceptions they cannot format, e.g. a SyntaxError whose text is not a str) is guarded by an Exception-wide fallback")
    ctx.run(rule_exception_formatting_guarded, "C20.R8")
    ctx.rule("C20.R7", "the counting state evaluated with a scripted clock on every legal notification sequence of up to four events over two scopes (elapsed-time attribution interleaved anywhere, up to three calls running): counts equal the events, nothing negative, the scopes' elapsed times add up to the time during which at least one call was running")
    ctx.run(rule_state_accounting, "C20.R7")
    ctx.rule("C20.R5", "state transitions agree: completed/failed are equal modulo the counter; elapsed update first; running counts move together; running-set membership iff running > 0")
    ctx.trust("sorted raises TypeError iff some key comparison does; tuples compare lexicographically; str/int/float/bool/bytes are totally ordered within their type")
    # ---------------------------------------------------------------- R1
    sites = sort_sites(m)
    evaluated_ok = ctx.run(rule_scope_ordering_evaluated, "C20.R1") or set()
    n_scope = 0
    for f, c in sites:
        key = arg(c, None, "key")
        it0 = c.args[0] if c.args else None
        if key is None and isinstance(it0, (ast.GeneratorExp, ast.ListComp)) and totality(m, f, it0.elt, set()) == "total":
            ctx.ob("C20.R1", f"{f.short}/non-scope-ordering", True, loc(f, c), "ordering of numbers/strings only", norm(c)[:80])
            continue
        if key is None and not scope_derived(m, f, c):
            if any(f is g_ or f in m.reachable([g_], kinds=("call",)) for g_ in evaluated_ok):
                n_scope += 1
                continue  # a helper below the shared scope ordering, which was decided by evaluation on adversarial scope values
            raise AnalysisError(f"{f.qualname}: ordering `{norm(c)[:60]}` without key over elements of unknown kind")
        n_scope += 1
        if key is None:
            verdict = "raw"
        else:
            kf = m.func_of_node.get(key) if isinstance(key, ast.Lambda) else None
            if kf is not None:
                verdict = totality(m, kf, kf.node.body, set(kf.params))
            else:
                verdict = "unknown"
                for g in (o[1] for o in m.origins_of(f, key) if o[0] == "func"):
                    rets = [n for n in g.own_nodes() if isinstance(n, ast.Return) and n.value is not None]
                    if len(rets) == 1:
                        verdict = totality(m, g, rets[0].value, set(g.params))
        if verdict == "unknown":
            raise AnalysisError(f"{f.qualname}: sort key `{norm(key)}` is outside the totality language")
        ok = verdict == "total"
        why = "all key components are total"
        if not ok:
            # admitted: sort inside try whose TypeError handler falls back to a total key
            fb = False
            narrow = False
            for t in [n for n in f.own_nodes() if isinstance(n, ast.Try)]:
                if in_body(f.module, c, t, "body"):
                    for h in t.handlers:
                        # the comparison of two user values can raise anything (TypeError for unorderable types, ArithmeticError for
                        # Decimal('NaN'), whatever a user-defined __lt__ raises): only a handler for Exception covers the natural key
                        narrow = narrow or bool(set(handler_classes(h)) & {"TypeError", "ValueError", "ArithmeticError"})
                        if handler_catches_all(h) or set(handler_classes(h)) & {"Exception", "BaseException"}:
                            for c2 in [x for x in ast.walk(h) if isinstance(x, ast.Call) and x in f.own_calls()]:
                                if (f, c2) in sites:
                                    k2 = arg(c2, None, "key")
                                    kf2 = m.func_of_node.get(k2) if isinstance(k2, ast.Lambda) else None
                                    if kf2 is not None and totality(m, kf2, kf2.node.body, set(kf2.params)) == "total":
                                        fb = True
            in_handler = any(inside(f.module, c, h) for n in f.own_nodes() if isinstance(n, ast.Try) for h in n.handlers)
            ok = fb
            why = ("raw scope values in the key, with a fallback to a total key whenever their comparison raises" if fb else
                   "raw scope values are compared by the sort key and the fallback to a total key is taken for some exception classes only: "
                   "a comparison that raises something else (Decimal('NaN') < Decimal(1) raises decimal.InvalidOperation, an "
                   "ArithmeticError) ends the update thread and the display stops" if narrow else
                   "raw scope values are compared by the sort key: two values of one type that cannot be ordered (complex, "
                   "instances without __lt__) raise TypeError in the update thread and the display stops")
            if in_handler and verdict != "total":
                ok, why = False, "the fallback sort itself uses raw scope values"
        ctx.ob("C20.R1", f"{f.short}/sort-key", ok, loc(f, c), why, norm(c)[:140])
    ctx.floor("C20.R1", "orderings of scope-derived data", n_scope, 1)
    # R1b: the three concrete observers order scopes only through that function
    shared = {f for f, c in sites if scope_derived(m, f, c) or arg(c, None, "key") is not None}
    users = [f for f in m.funcs.values() if f.module.name.startswith("uberjob.progress") and
             any(g in shared for c in f.own_calls() for g in m.callee_funcs(f, c))]
    ctx.floor("C20.R1", "renderers using the shared scope ordering", len(users), 3)
    ctx.rule("C20.R6", "premise of 'every reachable state renders': the totals a run announces are multiplicities >= 1 (evaluated on a symbolic plan) - the HTML display divides by the total")
    from . import engine as E_e
    from . import runrules as R_r
    from .evalrules import rule_totals
    _rr = R_r.discover(m, E_e.discover(m))
    ctx.run(lambda c_: rule_totals(c_, "C20.R6", _rr, rid_positive="C20.R6"))
    ctx.run(rule_observer_instance_state, "C20.R2")
    ctx.run(rule_widget_max_before_value, "C20.R2")
    # ---------------------------------------------------------------- R2
    spo = roles.simple_observer(m)
    ut = [tg for (c, call, tg) in m.thread_targets if c.cls is spo]
    if len(ut) != 1:
        raise AnalysisError("update thread target not found")
    upd = [o[1] for o in ut[0] if o[0] in ("bound", "func")]
    if len(upd) != 1:
        raise AnalysisError("update thread target not resolved")
    upd = upd[0]
    ctx.run(lambda c_: rule_update_thread(c_, "C20.R2", spo, upd))
    ctx.run(lambda c_: rule_update_thread(c_, "C20.R2", spo, upd, failing_output=True))
    # ---------------------------------------------------------------- R3
    ex = spo.methods["__exit__"]
    calls = ex.own_calls()
    sets = [c for c in calls if isinstance(c.func, ast.Attribute) and c.func.attr == "set"]
    joins = [c for c in calls if isinstance(c.func, ast.Attribute) and c.func.attr == "join"]
    ok = len(sets) == 1 and len(joins) == 1 and comes_before(ex.node, sets[0], joins[0]) and not joins[0].args
    ctx.ob("C20.R3", f"{ex.short}/set-then-join", ok, loc(ex), "done event set, then thread joined" if ok else "__exit__ order changed")
    # ---------------------------------------------------------------- R4
    n = 0
    for name in ("increment_total", "increment_running", "increment_completed", "increment_failed"):
        f = spo.methods.get(name)
        if f is None:
            raise AnalysisError(f"SimpleProgressObserver.{name} missing")
        n += 1
        locks = lock_withs(m, f)
        body = [s for s in f.node.body if not (isinstance(s, ast.Expr) and isinstance(s.value, ast.Constant))]
        ok = len(locks) == 1 and len(body) == 1 and body[0] is locks[0][0]
        ctx.ob("C20.R4", f"{f.short}/under-lock", ok, loc(f), "whole body under the observer lock" if ok else "notification body not (entirely) under the lock")
        if not locks:
            continue
        w = locks[0][0]
        st = [s for s in w.body if isinstance(s, ast.Assign) and norm(s.targets[0]) == "self._stale" and getattr(s.value, "value", 0) is True]
        ctx.ob("C20.R4", f"{f.short}/sets-stale", len(st) == 1, loc(f), "sets the stale flag" if st else "does not set the stale flag: the change may never be rendered")
        fw = [c for c in ast.walk(w) if isinstance(c, ast.Call) and norm(c.func) == f"self._state.{name}"]
        want = ["section", "scope"] + (["amount"] if "amount" in f.params else [])
        ok = len(fw) == 1 and [norm(a) for a in fw[0].args] == want and not path_guarded(f, fw[0], w)
        ctx.ob("C20.R4", f"{f.short}/forwards", ok, loc(f), f"forwards ({', '.join(want)}) to the state" if ok else "does not forward its arguments to the same-named state method unconditionally")
    ctx.floor("C20.R4", "notification methods", n, 4)
    # ---------------------------------------------------------------- R5
    stc = roles.progress_state(m)
    comp, fail, run = (stc.methods.get(x) for x in ("increment_completed", "increment_failed", "increment_running"))
    if not (comp and fail and run):
        raise AnalysisError("State transition methods missing")

    def shape(f, counter):
        # modulo the incremented counter and modulo the names of locals (numbered in order of first appearance)
        import copy as _copy
        body = [_copy.deepcopy(s) for s in f.node.body if not (isinstance(s, ast.Expr) and isinstance(s.value, ast.Constant))]
        locals_ = {}
        params = set(f.params)
        for s_ in body:
            for n_ in ast.walk(s_):
                if isinstance(n_, ast.Name) and n_.id not in params and (n_.id in locals_ or isinstance(n_.ctx, ast.Store)):
                    locals_.setdefault(n_.id, f"_v{len(locals_)}")
        for s_ in body:
            for n_ in ast.walk(s_):
                if isinstance(n_, ast.Name) and n_.id in locals_:
                    n_.id = locals_[n_.id]
        return [norm(s_).replace(counter, "<counter>") for s_ in body]
    ok = shape(comp, "completed") == shape(fail, "failed")
    ctx.ob("C20.R5", "State.increment_completed~increment_failed", ok, loc(comp), "equal as ASTs modulo the incremented counter" if ok else
           "completed/failed transitions differ beyond the counter (running counts / elapsed attribution drift)")
    # the method of the state class that reads the clock and attributes the elapsed time (today update_weighted_elapsed)
    clock_readers = [f_ for f_ in stc.methods.values() if f_.name != "__init__" and
                     any(ext_names(m, f_, c_) & {"time.time", "time.monotonic", "time.perf_counter"} for c_ in f_.own_calls())]
    if len(clock_readers) != 1:
        raise AnalysisError("State: the method that attributes elapsed time (the one reading the clock) not found")
    uw = clock_readers[0]
    for f in (comp, fail, run):
        first = [s_ for s_ in f.node.body if not (isinstance(s_, ast.Expr) and isinstance(s_.value, ast.Constant))][0]
        ok = isinstance(first, ast.Expr) and isinstance(first.value, ast.Call) and uw in m.callee_funcs(f, first.value) and not first.value.args
        ctx.ob("C20.R5", f"{f.short}/elapsed-first", ok, loc(f), "elapsed time is attributed before any counter changes" if ok else
               "counters change before elapsed time is attributed")
    gu = CFG(uw, may_raise=lambda n: False)
    sets = [n for n in uw.own_nodes() if isinstance(n, ast.Assign) and norm(n.targets[0]) == "self._prev_time"]
    sn = set()
    for s_ in sets:
        sn |= set(gu.of(s_))
    ok = bool(sets) and gu.must_pass(gu.entry, sn, exits={gu.exit})
    ctx.ob("C20.R5", f"{uw.short}/advances-clock-on-every-path", ok, loc(uw),
           "the reference time advances on every path (idle periods are not attributed to later calls)" if ok else
           "on some path the reference time is not advanced: idle time is later charged to whatever scope runs next",
           "", "" if ok else gu.fmt_path(gu.path(gu.entry, {gu.exit}, avoid=sn)))
    tnames = [nm for nm, bs in uw.bindings.items() for k, e, p_ in bs if k == "assign" and e is not None and norm(e) == "time.time()"]
    ok = len(tnames) == 1 and all(norm(s_.value) == tnames[0] for s_ in sets)
    ctx.ob("C20.R5", f"{uw.short}/one-clock-reading", ok, loc(uw), "one clock reading per update, stored as the new reference" if ok else
           "elapsed update does not store the clock reading it used")
    from ..astq import real_body

    def local_of(f):
        """The local holding the scope state: first name assigned from a subscript of the section/scope mapping."""
        for s_ in real_body(f.node):
            if isinstance(s_, ast.Assign) and isinstance(s_.targets[0], ast.Name) and isinstance(s_.value, ast.Subscript):
                return s_.targets[0].id
        raise AnalysisError(f"{f.qualname}: scope-state local not found")

    def cbody(f):
        return [norm(s_) for s_ in real_body(f.node)]

    def cst(f, *stmts):
        v = local_of(f)
        import re
        return [norm(ast.parse(re.sub(r"\bscope_state\b", v, t_)).body[0]) for t_ in stmts]
    for f, sign in ((run, "+"), (comp, "-"), (fail, "-")):
        txt = cbody(f)
        ok = cst(f, f"scope_state.running {sign}= 1")[0] in txt and f"self.running_count {sign}= 1" in txt
        ctx.ob("C20.R5", f"{f.short}/running-counts-together", ok, loc(f), f"scope running and global running move together ({sign}1/{sign}1)" if ok else
               "scope running count and global running count do not move together")
    ok = cst(run, "self._running_scope_states.add(scope_state)")[0] in cbody(run)
    ctx.ob("C20.R5", f"{run.short}/joins-running-set", ok, loc(run), "scope state enters the running set")
    for f in (comp, fail):
        want_if = cst(f, "if not scope_state.running:\n    self._running_scope_states.remove(scope_state)")[0]
        cb_ = cbody(f)
        ok = want_if in cb_ and cst(f, "scope_state.running -= 1")[0] in cb_ and cb_.index(want_if) > cb_.index(cst(f, "scope_state.running -= 1")[0])
        ctx.ob("C20.R5", f"{f.short}/leaves-running-set", ok, loc(f), "leaves the running set exactly when its running count reaches 0" if ok else
               "running-set membership does not follow running > 0")


def update_thread_of(m):
    spo = roles.simple_observer(m)
    ut = [tg for (c, call, tg) in m.thread_targets if c.cls is spo]
    if len(ut) != 1:
        raise AnalysisError("update thread target not found")
    upd = [o[1] for o in ut[0] if o[0] in ("bound", "func")]
    if len(upd) != 1:
        raise AnalysisError("update thread target not resolved")
    return spo, upd[0]


def display_configurations(m, spo):
    """The bundled displays as the package configures them: constructor calls / functools.partial(...) of concrete observer classes in
    the progress package, with their constant keyword arguments.  -> [(module, call node, class, {kw: value})]"""
    out = []
    for mod in m.modules.values():
        if not mod.name.startswith("uberjob.progress"):
            continue
        for c in ast.walk(mod.tree):
            if not isinstance(c, ast.Call):
                continue
            target = None
            if isinstance(c.func, ast.Name) and c.func.id == "partial" and c.args and isinstance(c.args[0], ast.Name):
                target = c.args[0].id
            elif isinstance(c.func, ast.Name):
                target = c.func.id
            if target is None:
                continue
            cls = next((k for k in m.classes.values() if k.name == target and spo in k.repo_mro() and k is not spo), None)
            if cls is None:
                continue
            kw = {k.arg: k.value.value for k in c.keywords if k.arg and isinstance(k.value, ast.Constant)}
            out.append((mod, c, cls, kw))
    return out


def rule_displays_as_configured(ctx, rid):
    """Every bundled display, with the timing parameters the package itself passes, survives periods in which nothing changes: the
    update thread is evaluated with a clock that advances by 40 s at every reading, the end of the run placed late (interactions 9, 17
    and 24) - the idle wake-ups before it compare the elapsed time with the configured intervals."""
    m = ctx.model
    spo, upd = update_thread_of(m)
    cfgs = display_configurations(m, spo)
    ctx.floor(rid, "bundled display configurations", len(cfgs), 2)
    for mod, c, cls, kw in cfgs:
        probs = rule_update_thread(ctx, rid, spo, upd, ctor_kwargs=kw, advancing_clock=True, placements=(9, 17, 24))
        ok = not probs
        ctx.ob(rid, f"{cls.name}/as-configured", ok, f"{mod.path.split('/src/')[-1] if '/src/' in mod.path else mod.path}:{c.lineno}",
               f"{cls.name}({', '.join(f'{k}={v!r}' for k, v in kw.items())}): the update thread survives idle wake-ups and still renders the final state" if ok
               else f"{cls.name}({', '.join(f'{k}={v!r}' for k, v in kw.items())}): " + "; ".join(f"{w} (end of run at interaction {ks[0]})" for w, ks in probs.items()),
               norm(c)[:100])


def rule_update_thread(ctx, rid, spo, upd, failing_output=False, termination_only=False, sink_outside_lock=False, ctor_kwargs=None,
                       advancing_clock=False, placements=None):
    """The update thread, evaluated against every placement of the end of the run.

    The observer object is built by interpreting SimpleProgressObserver.__init__; lock, done event, clock, _render and _output
    are abstract objects that record what happens.  The update-thread function is then interpreted once per *moment* k: at the
    k-th interaction of the thread with its environment (clock reading, wait / is_set, taking or releasing the lock, render,
    output) the last notification arrives (stale flag set) and the done event is set - deferred to the release of the lock
    when the thread holds it, because notifications take the same lock.  The clock does not advance, so only the stale flag
    can make a render due.  Required for every k: the thread terminates; after that moment it still renders (under the lock)
    and outputs that very rendering - i.e. the last display shows the final state; every render happens
    under the lock; the thread itself writes the stale flag only while holding the lock."""
    from ..absval import AbsRaise, Interp, Obj, Stub
    m = ctx.model
    init = spo.methods.get("__init__")
    if init is None:
        raise AnalysisError("SimpleProgressObserver.__init__ not found")
    K = 24
    problems = {}
    n_runs = 0
    terminated_without_moment = False
    for k in (placements or range(1, K + 1)):
        st = {"n": 0, "held": False, "fired": None, "pending": False, "set": False, "waits": 0, "clock": 1000.0}
        events = []

        class Attrs(dict):
            def __setitem__(self, key, val):
                if key == "_stale" and st.get("live") and not st["held"] and not st.get("firing"):
                    events.append(("flag-write-unlocked", val))
                dict.__setitem__(self, key, val)
        me = Obj(spo, {}, name="observer")
        me.attrs = Attrs()

        def fire():
            st["firing"] = True
            me.attrs["_stale"] = True
            st["firing"] = False
            st["set"] = True
            st["fired"] = len(events)
            st["pending"] = False

        def tick():
            st["n"] += 1
            if st["n"] == k and st["fired"] is None:
                if st["held"]:
                    st["pending"] = True
                else:
                    fire()

        def enter():
            tick()
            if st["held"]:
                raise AnalysisError("update thread takes the observer lock twice")
            st["held"] = True

        def leave():
            st["held"] = False
            if st["pending"]:
                fire()
            tick()

        def wait(timeout=None):
            st["waits"] += 1
            if st["waits"] > 60:
                raise AbsRaise("NO-TERMINATION")
            tick()
            return st["set"]

        def is_set():
            tick()
            return st["set"]

        def abstract_method(name):
            # the display's own methods (abstract in the base class): a call that is handed a rendering is the *output* of that
            # rendering, any other call *produces* a rendering - whatever the two methods are called
            def fn(*a, **kw):
                tick()
                tokens = [x for x in list(a) + list(kw.values()) if isinstance(x, tuple) and x[:1] == ("rendering",)]
                if tokens:
                    events.append(("output", st["held"], tokens[0]))
                    if failing_output:
                        raise AbsRaise("OSError: the display's sink fails (disk full, closed pipe)")
                    return None
                events.append(("render", st["held"], me.attrs.get("_stale"), len(events)))
                return ("rendering", len(events) - 1)
            return fn

        def clock():
            tick()
            if advancing_clock:
                st["clock"] += 40.0
            return st["clock"]
        lock = Obj(None, {"__enter__": Stub("__enter__", enter), "__exit__": Stub("__exit__", leave),
                          "acquire": Stub("acquire", lambda *a, **kw: enter() or True), "release": Stub("release", leave)}, name="lock")
        event = Obj(None, {"wait": Stub("wait", wait), "is_set": Stub("is_set", is_set), "set": Stub("set", lambda: None)}, name="done")
        interp = Interp(m, ext={"threading.Lock": lambda: lock, "threading.RLock": lambda: lock, "threading.Event": lambda: event,
                             "time.time": clock, "time.monotonic": clock, "threading.Thread": lambda *a, **kw: Obj(None, {}, "thread")})
        try:
            kw = {p_: v_ for p_, v_ in (("initial_update_delay", 0.5), ("min_update_interval", 1.0), ("max_update_interval", 10.0))
                  if p_ in init.params}
            if ctor_kwargs is not None:
                kw = {p_: v_ for p_, v_ in ctor_kwargs.items() if p_ in init.params}
            missing = [p_ for p_ in init.params[1:] if p_ not in kw and p_ not in init.defaults]
            if missing:
                raise AnalysisError(f"unexpected parameters of {init.qualname}: {missing}")
            interp.call_func(init, None, [], kw, bound_self=me)
        except AbsRaise as e:
            raise AnalysisError(f"abstract evaluation of {init.qualname} raised {e.value!r}")
        abstract = [n_ for n_ in spo.methods if spo.is_abstract_method(n_)]
        if len(abstract) < 2:
            raise AnalysisError(f"{spo.name}: expected abstract render/output methods for the displays to implement")
        for n_ in abstract:
            me.attrs[n_] = Stub(n_, abstract_method(n_))
        st["n"] = 0
        st["live"] = True
        why = None
        try:
            interp.call_func(upd, None, [], {}, bound_self=me)
        except AbsRaise as e:
            why = ("the update thread does not terminate after the done event is set" if e.value == "NO-TERMINATION" else
                   f"the update thread dies with {e.value!r}")
            if failing_output and e.value != "NO-TERMINATION":
                why = None  # a persistently failing sink may end the thread; it must not keep it alive for ever
                st["fired"] = st["fired"] if st["fired"] is not None else 0
        n_runs += 1
        if failing_output or termination_only:
            if why and not failing_output and "does not terminate" not in why and "never set" not in why:
                why = None  # C17 asks only that the thread ends once the run has ended
            if why:
                problems.setdefault(why + ": the observer's __exit__ joins this thread, so run() never returns (also after Ctrl-C)", []).append(k)
            continue
        if why is None and st["fired"] is None:
            # the thread ended before moment k although the run never ended
            terminated_without_moment = True
            why = "the update thread ends although the done event was never set"
        if why is None:
            after = events[st["fired"]:]
            rs = [e for e in after if e[0] == "render"]
            if not rs:
                why = ("no render after the last notification and the end of the run: the last display does not show the final counts")
            else:
                last = rs[-1]
                outs = [e for e in after if e[0] == "output" and e[2] == ("rendering", last[3])]
                if not outs:
                    why = "the rendering of the final state is never output"
            if sink_outside_lock:
                why = None
                if [e for e in events if e[0] == "output" and e[1]]:
                    why = ("the output sink (console print, file write, user callback) is called while the observer's lock is held: every worker "
                           "takes that lock for its next notification, so a slow sink stalls all workers - ready calls are not started")
            bad_r = [e for e in events if e[0] == "render" and not e[1]]
            bad_w = [e for e in events if e[0] == "flag-write-unlocked"]
            if why is None and bad_r:
                why = "a render step runs without the lock that notifications take"
            if why is None and bad_w:
                why = "the update thread writes the stale flag without holding the lock: a concurrent notification's flag can be overwritten and its change never rendered"
        if why:
            problems.setdefault(why, []).append(k)
        if terminated_without_moment:
            break
    if ctor_kwargs is not None:
        return problems
    if sink_outside_lock:
        ok = not problems
        ctx.ob(rid, f"{upd.short}/sink-outside-lock", ok, loc(upd),
               f"evaluated for the end of the run placed at each of the first {K} interactions: the output sink is only ever called with the observer's lock released"
               if ok else "; ".join(f"{w} (end of run at interaction {ks[0]})" for w, ks in problems.items()))
        return
    if failing_output or termination_only:
        ok = not problems
        ctx.ob(rid, f"{upd.short}/terminates-with-failing-sink" if failing_output else f"{upd.short}/terminates", ok, loc(upd),
               f"evaluated with an output sink that {'fails on every call' if failing_output else 'works'}, for the end of the run placed at each of the first {K} interactions: "
               f"the update thread ends (so the observer's __exit__, which joins it, returns)" if ok else
               "; ".join(f"{w} (end of run at interaction {ks[0]})" for w, ks in problems.items()))
        return
    ok = not problems
    desc = "; ".join(f"{w} (end of run at interaction {ks[0]}{'' if len(ks) == 1 else f' and {len(ks) - 1} other placements'})" for w, ks in problems.items())
    ctx.ob(rid, f"{upd.short}/final-state-rendered", ok, loc(upd),
           f"evaluated for the end of the run placed at each of the first {K} interactions of the thread: it terminates, renders under the "
           f"lock after the last notification and outputs that rendering" if ok else desc)
    ctx.floor(rid, "placements of the end of the run evaluated", n_runs, 1 if not ok else K)


def path_guarded(f, call, root):
    p = f.module.parent.get(call)
    while p is not None and p is not root:
        if isinstance(p, (ast.If, ast.Try, ast.For, ast.While)):
            return True
        p = f.module.parent.get(p)
    return False


def rule_observer_instance_state(ctx, rid):
    """Observer classes keep their state per instance: no mutable containers as class attributes."""
    m = ctx.model
    n = 0
    for cls in m.classes.values():
        if not cls.module.name.startswith("uberjob.progress"):
            continue
        for nm, e in cls.class_assigns.items():
            n += 1
            mutable = isinstance(e, (ast.List, ast.Dict, ast.Set, ast.ListComp, ast.DictComp, ast.SetComp)) or (
                isinstance(e, ast.Call) and isinstance(e.func, ast.Name) and e.func.id in ("set", "list", "dict", "defaultdict", "deque", "Counter"))
            ctx.ob(rid, f"{cls.name}.{nm}", not mutable, f"{cls.module.relpath}:{e.lineno}",
                   "class attribute is immutable" if not mutable else
                   f"`{nm}` is a mutable class attribute shared by every observer in the process: state from one run leaks into the "
                   f"rendering of the next (its final counts may never be printed)", norm(e)[:60])
    ctx.notes["observer_class_attributes"] = n


def rule_widget_max_before_value(ctx, rid):
    """IPython progress bars: `max` is assigned before `value` (the widget clamps value to the current max)."""
    m = ctx.model
    cls = roles.ipython_observer(m)
    n = 0
    for f in cls.methods.values():
        stores = [(nd.lineno, norm(nd.targets[0].value), nd.targets[0].attr) for nd in f.own_nodes()
                  if isinstance(nd, ast.Assign) and isinstance(nd.targets[0], ast.Attribute) and nd.targets[0].attr in ("max", "value")
                  and "progress" in norm(nd.targets[0].value)]
        widgets = {w for _l, w, _a in stores}
        for w in widgets:
            ls = {a: l for l, ww, a in stores if ww == w}
            if "value" in ls:
                n += 1
                ok = "max" in ls and ls["max"] < ls["value"]
                ctx.ob(rid, f"{f.short}/{w}", ok, f"{cls.module.relpath}:{ls['value']}",
                       "max is set before value" if ok else
                       "the bar's value is assigned before (or without) its max: the widget clamps it to the old max, so the last rendering "
                       "does not show the final count")
        for c in f.own_calls():
            kws = [k.arg for k in c.keywords]
            if "value" in kws and "max" in kws and kws.index("value") < kws.index("max"):
                n += 1
                ctx.ob(rid, f"{f.short}/helper-order", False, f"{cls.module.relpath}:{c.lineno}",
                       "a helper assigns `value` before `max` (keyword order): the widget clamps value to the old max", norm(c)[:80])
    ctx.floor(rid, "progress-bar value assignments", n, 1)



# ------------------------------------------------------------------------------------------------ C20.R7
def _legal_sequences(max_len):
    """Notification sequences after totals for scopes a (3) and b (2) were announced: run / done / fail per scope and `tick` (the
    update thread attributing elapsed time), legal in the sense of C15 (a call ends only while one of its scope is running)."""
    out = []

    def rec(seq, ra, rb):
        out.append(tuple(seq))
        if len(seq) >= max_len:
            return
        for ev in ("run a", "run b", "done a", "done b", "fail a", "fail b", "tick"):
            k, _, sc = ev.partition(" ")
            if k in ("done", "fail") and (ra if sc == "a" else rb) == 0:
                continue
            if k == "run" and (ra + rb) >= 3:
                continue
            d = 1 if k == "run" else -1 if k in ("done", "fail") else 0
            rec(seq + [ev], ra + (d if sc == "a" else 0), rb + (d if sc == "b" else 0))
    rec([], 0, 0)
    return out


def rule_state_accounting(ctx, rid):
    """The counting state of the bundled displays, evaluated with a scripted clock on every legal notification sequence of up to four
    events over two scopes (plus longer hand-picked ones with three calls running), with the update thread's elapsed-time attribution
    interleaved anywhere: afterwards the per-scope counts are the counts of the events, nothing is negative, a scope that never ran
    has no time attributed, and the times attributed to the scopes add up to the time during which at least one call was running."""
    from ..absval import AbsRaise, Interp, Obj
    m = ctx.model
    stc = roles.progress_state(m)
    init = stc.lookup("__init__")
    names = {k: stc.methods.get(k) for k in ("increment_total", "increment_running", "increment_completed", "increment_failed")}
    if not all(names.values()):
        raise AnalysisError("State: notification methods missing")
    tickers = [f_ for f_ in stc.methods.values() if f_.name != "__init__" and len(f_.pos_params) == 1 and
               any(ext_names(m, f_, c_) & {"time.time", "time.monotonic", "time.perf_counter"} for c_ in f_.own_calls())]
    if len(tickers) != 1:
        raise AnalysisError("State: the method that attributes elapsed time (the one reading the clock) not found")
    seqs = _legal_sequences(4)
    seqs += [("run a", "run a", "run b", "tick", "done a", "tick", "fail b", "done a"), ("run b", "tick", "run a", "run a", "done b", "tick", "fail a", "tick", "done a"),
             ("run a", "done a", "tick", "tick", "run b", "run b", "tick", "done b", "fail b"), ("run a", "run b", "run b", "fail a", "done b", "tick", "done b", "tick")]
    STEP = 12  # the clock advances by 12 before every event: divisible by every running count that can occur (1..3)
    bad, n = [], 0
    for seq in seqs:
        clock = [0]
        interp = Interp(m, ext={"time.time": lambda: clock[0], "time.monotonic": lambda: clock[0], "time.perf_counter": lambda: clock[0]})
        try:
            args = [0] if isinstance(init, Func) and len(init.pos_params) > 1 else []
            st = interp.call(interp.class_val(stc), args, {})

            def call(name, *a):
                f_ = names.get(name) or tickers[0]
                return interp.call_func(f_, None, list(a), {}, bound_self=st)
            scopes = {"a": ("x", 1), "b": ("y",)}
            call("increment_total", "run", scopes["a"], 3)
            call("increment_total", "run", scopes["b"], 2)
            call("increment_total", "stale", scopes["a"], 1)
            want = {"a": dict(total=3, running=0, completed=0, failed=0), "b": dict(total=2, running=0, completed=0, failed=0)}
            busy = 0
            ever = set()
            for ev in seq:
                clock[0] += STEP
                if want["a"]["running"] + want["b"]["running"] > 0:
                    busy += STEP
                k, _, sc = ev.partition(" ")
                if k == "tick":
                    call("tick")
                    continue
                call({"run": "increment_running", "done": "increment_completed", "fail": "increment_failed"}[k], "run", scopes[sc])
                if k == "run":
                    want[sc]["running"] += 1
                    ever.add(sc)
                else:
                    want[sc]["running"] -= 1
                    want[sc]["completed" if k == "done" else "failed"] += 1
            clock[0] += STEP
            if want["a"]["running"] + want["b"]["running"] > 0:
                busy += STEP
            call("tick")
        except AbsRaise as e:
            bad.append(f"{list(seq)}: raises {e.value!r}")
            continue
        n += 1
        # the per-scope records: objects of a class of the progress package reachable from the state
        recs = {}
        seen, stack = set(), [st]
        while stack:
            v = stack.pop()
            if id(v) in seen:
                continue
            seen.add(id(v))
            if isinstance(v, Obj):
                stack.extend(v.attrs.values())
            elif isinstance(v, dict):
                for k_, x_ in v.items():
                    if isinstance(x_, Obj) and x_ is not st and k_ in scopes.values():
                        recs.setdefault(k_, []).append(x_)
                    stack.append(x_)
            elif isinstance(v, (list, tuple, set, frozenset)):
                stack.extend(v)
        why = None
        total_elapsed = 0
        for sc, key in scopes.items():
            rs = [r_ for r_ in recs.get(key, []) if r_.attrs.get("total") == want[sc]["total"]]
            if len(rs) != 1:
                raise AnalysisError("State: the per-scope record of section 'run' was not found in the evaluated state")
            r_ = rs[0]
            for fld, w_ in want[sc].items():
                if r_.attrs.get(fld) != w_:
                    why = why or f"scope {sc}: {fld} is {r_.attrs.get(fld)!r}, the events say {w_}"
            el = r_.attrs.get("weighted_elapsed")
            if not isinstance(el, (int, float)):
                raise AnalysisError("State: the per-scope record has no numeric weighted_elapsed")
            if el < 0:
                why = why or f"scope {sc}: negative elapsed time {el}"
            if sc not in ever and el != 0:
                why = why or f"scope {sc} never ran but has {el} time units attributed"
            total_elapsed += el
        if why is None and total_elapsed != busy:
            why = f"the scopes' elapsed times add up to {total_elapsed}, but at least one call was running for {busy} time units"
        if why:
            bad.append(f"{list(seq)}: {why}")
    ok = not bad
    ctx.ob(rid, f"{stc.name}/accounting-evaluated", ok, loc(stc.methods["increment_running"]),
           f"evaluated on {n} notification sequences with a scripted clock: counts equal the events, elapsed times are non-negative and add up to the busy time" if ok
           else "; ".join(bad[:2]) + (f" (+{len(bad) - 2} more)" if len(bad) > 2 else ""))
    ctx.floor(rid, "notification sequences the state was evaluated on", n, 300)
    ctx.notes["state_sequences_evaluated"] = n



# ------------------------------------------------------------------------------------------------ C20.R8
_TB_FORMATTERS = {"traceback.format_exception", "traceback.format_exception_only", "traceback.format_exc", "traceback.print_exception",
                  "traceback.format_tb", "traceback.TracebackException", "traceback.TracebackException.from_exception"}


def rule_exception_formatting_guarded(ctx, rid):
    m = ctx.model
    n = 0
    for f in m.funcs.values():
        if not f.module.name.startswith("uberjob.progress"):
            continue
        for c in f.own_calls():
            if not (ext_names(m, f, c) & _TB_FORMATTERS):
                continue
            n += 1
            guarded = False
            for t in [x for x in f.own_nodes() if isinstance(x, ast.Try)]:
                if in_body(f.module, c, t, "body"):
                    for h in t.handlers:
                        if (handler_catches_all(h) or set(handler_classes(h)) & {"Exception", "BaseException"}) and \
                                not any(isinstance(x, ast.Call) and x in f.own_calls() and ext_names(m, f, x) & _TB_FORMATTERS for x in ast.walk(h)) and \
                                not any(isinstance(x, ast.Raise) for x in ast.walk(h)):
                            guarded = True
            ctx.ob(rid, f"{f.short}/exception-formatting-guarded", guarded, loc(f, c),
                   "formatting a recorded exception falls back to a total text when the traceback module cannot format it" if guarded else
                   f"`{norm(c)[:60]}` is not guarded: an exception the traceback module cannot format (a SyntaxError whose text is not a str, "
                   f"a broken __str__) raises inside the render step - the update thread ends and nothing is rendered any more", norm(c)[:100])
    ctx.floor(rid, "formattings of recorded exceptions in the progress package", n, 1)



# ------------------------------------------------------------------------------------------------ C20.R1 (evaluated)
class _ScopeValue:
    """A scope value that is hashable and equatable (by identity) and whose ordering comparisons raise `exc` (None: not orderable
    in the ordinary way - TypeError); str() gives `text`."""

    def __init__(self, text, exc="TypeError"):
        self.text, self.exc = text, exc

    def _cmp(self, other):
        from ..absval import AbsRaise
        raise AbsRaise(f"{self.exc}: '<' not supported between scope values")
    __lt__ = __gt__ = __le__ = __ge__ = _cmp

    def __str__(self):
        return self.text

    def __repr__(self):
        return f"<{self.text}>"


def rule_scope_ordering_evaluated(ctx, rid):
    """The function through which the displays order scopes, evaluated on scope dictionaries whose values are only hashable and
    equatable: comparisons raising TypeError, comparisons raising ArithmeticError (Decimal('NaN')), two distinct unorderable values
    that print alike (so that a total text key ties), mixed types, different lengths.  It must return every item and never raise.
    -> the set of functions decided this way."""
    from ..absval import AbsRaise, Interp, Obj
    m = ctx.model
    sites = sort_sites(m)
    cands = {f for f, c in sites if f.cls is None and f.parent is None and len(f.pos_params) == 1}
    users = {}
    for g in cands:
        users[g] = [f for f in m.funcs.values() if f.module.name.startswith("uberjob.progress") and f is not g
                    and any(g in m.callee_funcs(f, c) for c in f.own_calls())]
    shared = [g for g in cands if len(users[g]) >= 2]
    # a helper of the shared function is not the role itself
    shared = [g for g in shared if not any(g in m.reachable([h], kinds=("call",)) for h in shared if h is not g)]
    if len(shared) != 1:
        raise AnalysisError(f"role SCOPEORDER: expected one function through which the displays order scopes, found {sorted(g.qualname for g in shared)}")
    g = shared[0]
    cases = {
        "two values of one type whose comparison raises TypeError": [(_ScopeValue("u1"),), (_ScopeValue("u2"),)],
        "two values whose comparison raises ArithmeticError (Decimal('NaN'))": [(_ScopeValue("NaN", "ArithmeticError"),), (_ScopeValue("1", "ArithmeticError"),)],
        "two distinct unorderable values that print alike": [(_ScopeValue("same"),), (_ScopeValue("same"),)],
        "unorderable values behind an equal first component": [("a", _ScopeValue("x")), ("a", _ScopeValue("y"))],
        "mixed types": [(1,), ("a",), (None,), (2.5,)],
        "different lengths": [("a", "b"), ("a",), ()],
    }
    bad = []
    for label, scopes in cases.items():
        d = {sc: Obj(None, {}, name=f"state{i}") for i, sc in enumerate(scopes)}
        interp = Interp(m, ext={"builtins.type": lambda x: type(x), "builtins.str": lambda x="": str(x), "builtins.repr": lambda x: repr(x)})
        try:
            out = interp.call_func(g, None, [d], {})
            items = interp.iterate(out)
            if len(items) != len(scopes) or {id(k) for k, _v in items} != {id(k) for k in scopes}:
                bad.append(f"{label}: returns {len(items)} of {len(scopes)} items")
        except AbsRaise as e:
            bad.append(f"{label}: raises {str(e.value)[:60]} - in the update thread, which then stops rendering")
    ok = not bad
    ctx.ob(rid, f"{g.short}/evaluated", ok, loc(g),
           f"evaluated on {len(cases)} scope dictionaries with values that are merely hashable and equatable: every item comes back, nothing is raised" if ok
           else "; ".join(bad[:2]))
    return {g}


# ------------------------------------------------------------------------------------------------ C20.R10
class _Buffer(Native):
    """Checker-side model of io.StringIO."""

    def __init__(self, *a):
        self.parts = []

    def write(self, s):
        self.parts.append(str(s))
        return len(str(s))

    def getvalue(self):
        return "".join(self.parts)

    def __enter__(self):
        return self

    def __exit__(self, *exc):
        return False

    def close(self):
        pass


def _render_states(interp, stc, scopes):
    """Reachable progress states, produced by driving the package's own counting state with notifications.  -> [(label, mapping, exceptions)]"""
    from ..absval import Obj
    out = []

    def fresh():
        init = stc.lookup("__init__")
        args = [0] if isinstance(init, Func) and len(init.pos_params) > 1 else []
        return interp.call(interp.class_val(stc), args, {})

    def note(st, name, *a):
        return interp.call_func(stc.methods[name], None, list(a), {}, bound_self=st)

    def mapping(st):
        for v in st.attrs.values():
            if isinstance(v, dict) and (not v or all(isinstance(x, dict) for x in v.values())):
                return v
        raise AnalysisError("State: the section/scope mapping was not found in the evaluated state")
    a, b = scopes[0], scopes[1]
    st = fresh()
    out.append(("nothing announced yet", mapping(st), []))
    st = fresh()
    note(st, "increment_total", "stale", a, 2)
    note(st, "increment_running", "stale", a)
    out.append(("stale check under way, no 'run' section", mapping(st), []))
    st = fresh()
    note(st, "increment_total", "stale", a, 1)
    note(st, "increment_running", "stale", a)
    note(st, "increment_completed", "stale", a)
    out.append(("stale check done, everything fresh: no 'run' section at all", mapping(st), []))
    st = fresh()
    note(st, "increment_total", "run", a, 3)
    note(st, "increment_total", "run", b, 1)
    out.append(("dry run: totals announced, nothing executed", mapping(st), []))
    st = fresh()
    note(st, "increment_total", "stale", a, 1)
    note(st, "increment_running", "stale", a)
    note(st, "increment_completed", "stale", a)
    note(st, "increment_total", "run", a, 3)
    note(st, "increment_total", "run", b, 1)
    for _ in range(3):
        note(st, "increment_running", "run", a)
    note(st, "increment_completed", "run", a)
    note(st, "increment_running", "run", b)
    note(st, "increment_failed", "run", b)
    exc = Obj(None, {"args": ("boom",)}, name="ValueError")
    out.append(("mixed: running, completed, failed with a recorded exception", mapping(st),
                [(b, (Obj(None, {"__name__": "ValueError"}, name="ValueErrorType"), exc, None))]))
    return out


def rule_renderers_evaluated(ctx, rid):
    """The render methods of the bundled console and HTML displays, evaluated on progress states produced by the package's own
    counting state - nothing announced yet, a stale check under way, everything fresh (no 'run' section), a dry run (totals only), a
    mix of running / completed / failed with a recorded exception - over scopes whose values are strings, numbers, tuples, None,
    text with HTML special characters and a file name with an undecodable byte (a str with a lone surrogate, as os.listdir returns it).  They must return a rendering and not raise."""
    from ..absval import AbsRaise, Interp, Obj, Stub
    import html as _html
    import textwrap as _tw
    m = ctx.model
    spo, upd = update_thread_of(m)
    stc = roles.progress_state(m)
    cfgs = display_configurations(m, spo)
    done, bad, n = set(), [], 0
    for mod, c, cls, kw in cfgs:
        if cls in done:
            continue
        done.add(cls)
        render = None
        for nm in spo.methods:
            if spo.is_abstract_method(nm) and isinstance(cls.lookup(nm), Func) and len(cls.lookup(nm).pos_params) >= 4:
                render = cls.lookup(nm)
        if render is None:
            raise AnalysisError(f"{cls.name}: render method (abstract in {spo.name}, four arguments) not found")
        if any(ext_names(m, f_, c_) and any(x.split(".")[0] in ("ipywidgets", "IPython") for x in ext_names(m, f_, c_))
               for f_ in [render] + list(m.reachable([render], kinds=("call",))) for c_ in f_.own_calls()):
            continue  # the IPython display builds widgets of a third-party library: not evaluated (stated in the level text)
        for scopes in ((("extract", "load"), ("transform",)), ((1, ("t", 2.5)), (None,)), (("<b>&'x'",), ("a", "b", "c")), (("data-\udcff.csv",), ("ok",))):
            printed = []

            def _print(*a, sep=" ", end=chr(10), file=None, flush=False):
                text = sep.join(str(x) for x in a) + end
                (file.write(text) if file is not None else printed.append(text))
            interp = Interp(m, ext={"io.StringIO": _Buffer, "builtins.print": _print, "html.escape": _html.escape, "textwrap.indent": _tw.indent,
                                    "time.time": lambda: 1000.0, "threading.Lock": lambda: Obj(None, {}, "lock"), "threading.Event": lambda: Obj(None, {}, "event"),
                                    "threading.Thread": lambda *a, **k: Obj(None, {}, "thread"),
                                    "datetime.datetime.utcnow": lambda: Obj(None, {"strftime": Stub("strftime", lambda f_: "2026-01-01 00:00:00"),
                                                                                   "isoformat": Stub("isoformat", lambda *a: "2026-01-01T00:00:00")}, name="now"),
                                    "datetime.datetime.now": lambda *a: Obj(None, {"strftime": Stub("strftime", lambda f_: "2026-01-01 00:00:00"),
                                                                                  "isoformat": Stub("isoformat", lambda *a: "2026-01-01T00:00:00")}, name="now"),
                                    "traceback.format_exception": lambda *a, **k: ["Traceback (most recent call last):" + chr(10), "ValueError: boom" + chr(10)],
                                    "builtins.type": lambda x: type(x)})
            try:
                states = _render_states(interp, stc, scopes)
                me = Obj(cls, {}, name="display")
                init = cls.lookup("__init__")
                pos = [Stub("sink", lambda *a, **k: None)] * max(0, len([p_ for p_ in init.pos_params[1:] if p_ not in init.defaults])) if isinstance(init, Func) else []
                interp.call_func(init, None, pos, dict(kw), bound_self=me)
            except AbsRaise as e:
                raise AnalysisError(f"{cls.name}: building the display / the states raised {e.value!r}")
            for label, mapping, excs in states:
                n += 1
                try:
                    out = interp.call_func(render, None, [mapping, 0, excs, 12.5], {}, bound_self=me)
                    if out is None or (isinstance(out, (str, bytes)) and not out):
                        bad.append(f"{cls.name} on '{label}' (scopes {scopes[0]!r}...): returns nothing")
                except AbsRaise as e:
                    bad.append(f"{cls.name} on '{label}' (scopes {scopes[0]!r}...): raises {str(getattr(e.value, 'name', e.value))[:80]} - in the update thread, which then stops rendering")
    ok = not bad
    ctx.ob(rid, "DISPLAYS/render-evaluated", ok, loc(spo.methods.get("__init__") or next(iter(spo.methods.values()))),
           f"evaluated: the console and HTML renderers return a rendering for each of {n} (state, scope kind) combinations" if ok else "; ".join(bad[:3]))
    ctx.floor(rid, "renderings evaluated", n, 20)
