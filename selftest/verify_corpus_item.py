"""Development tool: re-confirm corpus items after their patch was carried over a fix: commit of /repo.
For each given directory: tree (HEAD or the item's base) + patch; the 81 tests must pass; when the item has a demo.py it must
exit 0 on the unpatched tree and 1 on the patched one.   usage: verify_corpus_item.py <dir>..."""
import os, subprocess, sys
sys.path.insert(0, os.path.dirname(os.path.abspath(__file__)))
from _corpus import tree_with_patch, remove, _add
import tempfile
from concurrent.futures import ThreadPoolExecutor


def run_demo(d, wt):
    env = dict(os.environ, PYTHONPATH=os.path.join(wt, "src"))
    try:
        return subprocess.run(["/venv/bin/python", os.path.join(d, "demo.py")], env=env, capture_output=True, text=True, timeout=300, cwd=wt).returncode
    except subprocess.TimeoutExpired:
        return "timeout"


def one(d):
    d = d.rstrip("/")
    wt, envx, base, err = tree_with_patch(d, "ubver_")
    try:
        if err:
            return f"{d} NOAPPLY {err}"
        env = dict(os.environ, PYTHONPATH=os.path.join(wt, "src"))
        t = subprocess.run(["/venv/bin/python", "-m", "pytest", "-q", "-p", "no:cacheprovider", "--timeout=900"], env=env, capture_output=True, text=True, cwd=wt)
        tail = t.stdout.strip().splitlines()[-1] if t.stdout.strip() else ""
        ok = t.returncode == 0 and "81 passed" in tail
        msg = f"tests={'ok' if ok else tail}"
        if os.path.exists(os.path.join(d, "demo.py")):
            r1 = run_demo(d, wt)
            subprocess.run(["git", "-C", wt, "checkout", "-q", "--", "."])
            subprocess.run(["git", "-C", wt, "clean", "-fdq"])
            r0 = run_demo(d, wt)
            ok = ok and r1 == 1 and r0 == 0
            msg += f" demo patched={r1} clean={r0}"
        return f"{d} {'OK' if ok else 'FAIL'} {msg}" + (f" [base {base}]" if base else "")
    finally:
        remove(wt)


with ThreadPoolExecutor(int(os.environ.get("JOBS", "6"))) as ex:
    for line in ex.map(one, sys.argv[1:]):
        print(line, flush=True)
