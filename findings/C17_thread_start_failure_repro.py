"""
Unmodified library: if starting the k-th worker thread fails (RuntimeError "can't start new thread":
ulimit -u / memory / container pid limit), worker_pool's finally joins the workers that did start, but the
DONE sentinels are only enqueued in the body of the with-block, which is never reached. The started workers
drain the queue and then block in queue.get() forever, so run() never returns (it should raise RuntimeError).

exit 0: run() raised; exit 1: run() hangs.
"""
import os
import sys
import threading

import uberjob

real_start = threading.Thread.start
started = []


def flaky_start(self):
    if getattr(self, "_target", None) is not None and self._target.__name__ == "process_items":
        if len(started) >= 2:
            raise RuntimeError("can't start new thread")
        started.append(self)
    return real_start(self)


threading.Thread.start = flaky_start

plan = uberjob.Plan()
x = plan.call(int, 1)
outcome = {}


def target():
    try:
        outcome["result"] = uberjob.run(plan, output=x, max_workers=4, progress=None)
    except BaseException as e:
        outcome["exception"] = e


t = threading.Thread(target=target, daemon=True)
real_start(t)
t.join(10)
if t.is_alive():
    print("run() hangs; workers started and still alive:", [w for w in started if w.is_alive()])
    sys.stdout.flush()
    os._exit(1)
print("run() outcome:", outcome)
os._exit(0)
