"""C05 - exactly the out-of-date stored values are rebuilt; a repeated run does nothing (T1, W1-W3)."""
from . import engine as E
from . import runrules as R
from . import rewriterules as W
from . import stalerules as S


def check(ctx):
    ctx.rule("C05.T1", "staleness decision table equals the specification (strict comparison; pure sources only when missing; propagation through store-less nodes)")
    ctx.rule("C05.W1", "fresh entry: every out-edge of the original node is removed, argument consumers hang off the read node, plain dependents are released, no write node")
    ctx.rule("C05.W2", "one read node per entry, one write node iff stale; each call executes at most once (atomic readiness counter, exclusive partition, queue kinds)")
    ctx.rule("C05.W4", "a successful file-store write always replaces the target (so its modified time advances past its inputs')")
    ctx.rule("C05.W3", "only write nodes and the redirected output are required: with nothing stale and no output the required set is empty")
    ctx.assume("run-time counts of reads/writes are not observed; 'read at most once' additionally rests on C04")
    from .engineeval import rule_engine_evaluated
    ctx.run(rule_engine_evaluated, "C05.W2", None, ("order", "once", "complete"))
    er = E.discover(ctx.model)
    rr = R.discover(ctx.model, er)
    ctx.run(S.rule_stale_table, "C05.T1", rr)
    ctx.notes["exhaustive"] = True
    ctx.run(S.rule_order_only, "C05.T1", rr)
    from .c18 import rule_normaliser_frames, rule_store_time_frames
    ctx.run(rule_store_time_frames, "C05.T1")
    ctx.run(rule_normaliser_frames, "C05.T1")
    ctx.run(W.rule_edge_effect_table, "C05.W2", rr, rid_fresh="C05.W1")
    ctx.run(W.rule_two_entry_chains, "C05.W2", rr)
    ctx.run(W.rule_snapshot_before_mutation, "C05.W1", rr)
    ctx.run(S.rule_every_stale_entry_rebuilt, "C05.W2", rr, rid_required="C05.W3")
    from .prunerules import rule_pruning_evaluated
    ctx.run(rule_pruning_evaluated, "C05.W3", rr)
    ctx.run(E.rule_atomic_counter, "C05.W2", er)
    ctx.run(E.rule_counting_agreement, "C05.W2", er)
    ctx.run(E.rule_one_callback_per_dequeue, "C05.W2", er)
    ctx.run(E.rule_queue_effects, "C05.W2", er)
    ctx.run(E.rule_enqueue_after_success, "C05.W2", er)
    ctx.run(E.rule_callbacks_only_via_engine, "C05.T1", er, [rr.runcb, rr.stalecb])
    from .extra import rule_fresh_time_untouched
    ctx.run(rule_fresh_time_untouched, "C05.T1", rr)
    ctx.run(S.rule_owner_writes_only, "C05.T1", rr)
    ctx.run(S.rule_stale_check_sees_stored_nodes, "C05.T1", rr)
    # a successful write always publishes (the store's modified time advances): premise of 'a repeated run does nothing'
    from . import c11
    sub = type(ctx)(ctx.pid, ctx.model, ctx.tier, quiet=True)
    ctx.run(lambda _c: c11.check(sub))
    for o in sub.obligations:
        if o["rule"] in ("C11.A8", "C11.A2"):
            o = dict(o)
            o["rule"] = "C05.W4"
            ctx.obligations.append(o)
