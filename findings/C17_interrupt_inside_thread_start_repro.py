"""
Reproduction of a residual start-up window in the UNMODIFIED library (HEAD 0827675).

worker_pool() records a worker only after thread() has returned:

        workers.append(worker_thread(queue, process_item))

thread() does t.start() (which blocks in self._started.wait(), an interruptible wait) and
returns t. A KeyboardInterrupt that lands in the main thread after the new thread is running
but before list.append has executed leaves a running worker that is NOT in `workers`:
release_workers() posts its sentinel, but nobody joins it. run() then raises
KeyboardInterrupt while that worker is still executing a call (calls that are short start
immediately, so "during the 1st call" can very well be "inside Thread.start()").

The interrupt is injected deterministically with sys.settrace: when thread() in
run_function_on_graph.py is about to return for the first time, the trace function raises
KeyboardInterrupt in the main thread, exactly what a SIGINT handled at that bytecode boundary does.

exit 0: run() waited for the in-flight call; exit 1: run() returned while the call was executing.
"""
import sys
import threading
import time

import uberjob

call_entered = threading.Event()
let_call_finish = threading.Event()
call_finished = threading.Event()


def work():
    call_entered.set()
    let_call_finish.wait(20)
    call_finished.set()


injected = []


def tracer(frame, event, arg):
    code = frame.f_code
    if code.co_name == "thread" and code.co_filename.endswith("run_function_on_graph.py"):
        def local(frame, event, arg):
            if event == "return" and not injected:
                # the new worker is running; make sure it is inside the call already
                call_entered.wait(20)
                injected.append(True)
                raise KeyboardInterrupt
            return local
        return local
    return None


def main():
    plan = uberjob.Plan()
    x = plan.call(work)
    before = set(threading.enumerate())
    sys.settrace(tracer)
    try:
        uberjob.run(plan, output=x, max_workers=2, progress=None)
        outcome = "returned normally"
    except KeyboardInterrupt:
        outcome = "KeyboardInterrupt"
    finally:
        sys.settrace(None)
    executing = call_entered.is_set() and not call_finished.is_set()
    alive = [t for t in threading.enumerate() if t not in before]
    print(f"run() outcome: {outcome}; interrupt injected: {bool(injected)}")
    print(f"call still executing after run() raised: {executing}")
    print(f"threads created by run() still alive: {alive}")
    let_call_finish.set()
    for t in alive:
        t.join(20)
    if executing or alive:
        print("VIOLATION: run() did not wait for the in-flight call / its worker")
        sys.exit(1)
    print("OK")
    sys.exit(0)


if __name__ == "__main__":
    main()
