"""C04 - each needed call runs exactly once, nothing unneeded runs (premises D1-D4)."""
from . import engine as E
from . import runrules as R


def check(ctx):
    ctx.rule("C04.D1", "a node is enqueued by exactly one event: exclusive 3-way partition by predecessor count, counter "
                       "decrement+zero-test in one lock region, queue kinds neither lose nor duplicate, public queue protocol only")
    ctx.rule("C04.D2", "the worker loop calls the node callback exactly once per dequeued non-sentinel item")
    ctx.rule("C04.D3", "prune-to-ancestors dominates execution on every path of run; only exact Call nodes execute, once per callback")
    ctx.rule("C04.D4", "every queue construction that seeds the container also seeds unfinished_tasks with its length")
    ctx.assume("same runtime-library assumptions as C01; the at-most-once / exactly-once argument from these premises is on paper (DESIGN 4.C04)")
    ctx.rule("C04.D5", "the engine evaluated as a whole on every small multigraph (parallel edges included), failing set, max_errors, scheduler and dequeue order: the function is called at most once per node, and exactly once for every node whose ancestors succeed")
    ctx.run(E.rule_queue_is_library_queue, "C04.D1", ctx.model.one_func("run_function_on_graph", "ENGINE"))
    from .engineeval import rule_engine_evaluated
    ctx.run(rule_engine_evaluated, "C04.D5", None, ("once", "complete"))
    ctx.run(E.rule_shared_state_atomic, "C04.D1", ctx.model.one_func("run_function_on_graph", "ENGINE"))
    r = E.discover(ctx.model)
    rr = R.discover(ctx.model, r)
    ctx.run(E.rule_atomic_counter, "C04.D1", r)
    ctx.run(E.rule_counting_agreement, "C04.D1", r)
    ctx.run(E.rule_initial_ready_set, "C04.D1", r)
    ctx.run(E.rule_queue_effects, "C04.D1", r, rid_seed="C04.D4")
    ctx.run(E.rule_queue_internals, "C04.D1", r)
    ctx.run(E.rule_enqueue_after_success, "C04.D1", r)
    ctx.run(E.rule_catch_all, "C04.D1", r)
    ctx.run(E.rule_one_callback_per_dequeue, "C04.D2", r)
    ctx.run(R.rule_prune_before_execute, "C04.D3", rr)
    from . import stalerules as S
    from .prunerules import rule_pruning_evaluated
    ctx.run(rule_pruning_evaluated, "C04.D3", rr)
    ctx.run(E.rule_callbacks_only_via_engine, "C04.D2", r, [rr.runcb, rr.stalecb])
    ctx.run(E.rule_first_error, "C04.D1", r)
    ctx.run(R.rule_no_value_on_failure, "C04.D1", rr)
    # "once" at the level of executions of the user's function: a node's function is attempted at most retry=n times, by a retry
    # wrapper applied per executed node (premises C10.F6 / F7 re-evaluated here)
    ctx.rule("C04.D6", "per executed node the function is invoked through a retry wrapper applied for that node, and the retry loop (evaluated for n = 1..4, every failing prefix) makes at most n attempts and stops at the first success")
    from .evalrules import rule_run_callback
    ctx.run(lambda c_: rule_run_callback(c_, rr, rid_binding="C04.D6"))
    ctx.run(R.rule_retry_loop, "C04.D6", rr)
    ctx.run(R.rule_retry_coverage, "C04.D6", rr)
