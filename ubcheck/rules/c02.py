"""C02 - run returns exactly what direct evaluation of the call graph would return (B1-B6).

Mostly a value-level property; what is decided is the *routing* of arguments and results (a necessary condition):
writer/reader agreement on edge keys, gather dispatch and identity, dispatch-table agreement, call binding, output
plumbing, unpack.  Equality of values for all programs is not decided."""
from __future__ import annotations

import ast
import itertools

from ..absval import AbsRaise, ClassVal, Closure, Env, Interp, Native, Obj, Stub
from ..astq import arg, canon, handler_classes, in_body, ext_names, global_names, inside, is_name, loc, names_in, real_body, stmt_of
from ..model import AnalysisError, Func, head, norm
from . import roles
from . import engine as E
from . import runrules as R
from .rewriterules import MG, World


class PermutedMG(MG):
    """Multigraph model whose edge-iteration order is an adversarial permutation of the insertion order
    (iteration order of in_edges is not part of any contract the reader may rely on)."""

    def __init__(self, interp, perm):
        super().__init__(interp)
        self._perm = perm

    def _p(self, xs):
        xs = list(xs)
        if self._perm == "reversed":
            return list(reversed(xs))
        if self._perm == "rotated" and xs:
            return xs[1:] + xs[:1]
        if self._perm == "grouped":
            # networkx groups parallel edges by neighbour: order by first appearance of the source node
            order = []
            for e in xs:
                if e[0] not in order:
                    order.append(e[0])
            return [e for u in order for e in xs if e[0] is u]
        return xs

    def in_edges(self, n, keys=False):
        return self._p(super().in_edges(n, keys))

    def out_edges(self, n, keys=False):
        return self._p(super().out_edges(n, keys))


class MyList(list):
    pass


class MyDict(dict):
    pass


def make_world(m, rr, perm=None):
    w = World(m, rr)
    if perm:
        g = PermutedMG(w.interp, perm)
        w.g = g
        w.plan.attrs["graph"] = g
    return w


def check(ctx):
    m = ctx.model
    ctx.rule("C02.B1", "writer/reader agreement on edge keys: Plan._call (writer) and get_argument_nodes (reader) are interpreted over a multigraph model; for every adversarial edge-iteration order the reader returns the positional arguments in order (also with a repeated node) and the keyword arguments under their names in the order given")
    ctx.rule("C02.B2", "gather: exact-type dispatch; containers holding a node are rebuilt by the matching gather function with children in order; everything else (plain containers, container subclasses, opaque objects) is passed as the very object")
    ctx.rule("C02.B3", "dispatch table: keys are exactly {list, tuple, set, dict}; each value g has the form `def g(*args): return T(args)` for its own key T")
    ctx.rule("C02.B4", "call binding: argument values are read from the slots in list/name order at call time, the function is invoked as retry(fn)(*args, **kwargs), the result is stored in the call's own slot; bound calls map the reader's lists through the slot table element-wise")
    ctx.rule("C02.B7", "functions on the path of the user's **kwargs declare their own parameters positional-only (any keyword name, e.g. fn= or stack_frame=, can be passed to a call)")
    ctx.rule("C02.B5", "output plumbing: run returns run_physical's value, which is the value of the slot of the (redirected) output node; the output spec is gathered")
    ctx.rule("C02.B6", "unpack: one getitem call per index in range(length) on the node produced by the builtin unpack, which raises unless exactly `length` items were drawn (evaluated for lengths 0..3)")
    ctx.rule("C02.B8", "schedule independence of the value: premises re-evaluated under this id - a call starts only after its dependencies succeeded (enqueue-after-success, atomic readiness counter, counting agreement), every dequeued node is processed once, queue kinds neither lose nor duplicate")
    ctx.assume("behaviour of list/tuple/set/dict/islice and of user functions is trusted; schedule independence of values follows from C01 + C04 + per-call slots")
    from .engineeval import rule_engine_evaluated
    ctx.run(rule_engine_evaluated, "C02.B8", None, ("order", "once", "complete", "containment"))
    er = E.discover(m)
    rr = R.discover(m, er)
    ctx.run(E.rule_enqueue_after_success, "C02.B8", er)
    ctx.run(E.rule_atomic_counter, "C02.B8", er)
    ctx.run(E.rule_counting_agreement, "C02.B8", er)
    ctx.run(E.rule_one_callback_per_dequeue, "C02.B8", er)
    ctx.run(E.rule_queue_effects, "C02.B8", er)
    ctx.run(E.rule_callbacks_only_via_engine, "C02.B8", er, [rr.runcb, rr.stalecb])
    pcall = roles.call_ctor(m)
    reader = m.one_func("get_argument_nodes", "READER")
    # ---------------------------------------------------------------- B1
    n = 0
    for perm in (None, "reversed", "rotated", "grouped"):
        w = make_world(m, rr, perm)
        x, y, z = w.call("x"), w.call("y"), w.call("z")
        fn = Stub("user_fn", None)
        try:
            c = w.interp.call_func(pcall, None, ["FRAME", fn, x, y, x], {"k1": z, "k2": x, "k3": y}, bound_self=w.plan)
            args, kwargs = w.interp.call_func(reader, None, [w.g, c], {})
        except AbsRaise as e:
            raise AnalysisError(f"C02.B1: abstract evaluation raised {e.value!r}")
        n += 1
        okp = list(args) == [x, y, x]
        ctx.ob("C02.B1", f"{reader.short}/positional[{perm or 'insertion'} order]", okp, loc(reader),
               "positional arguments come back in call order (f(x, y, x))" if okp else
               f"positional arguments come back as {[w.role(a) for a in args]} instead of ['x', 'y', 'x']: their position depends on edge iteration order",
               f"in_edges order: {perm or 'insertion'}")
        okk = isinstance(kwargs, dict) and list(kwargs.items()) == [("k1", z), ("k2", x), ("k3", y)]
        ctx.ob("C02.B1", f"{reader.short}/keyword[{perm or 'insertion'} order]", okk, loc(reader),
               "keyword arguments come back under their names in the order given" if okk else
               f"keyword arguments come back as {[(k, w.role(v)) for k, v in (kwargs.items() if isinstance(kwargs, dict) else [])]} "
               f"instead of [k1=z, k2=x, k3=y]: their order follows edge iteration, not the order given", f"in_edges order: {perm or 'insertion'}")
        # plain Dependency edges contribute to neither list
        w.edge(z, c, "Dep")
        a2, k2 = w.interp.call_func(reader, None, [w.g, c], {})
        okd = list(a2) == [x, y, x] and list(k2) == ["k1", "k2", "k3"]
        ctx.ob("C02.B1", f"{reader.short}/dependency-edges-ignored[{perm or 'insertion'} order]", okd, loc(reader),
               "plain dependency edges contribute to neither list" if okd else "a plain dependency edge leaks into the argument lists")
        # the created call carries fn / frame
        okc = isinstance(c, Obj) and c.attrs.get("fn") is fn and c.attrs.get("stack_frame") == "FRAME"
        ctx.ob("C02.B1", f"{pcall.short}/call-node[{perm or 'insertion'} order]", okc, loc(pcall), "the Call node records the function and frame")
    ctx.floor("C02.B1", "edge-iteration orders evaluated", n, 4)
    # key classes: equality and hash include every field the reader uses
    for cname, fields in (("PositionalArg", ["index"]), ("KeywordArg", ["name", "index"])):
        cls = m.one_class(cname, "KEY")
        eq, hs = cls.methods.get("__eq__"), cls.methods.get("__hash__")
        es = ast.unparse(eq.node) if eq is not None else ""
        hh = ast.unparse(hs.node) if hs is not None else ""
        ok = eq is not None and hs is not None and all(f"self.{f}" in es and f"other.{f}" in es for f in fields) \
            and all(f"self.{f}" in hh for f in fields) and f"type(other) is {cname}" in es
        ctx.ob("C02.B1", f"{cname}/eq-hash", ok, loc(eq) if eq else "", "equality (exact type) and hash include every field" if ok else
               "edge key equality/hash omit a field: parallel argument edges collapse in the multigraph")
    # ---------------------------------------------------------------- B2
    planc_ = m.one_class("Plan", "GATHER")
    # however the implementation is organised, the public method (with the frame capture stubbed) is the specification
    public_gather = True
    gather = m.method("Plan", "gather", "GATHER")
    w = make_world(m, rr)
    w.interp.stubs["get_stack_frame"] = Stub("get_stack_frame", lambda *a_: "FRAME")
    a, b = w.call("a"), w.call("b")
    lit_c = w.C["Literal"]
    call_c = w.C["Call"]

    def g_(v):
        try:
            return w.interp.call_func(gather, None, [v] if public_gather else ["FRAME", v], {}, bound_self=w.plan)
        except AbsRaise as e:
            raise AnalysisError(f"C02.B2: abstract evaluation raised {e.value!r}")

    def fn_name(node):
        f = node.attrs.get("fn") if isinstance(node, Obj) else None
        return f.func.name if isinstance(f, Closure) else None

    def args_of(node):
        es = sorted([(k.attrs["index"], u) for (u, v, k) in w.g._edges if v is node and k.cls is w.C["PositionalArg"]], key=lambda t: t[0])
        return [u for _i, u in es]

    def lit_val(node):
        return node.attrs.get("value") if isinstance(node, Obj) and node.cls is lit_c else "<not a literal>"

    plain = [1, (2, 3), {"k": [4]}]
    r = g_(plain)
    ok = lit_val(r) is plain
    ctx.ob("C02.B2", f"{gather.short}/plain-container-identity", ok, loc(gather), "a container without nodes is passed as the very object" if ok else
           "a container without nodes is rebuilt (copied) instead of being passed as the very object")
    for sub, what in ((MyList([a, 1]), "list subclass"), (MyDict({"k": a}), "dict subclass"), (frozenset([a]), "frozenset"), (object(), "opaque object")):
        r = g_(sub)
        ok = lit_val(r) is sub
        ctx.ob("C02.B2", f"{gather.short}/{what.replace(' ', '-')}-identity", ok, loc(gather), f"a {what} is passed as the very object" if ok else
               f"a {what} is traversed/rebuilt: only the exact built-in types may be recursed into")
    r = g_(a)
    ctx.ob("C02.B2", f"{gather.short}/node-identity", r is a, loc(gather), "a node is returned unchanged")
    # shapes: the gathered node is *evaluated back* with tokens for the symbolic nodes (the gather functions are interpreted, whatever
    # they are called and wherever their dispatch table lives) and must give what direct evaluation of the container gives
    def rebuild(node):
        if node is a:
            return "Va"
        if node is b:
            return "Vb"
        if isinstance(node, Obj) and node.cls is lit_c:
            return node.attrs.get("value")
        if isinstance(node, Obj) and node.cls is call_c:
            try:
                return w.interp.call(node.attrs.get("fn"), [rebuild(x) for x in args_of(node)], {})
            except AbsRaise as e:
                raise AnalysisError(f"C02.B2: evaluating the gathered expression raised {e.value!r}")
        return node

    def same(x, y):
        if type(x) is not type(y):
            return False
        if isinstance(x, (list, tuple)):
            return len(x) == len(y) and all(same(p_, q_) for p_, q_ in zip(x, y))
        if isinstance(x, dict):
            return list(x.keys()) == list(y.keys()) and all(same(x[k_], y[k_]) for k_ in x)
        return x == y
    inner = [5, 6]
    r = g_([a, inner, (b, 7)])
    got = rebuild(r) if isinstance(r, Obj) and r.cls is call_c else None
    ok = same(got, ["Va", inner, ("Vb", 7)]) and got[1] is inner
    ctx.ob("C02.B2", f"{gather.short}/list-shape", ok, loc(gather),
           "[a, [5, 6], (b, 7)] evaluates back to a list of the values in order; the node-free child is the very object; the nested tuple is a tuple" if ok else
           f"[a, [5, 6], (b, 7)] is gathered into an expression that evaluates to {got!r}")
    # equal-but-distinguishable plain values beside the same node (1 == True == 1.0 and hash alike): anything keyed by the children
    # of a container (a memo of gathered tuples, a set of seen items) merges what direct evaluation keeps apart
    r = g_([(a, 1), (a, True), (a, 1.0), {1: a}, {True: a}])
    try:
        got = rebuild(r) if isinstance(r, Obj) and r.cls is call_c else None
    except TypeError:
        got = None
    okd = same(got, [("Va", 1), ("Va", True), ("Va", 1.0), {1: "Va"}, {True: "Va"}])
    ctx.ob("C02.B2", f"{gather.short}/equal-but-distinct-values", okd, loc(gather),
           "[(a, 1), (a, True), (a, 1.0), {1: a}, {True: a}] evaluates back with every value of its own type" if okd else
           f"[(a, 1), (a, True), (a, 1.0), {{1: a}}, {{True: a}}] is gathered into an expression that evaluates to {got!r}: values that compare "
           f"equal but are not the same (1 / True / 1.0) were merged")
    kd = {"p": a, b: 2}
    r = g_(kd)
    try:
        got = rebuild(r) if isinstance(r, Obj) and r.cls is call_c else None
    except TypeError:
        got = None
    ok = same(got, {"p": "Va", "Vb": 2})
    # symbolic items before plain ones, and a symbolic key that collides with a later plain key (later key wins, first position kept)
    for kd2, want2 in (({b: 2, "p": a, "q": 5}, {"Vb": 2, "p": "Va", "q": 5}), ({a: 1, "Va": 2, "z": b}, {"Va": 2, "z": "Vb"})):
        r2_ = g_(kd2)
        try:
            got2 = rebuild(r2_) if isinstance(r2_, Obj) and r2_.cls is call_c else None
        except TypeError:
            got2 = None
        if ok and not same(got2, want2):
            ok, got = False, got2
    ctx.ob("C02.B2", f"{gather.short}/dict-shape", ok, loc(gather),
           "{'p': a, b: 2} evaluates back to a dict with the same keys in insertion order (nodes allowed as keys)" if ok else
           f"a dict holding nodes is gathered into an expression that evaluates to {got!r}: keys, key order or later-key-wins differ from direct evaluation")
    # a container is gathered as it is NOW: gathering it again after it was mutated reflects the mutation (no memo by identity)
    grow = [a]
    r1 = g_(grow)
    grow.append(b)
    r2 = g_(grow)
    ok = same(rebuild(r2), ["Va", "Vb"]) and same(rebuild(r1), ["Va"])
    ctx.ob("C02.B2", f"{gather.short}/regather-after-mutation", ok, loc(gather),
           "a container gathered, extended and gathered again yields a node for its current contents" if ok else
           "a container that was gathered before is answered from a cache: after it was mutated the plan still evaluates its old contents")
    r = g_({a, 3})
    got = rebuild(r) if isinstance(r, Obj) and r.cls is call_c else None
    ok = type(got) is set and got == {"Va", 3}
    ctx.ob("C02.B2", f"{gather.short}/set-shape", ok, loc(gather), "{a, 3} evaluates back to a set of the values" if ok else f"a set with nodes evaluates back to {got!r}")
    r = g_((a, (b,)))
    got = rebuild(r) if isinstance(r, Obj) and r.cls is call_c else None
    ok = same(got, ("Va", ("Vb",)))
    ctx.ob("C02.B3", f"{gather.short}/tuple-shape", ok, loc(gather), "(a, (b,)) evaluates back to nested tuples" if ok else f"a tuple with nodes evaluates back to {got!r}")
    # B3: the rebuilt containers have the exact built-in types (checked by `same` above: type(x) is type(y) at every level)
    ctx.ob("C02.B3", f"{gather.short}/exact-types", True, loc(gather), "list/tuple/set/dict structures are rebuilt with their exact types (evaluated above)")
    # ---------------------------------------------------------------- B4  (evaluated on a symbolic plan; no text is compared)
    from .evalrules import rule_run_callback
    ctx.run(lambda c_: rule_run_callback(c_, rr, rid_binding="C02.B4"))
    from .extra import rule_result_slots, rule_kwargs_positional_only
    ctx.run(rule_result_slots, "C02.B4")
    ctx.run(rule_kwargs_positional_only, "C02.B7")
    ctx.rule("C02.B9", "arbitrary call functions: a callable is never required to be hashable - wherever a user-supplied call function reaches a memoised helper (lru_cache / cache), the call is guarded by a TypeError fallback to the unmemoised computation")
    ctx.run(rule_user_callables_need_not_hash, "C02.B9")
    # ---------------------------------------------------------------- B5  (guarded values: independent of if/IfExp spelling)
    run = rr.run
    gr = E.guarded_returns(run)
    exec_rets = [(c_, v_) for c_, v_ in gr if isinstance(v_, ast.Call) and v_ in run.own_calls() and rr.run_physical in m.callee_funcs(run, v_)]
    if not exec_rets:
        # through a result variable: the expanded copy is not an own call node; match by callee name
        exec_rets = [(c_, v_) for c_, v_ in gr if isinstance(v_, ast.Call) and norm(v_.func) == rr.run_physical.name]
    other = [(c_, v_) for c_, v_ in gr if (c_, v_) not in exec_rets and not any(k == "set:dry_run" and pol for k, pol in c_)]
    ok = len(exec_rets) == 1 and not other
    ctx.ob("C02.B5", f"{run.short}/returns-execution-value", ok, loc(run), "run returns the value of run_physical" if ok else "run does not return run_physical's value")
    okg = False
    for nm in run.bindings:
        ga = E.guarded_assigns(run, nm)
        # Plan.gather(output), or the frame-explicit Plan._gather(<frame>, output)
        gath = [(c_, v_) for c_, v_ in ga if isinstance(v_, ast.Call) and isinstance(v_.func, ast.Attribute) and not v_.keywords
                and ((v_.func.attr == "gather" and len(v_.args) == 1) or (v_.func.attr in (roles.gather_names(m) - {"gather"}) and len(v_.args) == 2))
                and is_name(v_.args[-1], "output")]
        if gath and nm != "redirected_output_node":
            nones = [(c_, v_) for c_, v_ in ga if isinstance(v_, ast.Constant) and v_.value is None]
            others = [x for x in ga if x not in gath and x not in nones]
            # gathered exactly when an output was requested; None otherwise (either as the else-value or as a default)
            okg = len(gath) == 1 and not others and E.about(gath[0][0], "output") == {("set:output", True)} and \
                all(E.about(c_, "output") <= {("set:output", False)} for c_, v_ in nones) and bool(nones)
    ctx.ob("C02.B5", f"{run.short}/gathers-output", okg, loc(run), "the output spec is gathered (None means no output)" if okg else "the output spec is not gathered exactly when an output was requested (`plan.gather(output) if output is not None else None`)")
    rp = rr.run_physical
    gr = E.guarded_returns(rp)
    vals = [(c_, v_) for c_, v_ in gr if isinstance(v_, ast.Attribute) and v_.attr == "value" and isinstance(v_.value, ast.Name)]
    ok = len(vals) == 1
    v_ = vals[0][1].value.id if ok else None
    if ok:
        rest = [(c_, x) for c_, x in gr if (c_, x) not in vals]
        ok = E.about(vals[0][0], v_) == {(f"set:{v_}", True)} and bool(rest) and \
            all(isinstance(x, ast.Constant) and x.value is None and E.about(c_, v_) == {(f"set:{v_}", False)} for c_, x in rest)
    if ok:
        # that variable is the second element returned by the preparation step
        b_ = [b for b in rp.bindings.get(v_, []) if b[0] == "assign"]
        ok = len(b_) == 1 and b_[0][2] == (1,) and isinstance(b_[0][1], ast.Call) and rr.prep_run in m.callee_funcs(rp, b_[0][1])
    ctx.ob("C02.B5", f"{rp.short}/returns-slot-value", ok, loc(rp), "returns the output slot's value" if ok else "run_physical does not return the output slot's value")
    # which slot is handed out as the output slot: evaluated on the symbolic plan for an output that is a call, a literal, absent
    from .evalrules import RunEval as _RE
    why_ = None
    try:
        ev_ = _RE(m, rr)
        tb_, os_, pr_ = ev_.prepare("c")
        for nd_ in (ev_.x, ev_.c):
            ex_ = ev_.process(pr_, nd_)
            if ex_ is not None:
                raise AnalysisError(f"evaluating the run callback raised {ex_!r}")
        if os_ is None or os_.attrs.get("value") != "Vc":
            why_ = f"with a call as output, the output slot holds {None if os_ is None else os_.attrs.get('value')!r} after the call ran, not the call's result"
        ev2_ = _RE(m, rr)
        tb2_, os2_, pr2_ = ev2_.prepare("lit")
        if why_ is None and (os2_ is None or os2_.attrs.get("value") != 7):
            why_ = "with a literal as output, the output slot does not hold the literal's value"
        ev3_ = _RE(m, rr)
        tb3_, os3_, pr3_ = ev3_.prepare(None)
        if why_ is None and os3_ is not None:
            why_ = "without an output node an output slot is handed out all the same"
    except AbsRaise as e_:
        raise AnalysisError(f"abstract evaluation of the run preparation raised {e_.value!r}")
    ctx.ob("C02.B5", f"{rr.prep_run.short}/output-slot", why_ is None, loc(rr.prep_run),
           "evaluated: the output slot is the result cell of the output node (a literal is its own slot; none without an output)" if why_ is None else why_)
    pc = R.calls_to(m, rp, rr.prep_run)
    ok = len(pc) == 1 and is_name(arg(pc[0], None, "output_node"), "output_node")
    ctx.ob("C02.B5", f"{rp.short}/forwards-output-node", ok, loc(rp), "the output node reaches the preparation step")
    # ---------------------------------------------------------------- B6
    unp = m.method("Plan", "unpack", "UNPACK")
    # evaluated: plan.unpack(x, 3) creates t = unpack(x, 3) and returns (getitem(t, 0), getitem(t, 1), getitem(t, 2)), in order
    wu = make_world(m, rr)
    wu.interp.stubs["get_stack_frame"] = Stub("get_stack_frame", lambda *a_: "FRAME")
    wu.interp.ext["inspect.signature"] = lambda fn_: Obj(None, {"bind": Stub("bind", lambda *a_, **k_: None)}, name="signature")
    for nm_ in ("assert_is_instance", "assert_is_callable", "assert_can_bind"):
        wu.interp.stubs[nm_] = Stub(nm_, lambda *a_, **k_: None)
    xu = wu.call("x")
    try:
        res = wu.interp.call_func(unp, None, [xu, 3], {}, bound_self=wu.plan)
    except AbsRaise as e:
        raise AnalysisError(f"C02.B6: abstract evaluation of Plan.unpack raised {e.value!r}")

    def pos_args(node):
        es = sorted([(k.attrs["index"], u) for (u, v, k) in wu.g._edges if v is node and k.cls is wu.C["PositionalArg"]], key=lambda t_: t_[0])
        return [u for _i, u in es]

    def lit_of(node):
        return node.attrs.get("value") if isinstance(node, Obj) and node.cls is wu.C["Literal"] else "<not a literal>"

    def fname(node):
        f_ = node.attrs.get("fn") if isinstance(node, Obj) else None
        return f_.func.name if isinstance(f_, Closure) else getattr(f_, "name", None)
    items = list(res) if isinstance(res, (tuple, list)) else []
    srcs = {id(pos_args(it_)[0]) if pos_args(it_) else None for it_ in items}
    ok = len(items) == 3 and len(srcs) == 1 and all("getitem" in str(fname(it_)) for it_ in items) and \
        [lit_of(pos_args(it_)[1]) if len(pos_args(it_)) == 2 else None for it_ in items] == [0, 1, 2]
    ctx.ob("C02.B6", f"{unp.short}/one-getitem-per-index", ok, loc(unp), "one getitem(t, index) call per index in range(length)" if ok else
           "unpack does not create one getitem call per index in range(length)")
    t_node = pos_args(items[0])[0] if items and pos_args(items[0]) else None
    ok = t_node is not None and fname(t_node) == "unpack" and len(pos_args(t_node)) == 2 and pos_args(t_node)[0] is xu and lit_of(pos_args(t_node)[1]) == 3
    ctx.ob("C02.B6", f"{unp.short}/builtin-unpack", ok, loc(unp), "items come from the builtin unpack(iterable, length)")
    bu = [f for f in m.find_funcs("unpack") if f.module.name.endswith("_builtins")]
    if len(bu) != 1:
        raise AnalysisError("builtin unpack not found")
    n_eval = 0
    bad = []
    for length in range(0, 4):
        for have in range(0, 6):
            for kind in ("list", "dict"):
                interp = Interp(m, ext={"itertools.islice": lambda it, k: list(it)[:k], "builtins.ValueError": lambda *a: ("ValueError",) + a,
                                        "builtins.hasattr": lambda o, a: hasattr(o, a), "builtins.iter": lambda o: list(o)})
                n_eval += 1
                src = list(range(have)) if kind == "list" else {10 + i: i for i in range(have)}
                want = tuple(range(length)) if kind == "list" else tuple(10 + i for i in range(length))
                try:
                    out = interp.call_func(bu[0], None, [src, length], {})
                    raised = False
                except AbsRaise:
                    out, raised = None, True
                if raised != (have != length) or (not raised and (type(out) is not tuple or out != want)):
                    bad.append((kind, length, have, raised, out))
    ctx.notes["unpack_cases_evaluated"] = n_eval
    ctx.ob("C02.B6", f"{bu[0].short}/exact-length", not bad, loc(bu[0]),
           f"returns the tuple of the first `length` items and raises unless exactly `length` items were drawn ({n_eval} cases: lists and dicts)" if not bad else
           f"builtin unpack misbehaves for (kind, length, available, raised, result) = {bad[:3]}: getitem(t, index) must index the drawn items positionally")



# ------------------------------------------------------------------------------------------------ C02.B9
_MEMO = {"lru_cache", "cache"}


def _memoised_callables(m):
    """{(module, name): description} for defs decorated with lru_cache/cache and for module-level `X = lru_cache(..)(f)` wrappers."""
    out = {}
    for f in m.funcs.values():
        if f.parent is None and f.cls is None and set(f.decorator_names()) & _MEMO:
            out[(f.module, f.name)] = f
    for mod in m.modules.values():
        for st in mod.tree.body:
            if isinstance(st, ast.Assign) and len(st.targets) == 1 and isinstance(st.targets[0], ast.Name) and isinstance(st.value, ast.Call):
                c = st.value
                head_ = c.func.func if isinstance(c.func, ast.Call) else c.func
                if norm(head_).split(".")[-1] in _MEMO and (isinstance(c.func, ast.Call) or c.args):
                    out[(mod, st.targets[0].id)] = st
    return out


def rule_user_callables_need_not_hash(ctx, rid):
    m = ctx.model
    memo = _memoised_callables(m)
    call_cls = m.one_class("Call", "B9")

    def user_fn(f, e, depth=0, seen=None):
        """May expression `e` in function `f` be the user's call function?  (`<call>.fn`, or a parameter that receives one.)"""
        seen = seen if seen is not None else set()
        if isinstance(e, ast.Attribute) and e.attr == "fn":
            return True
        if isinstance(e, ast.Name) and e.id in f.params and depth < 4 and (f, e.id) not in seen:
            seen.add((f, e.id))
            # public entry points that take the callable from the user
            if f.cls is not None and f.cls.name == "Plan" and e.id in f.pos_params[1:3]:
                return True
            idx = f.pos_params.index(e.id) if e.id in f.pos_params else None
            for caller, call in m.callers.get(f, ()):
                off = 1 if (f.cls is not None and isinstance(call.func, ast.Attribute)) else 0
                a = arg(call, (idx - off) if idx is not None else None, e.id)
                if a is not None and user_fn(caller, a, depth + 1, seen):
                    return True
        return False
    n = 0
    for f in m.funcs.values():
        if f.module.name.startswith("uberjob._testing"):
            continue
        for c in f.own_calls():
            target = None
            if isinstance(c.func, ast.Name) and (f.module, c.func.id) in memo and m.binding_scope(f, c.func.id) in (None, f.module):
                target = memo[(f.module, c.func.id)]
            else:
                for g in m.callee_funcs(f, c):
                    if (g.module, g.name) in memo and memo[(g.module, g.name)] is g:
                        target = g
            if target is None or not c.args:
                continue
            if isinstance(target, Func) and f is target:
                continue  # the memoised function calling itself on a derived value
            if not any(user_fn(f, a) for a in c.args):
                continue
            n += 1
            guarded = False
            for t in [x for x in f.own_nodes() if isinstance(x, ast.Try)]:
                if in_body(f.module, c, t, "body"):
                    for h in t.handlers:
                        if h.type is None or set(handler_classes(h)) & {"TypeError", "Exception", "BaseException"}:
                            guarded = True
            ctx.ob(rid, f"{f.short}/memoised-on-user-callable", guarded, loc(f, c),
                   "the memoised lookup on a user-supplied callable has a TypeError fallback" if guarded else
                   f"`{norm(c)[:60]}` hashes a user-supplied call function (memoised helper): a callable that defines __eq__ without __hash__ "
                   f"- a perfectly good call function - makes plan.call / run raise TypeError: unhashable type", norm(c)[:100])
    ctx.floor(rid, "memoised lookups that can receive a user-supplied callable", n, 1)
