"""Secondary reliance rules: places the properties silently rely on outside their main enforcement point.

Most of these were added after independent seeded changes (DESIGN section 10) showed that the main-site rules alone
were not enough."""
from __future__ import annotations

import ast

from ..astq import arg, canon, const, ext_names, global_names, handler_classes, inside, is_name, loc, names_in, stmt_of
from ..cfg import CFG
from ..model import AnalysisError, Func, head, norm
from . import roles
from . import engine as E


# ------------------------------------------------------------------------------------------------ plan construction
def rule_plan_records_dependencies(ctx, rid):
    """Plan.add_dependency adds the edge on every path that returns normally; Plan._call adds one argument edge per
    positional and per keyword argument, unconditionally."""
    m = ctx.model
    ad = m.method("Plan", "add_dependency", "PLAN")
    g = CFG(ad, may_raise=lambda n: False)
    adds = [c for c in ad.own_calls() if isinstance(c.func, ast.Attribute) and c.func.attr == "add_edge"]
    an = set()
    for c in adds:
        an |= set(g.of_stmt_containing(c, ad.module))
    ok = bool(adds) and g.must_pass(g.entry, an, exits={g.exit})
    p = "" if ok else g.fmt_path(g.path(g.entry, {g.exit}, avoid=an))
    ctx.ob(rid, f"{ad.short}/edge-always-added", ok, loc(ad),
           "every normal path records the dependency edge" if ok else
           "add_dependency can return without recording the edge: the declared ordering is silently dropped", "", p)
    for c in adds:
        okc = len(c.args) == 3 and [norm(a) for a in c.args[:2]] == ad.pos_params[1:3] and norm(c.args[2]) == "Dependency()"
        ctx.ob(rid, f"{ad.short}/edge-shape", okc, loc(ad, c), "edge source -> target with a plain Dependency key" if okc else
               "recorded edge is not (source, target, Dependency())", norm(c))
    # argument edges: evaluated - plan._call(frame, fn, x, y, x, k1=z, k2=x) records exactly one edge per argument, with its
    # position / name, whatever loops or helper objects do the recording
    from ..absval import AbsRaise, Stub
    from . import runrules as R_
    from .rewriterules import World
    pc = roles.call_ctor(m)
    rr_ = R_.discover(m, E.discover(m))
    w = World(m, rr_)
    x, y, z = w.call("x"), w.call("y"), w.call("z")
    try:
        c = w.interp.call_func(pc, None, ["FRAME", Stub("fn", None), x, y, x], {"k1": z, "k2": x}, bound_self=w.plan)
    except AbsRaise as e:
        raise AnalysisError(f"abstract evaluation of Plan._call raised {e.value!r}")
    w.names[id(c)] = "c"
    got = {e_ for e_ in w.edges() if e_[1] == "c"}
    want = {("x", "c", "Pos(0)"), ("y", "c", "Pos(1)"), ("x", "c", "Pos(2)"), ("z", "c", "Kw(k1,0)"), ("x", "c", "Kw(k2,1)")}
    ok = got == want
    ctx.ob(rid, f"{pc.short}/argument-edges", ok, loc(pc),
           "one unconditional argument edge per positional and per keyword argument" if ok else
           f"argument edges are not added unconditionally for every positional and keyword argument: f(x, y, x, k1=z, k2=x) recorded "
           f"{sorted(got)}")


def rule_kwargs_positional_only(ctx, rid):
    """Functions on the path of the user's **kwargs (Plan.call -> validation -> Plan._call) declare their own named
    parameters positional-only, otherwise a user keyword with the same name collides."""
    m = ctx.model
    call = m.method("Plan", "call", "PLAN")
    seen, work = set(), [call]
    n = 0
    while work:
        f = work.pop()
        if f in seen:
            continue
        seen.add(f)
        if f.kwarg is None:
            continue
        a = f.node.args
        named = [x.arg for x in a.args] + [x.arg for x in a.kwonlyargs]
        if f.cls is not None and named and named[0] in ("self", "cls") and False:
            named = named[1:]
        n += 1
        ctx.ob(rid, f"{f.short}/named-params-positional-only", not named, loc(f),
               "own parameters are positional-only: any user keyword name can be forwarded" if not named else
               f"parameters {named} can be passed by keyword: a user keyword argument of the same name (e.g. "
               f"plan.call(f, {named[-1]}=1)) raises TypeError 'multiple values' instead of being forwarded")
        for c in f.own_calls():
            if any(k.arg is None and is_name(k.value, f.kwarg) for k in c.keywords):
                for g in m.callee_funcs(f, c):
                    work.append(g)
    ctx.floor(rid, "functions forwarding the user's **kwargs", n, 3)


# ------------------------------------------------------------------------------------------------ observers
def rule_exit_not_truthy(ctx, rid):
    m = ctx.model
    n = 0
    for cls in m.classes.values():
        if cls.has_base("ProgressObserver") and "__exit__" in cls.methods:
            f = cls.methods["__exit__"]
            n += 1
            rets = [x for x in f.own_nodes() if isinstance(x, ast.Return) and x.value is not None and
                    not (isinstance(x.value, ast.Constant) and not x.value.value)]
            ok = all(isinstance(x.value, ast.Call) and norm(x.value.func).endswith("_stack.__exit__") for x in rets)
            ctx.ob(rid, f"{f.short}/exit-not-truthy", ok, loc(f),
                   "__exit__ returns nothing (or delegates to the exit stack)" if ok else
                   f"__exit__ returns `{norm(rets[0].value)[:50]}`: a truthy value makes `with progress_observer:` swallow the run's "
                   f"exception (run returns None although a call failed / KeyboardInterrupt is lost)")
    ctx.floor(rid, "observer __exit__ methods", n, 3)


def rule_composite_exit_stack(ctx, rid):
    m = ctx.model
    comp = roles.composite_observer(m)
    en, ex = comp.methods.get("__enter__"), comp.methods.get("__exit__")
    if not (en and ex):
        ctx.ob(rid, "Composite/enter-exit", False, "", "composite observer lacks __enter__/__exit__")
        return
    ws_ = [n for n in en.own_nodes() if isinstance(n, ast.With) and any("ExitStack" in norm(it.context_expr) for it in n.items)]
    ok = len(ws_) == 1
    if ok:
        sv = ws_[0].items[0].optional_vars.id
        fl = [n for n in ws_[0].body if isinstance(n, ast.For) and norm(n.iter) == "self._progress_observers"]
        body = [norm(s) for s in ws_[0].body]
        ok = len(fl) == 1 and [norm(s) for s in fl[0].body] == [f"{sv}.enter_context({norm(fl[0].target)})"] and \
            f"self._stack = {sv}.pop_all()" in body and ws_[0].body.index(fl[0]) < body.index(f"self._stack = {sv}.pop_all()")
    ctx.ob(rid, "Composite.__enter__/exit-stack", ok, loc(en),
           "members are entered through one ExitStack (already entered members are exited if a later one fails), then kept via pop_all()" if ok else
           "members are not entered through an ExitStack: if a later member fails to enter (or one fails to exit), the others are "
           "never exited and their update threads keep running")
    body = [s for s in ex.node.body if not (isinstance(s, ast.Expr) and isinstance(s.value, ast.Constant))]
    ok = len(body) == 1 and "self._stack.__exit__(" in norm(body[0]) and all(p in norm(body[0]) for p in ex.pos_params[1:])
    ctx.ob(rid, "Composite.__exit__/delegates", ok, loc(ex), "__exit__ delegates to the exit stack with the exception triple" if ok else
           "__exit__ does not delegate to the exit stack: a member raising from __exit__ prevents the others from being exited")
    init = comp.methods["__init__"]
    ok = any(isinstance(n, ast.Assign) and norm(n.targets[0]) == "self._progress_observers" and norm(n.value) == f"tuple({init.pos_params[1]})" for n in init.own_nodes())
    ctx.ob(rid, "Composite/members", ok, loc(init), "all given members are kept" if ok else
           "the member tuple is not tuple(<all given observers>): filtered members are never entered, exited or notified")


# ------------------------------------------------------------------------------------------------ failure path is total
ERROR_PATH_ALLOWED = {"builtins.str", "builtins.repr", "builtins.getattr", "builtins.callable", "builtins.isinstance", "builtins.reversed",
                      "builtins.super", "builtins.len", "builtins.list", "builtins.tuple", "builtins.map", "builtins.type",
                      "builtins.Exception", "builtins.Exception.__init__"}


def rule_error_path_total(ctx, rid):
    """Building NodeError / CallError (done inside the failure handlers, between 'running' and 'failed', and inside the
    worker's catch-all handler) performs no I/O, indexing or look-ups that can raise; user objects are formatted
    through reprlib, which absorbs exceptions of user __repr__."""
    m = ctx.model
    roots = []
    for cname in ("NodeError", "CallError"):
        cls = m.one_class(cname, "ERRORS")
        roots.append(cls.methods["__init__"])
    roots += m.find_funcs("create_chained_call_error")
    reach = m.reachable(roots, kinds=("call",))
    n = 0
    for f in sorted(reach, key=lambda x: x.qualname):
        for c in f.own_calls():
            names = ext_names(m, f, c)
            for nm in names:
                n += 1
                base_ok = nm in ERROR_PATH_ALLOWED or nm.startswith(("builtins.str.", "builtins.super().", "reprlib.", "builtins.dict().", "builtins.list().", "builtins.tuple()."))
                if nm.split(".")[-1] in ("join", "format", "append", "endswith", "startswith", "get", "items", "pop", "__init__"):
                    base_ok = True
                if not base_ok:
                    ctx.ob(rid, f"{f.short}/external-call", False, loc(f, c),
                           f"the error-construction path calls `{nm}`: if it raises inside the failure handler the observer never gets "
                           f"'failed' (worker handler: the worker thread dies)", norm(c)[:100])
        for n_ in f.own_nodes():
            if isinstance(n_, ast.Subscript) and isinstance(n_.ctx, ast.Load) and isinstance(n_.value, ast.Call):
                ctx.ob(rid, f"{f.short}/indexing", False, loc(f, n_),
                       "indexing the result of a call on the error-construction path (IndexError/KeyError inside the failure handler)", norm(n_)[:80])
    ctx.floor(rid, "external calls on the error-construction path", n, 5)
    # compact_repr is reprlib's
    util = [mod for mod in m.modules.values() if mod.name == "uberjob._util"]
    if len(util) != 1:
        raise AnalysisError("uberjob._util not found")
    os_ = m.origins_of(util[0], ast.Name(id="compact_repr", ctx=ast.Load()))
    ok = bool(os_) and all(o[0] in ("ext", "extinst") and o[1].startswith("reprlib.Repr") for o in os_)
    ctx.ob(rid, "compact_repr/reprlib", ok, f"{util[0].relpath}:1",
           "user objects in node reprs are formatted by reprlib.Repr().repr (absorbs exceptions of user __repr__)" if ok else
           "compact_repr is no longer reprlib's: a raising user __repr__ now escapes from NodeError(node) inside the worker's "
           "failure handler and kills the worker thread")
    # REPR: the helper of uberjob._util through which the node classes format themselves (today repr_helper)
    rhs = None
    for cname in ("Node", "Literal", "Call"):
        r0 = m.one_class(cname, "REPR").methods.get("__repr__")
        cs_ = {g for c in (r0.own_calls() if r0 else ()) for g in m.callee_funcs(r0, c) if g.cls is None and g.module.name.startswith("uberjob._util")}
        rhs = cs_ if rhs is None else (rhs & cs_)
    if not rhs or len(rhs) != 1:
        raise AnalysisError("role REPR: the node classes' __repr__ methods do not share one helper of uberjob._util")
    rh = next(iter(rhs))
    direct = [c for c in rh.own_calls() if is_name(c.func, "repr") or (isinstance(c.func, ast.Name) and c.func.id == "str" and c.args and not isinstance(c.args[0], ast.Constant))]
    kv = set()
    for n_ in rh.own_nodes():
        if isinstance(n_, ast.GeneratorExp) and isinstance(n_.generators[0].target, ast.Tuple) and ".items()" in norm(n_.generators[0].iter):
            kv.add(norm(n_.generators[0].target.elts[0]))
    fvals = [n_ for n_ in rh.own_nodes() if isinstance(n_, ast.FormattedValue) and not (isinstance(n_.value, ast.Call) and is_name(n_.value.func, "compact_repr")) and norm(n_.value) not in kv]
    ctx.ob(rid, f"{rh.short}/values-through-compact_repr", not direct and not fvals, loc(rh),
           "argument values are formatted through compact_repr only" if not direct and not fvals else
           "repr_helper formats a user value without compact_repr")
    for cname in ("Node", "Literal", "Call"):
        cls = m.one_class(cname, "REPR")
        r_ = cls.methods.get("__repr__")
        ok = r_ is not None and any(rh in m.callee_funcs(r_, c) for c in r_.own_calls())
        ctx.ob(rid, f"{cname}.__repr__/repr_helper", ok, loc(r_) if r_ else "", "node repr goes through repr_helper" if ok else f"{cname}.__repr__ bypasses repr_helper")


# ------------------------------------------------------------------------------------------------ fresh_time
def rule_fresh_time_untouched(ctx, rid, rr):
    """fresh_time reaches the normaliser in the stale check unmodified from run."""
    m = ctx.model
    from .runrules import calls_to
    st = rr.stale
    ft = [p for p in st.params if "fresh" in p]
    if len(ft) != 1:
        raise AnalysisError("fresh_time parameter of the stale check not found")
    ft = ft[0]
    for caller, callee in ((rr.run, rr.apply), (rr.apply, st)):
        for c in calls_to(m, caller, callee):
            a = arg(c, None, ft)
            okf = a is not None and isinstance(a, ast.Name) and a.id == ft
            ctx.ob(rid, f"{caller.short} -> {callee.short}/{ft}", okf, loc(caller, c), f"{ft} forwarded" if okf else
                   f"{ft} is not forwarded unchanged", norm(c)[:80])
        rb = [b for b in caller.bindings.get(ft, []) if b[0] != "param"]
        ctx.ob(rid, f"{caller.short}/{ft}-untouched", not rb, loc(caller),
               f"{ft} is not rebound before it reaches the normaliser" if not rb else
               f"{ft} is converted before it reaches the normaliser (`{norm(rb[0][1])[:60]}`): a second conversion (to naive UTC, or to "
               f"naive local time, which drops fold) changes the instant it denotes")


# ------------------------------------------------------------------------------------------------ who may call the capture methods
def rule_capture_method_callers(ctx, rid):
    """The public methods that capture the user's frame (Plan.call/gather/unpack, Registry.add/source) are not
    called from inside the package (the captured frame would be uberjob's own), except run()'s gather of the
    output specification."""
    m = ctx.model
    targets = {}
    for cn, ms in (("Plan", ("call", "gather", "unpack")), ("Registry", ("add", "source"))):
        cls = m.one_class(cn, "CAPTURE")
        for mm in ms:
            if mm in cls.methods:
                targets[cls.methods[mm]] = f"{cn}.{mm}"
    n = 0
    for f in m.funcs.values():
        if f.module.name.startswith("uberjob._testing"):
            continue
        for c in f.own_calls():
            if not (isinstance(c.func, ast.Attribute) and c.func.attr in ("call", "gather", "unpack", "add", "source")):
                continue
            hit = m.callee_funcs(f, c) & set(targets)
            if not hit:
                continue
            n += 1
            name = targets[next(iter(hit))]
            ctx.ob(rid, f"{f.short}/calls-{name}", False, loc(f, c),
                   f"{name} is called from inside the package: the calls it creates are attributed to {f.short} (a line inside uberjob), "
                   f"not to the user's line", norm(c)[:80])
    # run() converts the output specification itself: it must hand the frame of *its caller* to the frame-explicit gather
    run = [f for f in m.funcs.values() if f.name == "run" and f.module.name == "uberjob._run"]
    gsf = m.one_func("get_stack_frame", "CAPTURE")
    for f in run:
        for c in f.own_calls():
            if not (isinstance(c.func, ast.Attribute) and c.func.attr in ((roles.gather_names(m) - {"gather"}) | {roles.call_ctor(m).name})):
                continue
            n += 1
            a0 = c.args[0] if c.args else None
            direct = isinstance(a0, ast.Call) and gsf in m.callee_funcs(f, a0) and not a0.args and not a0.keywords
            dflt = gsf.defaults.get(gsf.pos_params[0]) if gsf.pos_params else None
            ok = direct and isinstance(dflt, ast.Constant) and dflt.value == 2
            ctx.ob(rid, f"{f.short}/output-gather-frame", ok, loc(f, c),
                   "run() attributes the gather of the output specification to its caller (get_stack_frame() evaluated in run's own frame, depth 2)" if ok else
                   "the gather of the output specification is not attributed to run()'s caller: a failing output gather is reported at a line inside uberjob",
                   norm(c)[:100])
    ctx.floor(rid, "internal uses of the frame-capturing API examined", n, 1)


# ------------------------------------------------------------------------------------------------ result slots
def rule_result_slots(ctx, rid):
    """Every non-literal node gets its own fresh result Slot per run; only exact Literal nodes stand for themselves;
    bound calls exist only for exact Call nodes; `.value` is only ever stored on Slot objects."""
    m = ctx.model
    from . import engine as E_
    from . import runrules as R_
    from .evalrules import rule_run_callback
    rr_ = R_.discover(m, E_.discover(m))
    rule_run_callback(ctx, rr_, rid_slots=rid)
    # SLOT: the class of the result cells the preparation creates (the class of the output slot on the symbolic plan)
    from .evalrules import RunEval
    from ..absval import AbsRaise as _AbsRaise
    try:
        _tb, _os, _pr = RunEval(m, rr_).prepare()
    except _AbsRaise as e_:
        raise AnalysisError(f"abstract evaluation of the run preparation raised {e_.value!r}")
    if _os is None or _os.cls is None:
        raise AnalysisError("role SLOT: the run preparation hands out no output slot object")
    slot = _os.cls
    n = 0
    for g in m.funcs.values():
        if g.module.name.startswith(("uberjob._testing", "uberjob.progress")):
            continue  # (test doubles; the observers' own state)
        for node in g.own_nodes():
            tgs = node.targets if isinstance(node, ast.Assign) else [node.target] if isinstance(node, (ast.AugAssign, ast.AnnAssign)) else []
            tgs = [x for t in tgs for x in (t.elts if isinstance(t, (ast.Tuple, ast.List)) else [t])]
            for t in tgs:
                if isinstance(t, ast.Attribute) and t.attr == "value":
                    if g.name == "__init__" and g.pos_params and is_name(t.value, g.pos_params[0]):
                        continue  # a constructor initialising its own object
                    n += 1
                    if g is rr_.bound_run and norm(t) == f"{g.pos_params[0]}.result.value":
                        ctx.ob(rid, f"{g.short}/result-store", True, loc(g, node), "the call's own result slot (a Slot by the two rules above)", norm(node)[:80])
                        continue
                    os_ = m.origins_of(g, t.value)
                    ok = bool(os_) and all((o[0] == "inst" and slot in o[1].repo_mro()) or o[0] == "const" for o in os_)
                    ctx.ob(rid, f"{g.short}/value-store", ok, loc(g, node),
                           "`.value` stored on a Slot" if ok else
                           f"`{norm(t)}` may be a node of the plan (literal nodes are their own slots and are shared with the caller's plan): "
                           f"storing into it modifies the caller's plan", norm(node)[:80])
    ctx.floor(rid, "`.value` stores outside constructors", n, 1)


# ------------------------------------------------------------------------------------------------ finally must not raise/return
def rule_finally_clean(ctx, rid, funcs):
    n = 0
    for f in funcs:
        for t in [x for x in f.own_nodes() if isinstance(x, ast.Try) and x.finalbody]:
            n += 1
            bad = [x for s in t.finalbody for x in ast.walk(s) if isinstance(x, (ast.Return, ast.Raise))]
            ctx.ob(rid, f"{f.short}/finally-clean", not bad, loc(f, t),
                   "the finally suite neither raises nor returns" if not bad else
                   f"`{norm(bad[0])[:50]}` inside a finally replaces a pending KeyboardInterrupt (Ctrl-C is reported as another error or lost)")
    return n


# ------------------------------------------------------------------------------------------------ C07.L9
def rule_worklists_terminate(ctx, rid):
    """Every `while <worklist>:` loop on the calling thread pops one element per iteration and pushes only under a
    visited-set guard (each node expanded once) or when a strictly decremented counter reaches zero (each node
    pushed once): terminates on cyclic input as well."""
    m = ctx.model
    n = 0
    # decided by evaluation instead (termination on cyclic plans / on every small digraph): the pruning transformation with the
    # ancestor closure below it, and the engine's acyclicity assertion with its topological pass
    from . import engine as E_
    from . import runrules as R_
    from .prunerules import prune_role, rule_pruning_evaluated
    er_ = E_.discover(m)
    rr_ = R_.discover(m, er_)
    evaluated = set()
    pr_ = prune_role(m, rr_)
    evaluated |= {pr_} | set(m.reachable([pr_], kinds=("call",)))
    rule_pruning_evaluated(ctx, rid, rr_)
    for st_ in er_.engine.node.body:
        c_ = st_.value if isinstance(st_, ast.Expr) and isinstance(st_.value, ast.Call) else None
        if c_ is not None and c_.args and is_name(c_.args[0], er_.engine.pos_params[0]):
            for f_ in m.callee_funcs(er_.engine, c_):
                try:
                    if E_.evaluate_cycle_check(m, f_)[0]:
                        evaluated |= {f_} | set(m.reachable([f_], kinds=("call",)))
                        n += 1
                except AnalysisError:
                    pass
    for f in m.funcs.values():
        if not f.module.name.startswith(("uberjob._util.networkx_util", "uberjob._execution.greedy", "uberjob._transformations")):
            continue
        if f in evaluated:
            n += 1 if any(isinstance(x, ast.While) for x in f.own_nodes()) else 0
            continue
        for w in [x for x in f.own_nodes() if isinstance(x, ast.While)]:
            if not isinstance(w.test, ast.Name):
                continue
            wl = w.test.id
            n += 1
            pops = [c for c in ast.walk(w) if isinstance(c, ast.Call) and isinstance(c.func, ast.Attribute) and c.func.attr in ("pop", "popleft") and is_name(c.func.value, wl)]
            first = w.body[0] if w.body else None
            ok_pop = len(pops) == 1 and first is not None and any(x is pops[0] for x in ast.walk(first))
            ctx.ob(rid, f"{f.short}/pops-each-iteration", ok_pop, loc(f, w), "one element is popped at the top of every iteration" if ok_pop else
                   "the worklist loop does not pop exactly one element at the top of every iteration", head(w))
            pushes = [c for c in ast.walk(w) if isinstance(c, ast.Call) and isinstance(c.func, ast.Attribute) and c.func.attr in ("append", "extend", "appendleft")
                      and is_name(c.func.value, wl)]
            popped = first.targets[0].id if isinstance(first, ast.Assign) and isinstance(first.targets[0], ast.Name) else None
            # visited idiom, in either spelling (`if x in visited: continue` first, or everything under
            # `if x not in visited:`): the push runs only when the popped element is not in V, and V.add(x) runs
            # whenever that is the case
            def not_visited_sets(conds):
                return {norm(t.comparators[0]) for t, pol in conds if isinstance(t, ast.Compare) and len(t.ops) == 1 and isinstance(t.ops[0], ast.In)
                        and popped and is_name(t.left, popped) and not pol}
            for pc in pushes:
                st = stmt_of(f.module, pc)
                conds = E.path_condition(f.module, st, w)
                by_visited = False
                for vis in not_visited_sets(conds):
                    for c in ast.walk(w):
                        if isinstance(c, ast.Call) and isinstance(c.func, ast.Attribute) and c.func.attr == "add" and norm(c.func.value) == vis \
                                and c.args and is_name(c.args[0], popped):
                            mconds = E.path_condition(f.module, stmt_of(f.module, c), w)
                            if all(isinstance(t, ast.Compare) and isinstance(t.ops[0], ast.In) and norm(t.comparators[0]) == vis
                                   and is_name(t.left, popped) and not pol for t, pol in mconds):
                                by_visited = True
                by_counter = any(isinstance(t, ast.Compare) and isinstance(t.ops[0], ast.Eq) and isinstance(t.comparators[0], ast.Constant) and t.comparators[0].value == 0 and pol
                                 and isinstance(t.left, ast.Subscript) for t, pol in conds)
                if by_counter:
                    tbl = [norm(t.left.value) for t, pol in conds if isinstance(t, ast.Compare) and isinstance(t.left, ast.Subscript)][0]
                    by_counter = any(isinstance(x, ast.AugAssign) and isinstance(x.op, ast.Sub) and isinstance(x.target, ast.Subscript) and norm(x.target.value) == tbl
                                     and x.lineno < st.lineno for x in ast.walk(w))
                ok = by_visited or by_counter
                ctx.ob(rid, f"{f.short}/push-bounded", ok, loc(f, pc),
                       "pushes are bounded: " + ("each node is expanded once (visited set)" if by_visited else "a node is pushed when its strictly decreasing counter reaches zero") if ok else
                       "a push onto the worklist is neither guarded by a visited set nor by a counter reaching zero: the loop may not terminate on cyclic input",
                       norm(st)[:80])
    ctx.floor(rid, "worklist loops on the calling thread", n, 3)
