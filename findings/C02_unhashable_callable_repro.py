import uberjob
class Fn:
    def __init__(self, k): self.k = k
    def __eq__(self, o): return isinstance(o, Fn) and o.k == self.k
    def __call__(self, x): return x * self.k
plan = uberjob.Plan()
try:
    c = plan.call(Fn(3), 2)
    print(uberjob.run(plan, output=c))
except Exception as e:
    print("DEFECT", type(e).__name__, e); raise SystemExit(1)
