"""C01 - a call never starts before everything it depends on has finished successfully (premises A1-A6)."""
from . import engine as E
from .common import rule_pruning_preserves_paths


def check(ctx):
    ctx.rule("C01.A1", "successors are enqueued only on paths where the user call returned normally (CFG path rule)")
    ctx.rule("C01.A2", "decrement and zero test of the remaining-predecessor counter lie in one lock region; no access outside")
    ctx.rule("C01.A3", "counter initialisation and decrement loop count the same thing (distinct neighbours vs parallel edges); "
                       "exact 3-way partition of nodes by predecessor count")
    ctx.rule("C01.A4", "the ready queue is seeded with exactly the zero-predecessor nodes")
    ctx.rule("C01.A5", "every queue kind: _put adds exactly the item, _get removes exactly what it returns; engine code "
                       "uses only the public queue protocol")
    ctx.rule("C01.A6", "node removals in plan transformations preserve dependency paths (complement of ancestor closure, "
                       "predecessor-free nodes, or bridged by the full product of current neighbours)")
    ctx.assume("exceptional edges: every statement containing a call may raise (conservative); CPython/queue.Queue/"
               "threading.Lock/networkx behave as documented; the induction from these premises to the behavioural "
               "statement is the paper argument of DESIGN.md section 4.C01")
    r = E.discover(ctx.model)
    E.rule_enqueue_after_success(ctx, "C01.A1", r)
    E.rule_atomic_counter(ctx, "C01.A2", r)
    E.rule_counting_agreement(ctx, "C01.A3", r, rid_initial="C01.A4")
    E.rule_initial_ready_set(ctx, "C01.A4", r)
    E.rule_queue_effects(ctx, "C01.A5", r)
    E.rule_queue_internals(ctx, "C01.A5", r)
    rule_pruning_preserves_paths(ctx, "C01.A6")
