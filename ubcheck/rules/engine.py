"""Roles and rules of the parallel scheduler engine (run_function_on_graph and friends).

Shared by C01, C04, C06, C07, C10, C17; each property module calls the rule functions under its own rule ids."""
from __future__ import annotations

import ast

from ..astq import (comes_before, arg, const, ext_names, handler_catches_all, handler_classes, inside, is_name, loc, lock_withs,
                    names_in, stmt_of, in_body)
from ..cfg import CFG, any_call_may_raise
from ..model import AnalysisError, Func, head, norm

PUT = {"queue.Queue.put", "queue.Queue.put_nowait"}
GET = {"queue.Queue.get", "queue.Queue.get_nowait"}
BLOCKING = {"queue.Queue.join", "queue.Queue.get", "threading.Thread.join", "time.sleep", "threading.Event.wait",
            "threading.Lock.acquire", "threading.RLock.acquire", "threading.Condition.wait", "threading.Barrier.wait",
            "threading.Semaphore.acquire"}
QUEUE_INTERNALS = {"mutex", "not_empty", "not_full", "all_tasks_done", "unfinished_tasks", "queue", "maxsize",
                   "_put", "_get", "_qsize", "_init"}
DISTINCT_PRED = "distinct"
PER_EDGE = "per-edge"


class Roles:
    pass


def discover(m, partial=False):
    """Role queries of DESIGN section 3.1 for the scheduler engine; an empty role is an AnalysisError.
    partial=True: return the roles found before the first role that could not be identified (r.incomplete = the reason)."""
    r = Roles()
    r.incomplete = None
    try:
        return _discover(m, r)
    except AnalysisError as e_:
        if partial and getattr(r, "nodecb", None) is not None and getattr(r, "usercall", None) is not None:
            r.incomplete = str(e_)
            return r
        raise


def _discover(m, r):
    r.engine = m.one_func("run_function_on_graph", "ENGINE")
    e = r.engine
    # LIFECYCLE: the engine starts its worker threads itself.  A thread-pool context manager it enters has been inlined at the
    # `with` (canon.inline_thread_pool_withs, applied to every variant): start, release and join are statements of ENGINE.
    thread_creators = {c[0] for c in m.thread_targets}
    r.start_calls = [c for c in e.own_calls()
                     if {f for f in m.callee_funcs(e, c)} and (m.reachable(list(m.callee_funcs(e, c)), kinds=("call",)) & thread_creators)]
    if e in thread_creators:
        r.start_calls += [call for (c, call, tg) in m.thread_targets if c is e and call not in r.start_calls]
    if not r.start_calls:
        split = []
        for n in e.own_nodes():
            if isinstance(n, ast.With):
                for it in n.items:
                    if isinstance(it.context_expr, ast.Call):
                        for f in m.callee_funcs(e, it.context_expr):
                            if m.reachable([f], kinds=("call",)) & thread_creators:
                                split.append(f.qualname)
        if split:
            raise AnalysisError(f"role LIFECYCLE: {e.qualname} starts its threads through the context manager {sorted(set(split))}, "
                                f"which could not be inlined at the with statement (not a single-yield generator of the same module)")
        raise AnalysisError(f"role LIFECYCLE: {e.qualname} starts no thread")
    r.pool = e  # the function that owns the thread life cycle
    reach_pool = m.reachable([e], kinds=("call",))
    r.thread_sites = [(c, call, tg) for (c, call, tg) in m.thread_targets if c in reach_pool]
    loops = set()
    for _c, _call, tg in r.thread_sites:
        for o in tg:
            if o[0] in ("func", "bound"):
                loops.add(o[1])
    if len(loops) != 1:
        raise AnalysisError(f"role WORKERLOOP: expected one thread target below {e.qualname}, found {sorted(f.qualname for f in loops)}")
    r.loop = next(iter(loops))
    # NODECB: closure of ENGINE called from the worker loop
    cbs = set()
    for call in r.loop.own_calls():
        for f in m.callee_funcs(r.loop, call):
            if f.parent is e:
                cbs.add((f, call))
    if len({f for f, _ in cbs}) != 1:
        raise AnalysisError(f"role NODECB: expected one closure of {e.name} called by the worker loop, found {sorted(f.qualname for f,_ in cbs)}")
    r.nodecb = next(iter(cbs))[0]
    r.item_calls = [c for f, c in cbs]
    # USERCALL: call of ENGINE's callable parameter inside NODECB
    r.usercalls = []
    for call in r.nodecb.own_calls():
        if isinstance(call.func, ast.Name) and m.binding_scope(r.nodecb, call.func.id) is e \
                and call.func.id in e.params:
            r.usercalls.append(call)
    if len(r.usercalls) != 1:
        raise AnalysisError(f"role USERCALL: expected one call of the engine's callable parameter in {r.nodecb.qualname}, found {len(r.usercalls)}")
    r.usercall = r.usercalls[0]
    r.fn_param = r.usercall.func.id
    # queue: the object ENGINE joins
    joins = [c for c in e.own_calls() if "queue.Queue.join" in ext_names(m, e, c)]
    if len(joins) != 1 or not isinstance(joins[0].func.value, ast.Name):
        raise AnalysisError("role QUEUE: expected exactly one queue.join() in the engine function")
    r.join_call = joins[0]
    r.queue_name = joins[0].func.value.id
    # queue factory
    qb = [b for b in e.bindings.get(r.queue_name, []) if b[0] == "assign"]
    if len(qb) != 1 or not isinstance(qb[0][1], ast.Call):
        raise AnalysisError("role QUEUEFACTORY: the queue variable must be assigned once from a call")
    r.queue_factory_call = qb[0][1]
    fs = m.callee_funcs(e, r.queue_factory_call)
    if len(fs) != 1:
        raise AnalysisError("role QUEUEFACTORY: callee not resolved")
    r.queue_factory = next(iter(fs))
    # The readiness bookkeeping (roles COUNTTABLE / PREP) is optional: an engine that keeps it another way is still analysed by every
    # rule that does not need it, and the behaviour these roles are premises of is decided by evaluating the engine as a whole
    # (engineeval); r.bookkeeping_error says why the premises could not be located.
    r.count_name, r.decs, r.prep, r.prep_call, r.prep_names, r.bookkeeping_error = None, [], None, None, {}, None
    try:
        # COUNTTABLE: subscript-decremented in NODECB
        decs = [n for n in r.nodecb.own_nodes() if isinstance(n, ast.AugAssign) and isinstance(n.op, ast.Sub)
                and isinstance(n.target, ast.Subscript) and isinstance(n.target.value, ast.Name)]
        names = {d.target.value.id for d in decs}
        if len(names) != 1:
            raise AnalysisError(f"role COUNTTABLE: expected one table decremented by subscript in {r.nodecb.qualname}, found {sorted(names)}")
        r.count_name = names.pop()
        r.decs = decs
        # PREP: the call whose result is destructured into the count table
        cb = [b for b in e.bindings.get(r.count_name, []) if b[0] == "assign"]
        if len(cb) != 1 or not isinstance(cb[0][1], ast.Call) or len(cb[0][2]) != 1:
            raise AnalysisError("role PREP: the count table must come from destructuring one call result")
        r.prep_call = cb[0][1]
        r.count_index = cb[0][2][0]
        fs = m.callee_funcs(e, r.prep_call)
        if len(fs) != 1:
            raise AnalysisError("role PREP: callee not resolved")
        r.prep = next(iter(fs))
        # names bound from the same destructuring
        r.prep_names = {}
        for nm, bs in e.bindings.items():
            for b in bs:
                if b[0] == "assign" and b[1] is r.prep_call and len(b[2]) == 1:
                    r.prep_names[b[2][0]] = nm
        prep_indices(m, r)
    except AnalysisError as e_:
        r.bookkeeping_error = str(e_)
        r.prep_located = False
    else:
        r.prep_located = True
    # FIRSTERR: raised by ENGINE
    raised = [n for n in e.own_nodes() if isinstance(n, ast.Raise) and isinstance(n.exc, ast.Name)]
    raised = [n for n in raised if n.exc.id in r.nodecb.nonlocals]
    if len(raised) != 1:
        raise AnalysisError("role FIRSTERR: expected the engine to raise exactly one variable shared with the node callback")
    r.raise_stmt = raised[0]
    r.firsterr = raised[0].exc.id
    # STOP: tested with immediate return before the user call
    r.stop = None
    for s in r.nodecb.node.body:
        if isinstance(s, ast.If) and isinstance(s.test, ast.Name) and len(s.body) == 1 and isinstance(s.body[0], ast.Return) \
                and s.test.id in r.nodecb.nonlocals:
            r.stop = s.test.id
            r.stop_test = s
            break
    # handler protecting the user call
    r.try_stmt = None
    ust = stmt_of(r.nodecb.module, r.usercall)
    for n in r.nodecb.own_nodes():
        if isinstance(n, ast.Try) and any(s is ust or inside(r.nodecb.module, ust, s) for s in n.body):
            r.try_stmt = n
    # ERRCOUNT: incremented in a handler of that try
    r.errcount = None
    if r.try_stmt is not None:
        for h in r.try_stmt.handlers:
            for n in ast.walk(h):
                if isinstance(n, ast.AugAssign) and isinstance(n.op, ast.Add) and isinstance(n.target, ast.Name) \
                        and n.target.id in r.nodecb.nonlocals:
                    r.errcount = n.target.id
    # sentinel: the non-node object ENGINE puts on the queue
    r.sentinel_puts = [c for c in e.own_calls() if ext_names(m, e, c) & PUT and c.args]
    r.sentinel = None
    if r.sentinel_puts:
        a = r.sentinel_puts[0].args[0]
        r.sentinel = norm(a)
    # queue classes
    r.queue_classes = [c for c in m.classes.values() if any(x == "queue.Queue" for x in c.ext_bases())]
    return r


# ------------------------------------------------------------------------------------------------ helpers
def put_sites(m, f, r):
    out = []
    for c in f.own_calls():
        if ext_names(m, f, c) & PUT:
            out.append(c)
    return out


def is_sentinel_arg(m, f, call, r):
    return bool(call.args) and norm(call.args[0]) == r.sentinel


# ------------------------------------------------------------------------------------------------ A1 / X1
def rule_enqueue_after_success(ctx, rid, r):
    m = ctx.model
    cb = r.nodecb
    g = CFG(cb, may_raise=any_call_may_raise)
    ust = stmt_of(cb.module, r.usercall)
    unodes = g.of(ust)
    puts = [c for c in put_sites(m, cb, r) if not is_sentinel_arg(m, cb, c, r)]
    # enqueue through a repo helper counts as an enqueue site as well
    helper_puts = []
    for c in cb.own_calls():
        for f in m.callee_funcs(cb, c):
            if f is not cb and any(ext_names(m, h, x) & PUT or (isinstance(x.func, ast.Attribute) and x.func.attr == "_put")
                                   for h in m.reachable([f], kinds=("call",)) for x in h.own_calls()):
                helper_puts.append(c)
    sites = puts + [c for c in helper_puts if c not in puts]
    ctx.floor(rid, "successor enqueue sites in the node callback", len(sites), 1)
    for c in sites:
        st = stmt_of(cb.module, c)
        nodes = set(g.of(st))
        bad = set()
        for un in unodes:
            bad |= g.reach([un], first_labels={"e"}) & nodes
        p = g.fmt_path(g.path(unodes[0], bad, first_labels={"e"})) if bad else ""
        ctx.ob(rid, f"{cb.short}/enqueue-not-after-failure", not bad, loc(cb, c),
               "successor enqueue unreachable from the exceptional out-edge of the user call" if not bad else
               "a successor can be enqueued although the node's function raised", norm(st), p)
        dom = all(g.dominates(set(unodes), n) for n in nodes)
        ctx.ob(rid, f"{cb.short}/enqueue-after-call", dom, loc(cb, c),
               "every path to the enqueue passes the user call" if dom else
               "a successor can be enqueued before the node's function ran", norm(st))
    # no other enqueue of nodes from thread-reachable engine code
    for f in ctx.model.reachable([r.loop], kinds=("call",)):
        if f in (cb, r.engine) or not f.module.name.startswith("uberjob._execution"):
            continue
        for c in put_sites(m, f, r):
            ctx.ob(rid, f"{f.short}/foreign-enqueue", False, loc(f, c),
                   "queue.put outside the node callback (not covered by the success-path rule)", norm(c))


def rule_callbacks_only_via_engine(ctx, rid, r, callbacks):
    """The functions that execute plan calls / examine stores are invoked only through the engine's user-call site
    (no sibling executor that walks the graph by itself)."""
    m = ctx.model
    for cb in callbacks:
        sites = m.callers.get(cb, set())
        bad = [(f, c) for f, c in sites if not (f is r.nodecb and c is r.usercall)]
        ctx.ob(rid, f"{cb.short}/only-via-engine", not bad and bool(sites), loc(cb),
               "invoked only through the engine's node callback" if not bad and sites else
               (f"also invoked directly from {bad[0][0].short} (`{norm(bad[0][1])[:60]}`): a second executor that bypasses the "
                f"engine's ordering/failure rules" if bad else "never reaches the engine"))


# ------------------------------------------------------------------------------------------------ A2
def evaluated_instead(ctx, rid, r, what, aspects):
    """A premise about the readiness bookkeeping cannot be located in this engine (r.bookkeeping_error).  The behaviour it is a
    premise of is decided by the evaluation of the engine as a whole; this obligation records that and fails closed when the
    evaluation itself could not be done."""
    from .engineeval import evaluate_engine, rankers_of
    m = ctx.model
    n_cfg, n_eval, bad, err = evaluate_engine(m, r, rankers_of(m, r))
    if err:
        raise AnalysisError(f"{r.bookkeeping_error}; and the engine could not be evaluated as a whole: {err}")
    devs = [b for b in bad if b[0] == "run" and b[1] in aspects]
    ctx.ob(rid, f"{r.engine.short}/{what}-decided-by-evaluation", not devs, loc(r.engine),
           f"the bookkeeping is not in the shape this premise describes ({r.bookkeeping_error}); what the premise is for - "
           f"{', '.join(aspects)} - holds on all {n_eval} evaluations of the engine as a whole" if not devs else devs[0][2])


def rule_atomic_counter(ctx, rid, r):
    m = ctx.model
    if r.count_name is None:
        # no subscript-decremented counter table: the role-free form of the rule
        return rule_shared_state_atomic(ctx, rid, r.engine)
    cb = r.nodecb
    mod = cb.module
    locks = lock_withs(m, cb)
    accesses = [n for n in cb.own_nodes() if isinstance(n, ast.Name) and n.id == r.count_name]
    ctx.floor(rid, "accesses of the remaining-predecessor table in the node callback", len(accesses), 2)

    def region(n):
        for w, lockexpr in locks:
            if inside(mod, n, w):
                return w, norm(lockexpr)
        return None, None

    regions = set()
    for a in accesses:
        w, lk = region(a)
        st = stmt_of(mod, a)
        ctx.ob(rid, f"{cb.short}/{r.count_name}-under-lock", w is not None, loc(cb, a),
               f"access inside `with {lk}`" if w is not None else
               "access to the shared counter table outside any lock region (decrement and zero test are not one "
               "critical section)", head(st))
        if w is not None:
            regions.add((w, lk))
    ok = len(regions) == 1
    ctx.ob(rid, f"{cb.short}/{r.count_name}-one-region", ok, loc(cb),
           "decrement and test share one critical section" if ok else
           f"the counter is accessed in {len(regions)} separate lock regions: two workers can both observe zero")
    # other thread-reachable functions must not touch the table
    for f in m.reachable([r.loop], kinds=("call",)):
        if f is cb:
            continue
        if m.binding_scope(f, r.count_name) is r.engine:
            for n in f.own_nodes():
                if isinstance(n, ast.Name) and n.id == r.count_name:
                    ctx.ob(rid, f"{f.short}/{r.count_name}-foreign", False, loc(f, n),
                           "counter table accessed from another thread-reachable function", head(stmt_of(f.module, n)))
    # decrement is by exactly 1
    for d in r.decs:
        ok = isinstance(d.value, ast.Constant) and d.value.value == 1
        ctx.ob(rid, f"{cb.short}/decrement-by-one", ok, loc(cb, d), "decrement by 1" if ok else "decrement is not by 1", norm(d))
    # the test guarding an enqueue compares with zero
    from ..astq import expand_locals
    for n in cb.own_nodes():
        if not isinstance(n, ast.If):
            continue
        test_x = expand_locals(cb, n.test)
        if r.count_name in names_in(test_x):
            txt = norm(test_x)
            t_, pol_ = _positive(test_x, True)
            # accepted: `count == 0` guarding the enqueue in its true branch (or the negation with the enqueue in the else branch),
            # or the truthiness form `not count`
            if isinstance(t_, ast.Compare) and len(t_.ops) == 1 and isinstance(t_.ops[0], ast.Eq) and const(t_.comparators[0]) == 0 \
                    and isinstance(t_.left, ast.Subscript):
                zero_branch = n.body if pol_ else n.orelse
            elif isinstance(t_, ast.Subscript):
                zero_branch = n.orelse if pol_ else n.body
            else:
                zero_branch = None
            puts_in_zero = [c for s_ in (zero_branch or []) for c in ast.walk(s_) if isinstance(c, ast.Call) and c in put_sites(m, cb, r)]
            other_branch = (n.orelse if zero_branch is n.body else n.body) if zero_branch is not None else []
            puts_elsewhere = [c for s_ in other_branch for c in ast.walk(s_) if isinstance(c, ast.Call) and c in put_sites(m, cb, r)]
            ok = zero_branch is not None and len(puts_in_zero) == 1 and not puts_elsewhere
            ctx.ob(rid, f"{cb.short}/zero-test", ok, loc(cb, n),
                   "the successor is enqueued exactly in the branch where its remaining count is zero" if ok else
                   f"readiness test `{txt}`: the enqueue is not (only) in the branch where the remaining count equals zero "
                   f"(a successor starts while predecessors are outstanding, or is never enqueued)", head(n))


MUTATORS = {"remove", "discard", "pop", "popitem", "add", "append", "appendleft", "extend", "insert", "update", "clear", "setdefault",
            "popleft", "difference_update", "intersection_update", "symmetric_difference_update", "__setitem__", "__delitem__", "sort", "reverse"}


def rule_callback_state_private(ctx, rid):
    """The functions the engine runs on its workers for the two phases (the run callback and the stale-check callback, with whatever
    they call on objects their host builds for the phase) execute concurrently, one invocation per node.  State that outlives an
    invocation and is not the invocation's own element (`table[node]` for a parameter `node`) must not be modified outside a lock:
    a bracket object shared by all invocations that remembers "the current node" names the wrong call as soon as two calls overlap."""
    m = ctx.model
    eng = m.one_func("run_function_on_graph", "ENGINE")
    hosts = []
    for f in m.funcs.values():
        if f is eng or isinstance(f.node, ast.Lambda):
            continue
        if any(eng in m.callee_funcs(f, c) for c in f.own_calls()):
            hosts.append(f)
    if not hosts:
        raise AnalysisError("no caller of the engine found")
    for h in sorted(hosts, key=lambda f_: f_.qualname):
        rule_shared_state_atomic(ctx, rid, h, per_item_exempt=True, floor=0)
    ctx.floor(rid, "hosts of worker callbacks examined", len(hosts), 2)


def rule_shared_state_atomic(ctx, rid, engine, per_item_exempt=False, floor=3):
    """Check-then-act on state shared between the workers (role-free form of A2).  In the code the worker threads execute - every
    closure of the engine, and every method of a package class reachable from them - state that outlives the invocation (a variable
    of the engine's scope, an attribute of `self`, or a local alias of one of their elements, `x = shared[k]`) and that the function
    *modifies* (augmented / subscript assignment, rebinding to a computed value, a mutating container method) must be modified inside
    a lock region, and every other read of it in that function lies in the lock region of a modification: a value read after the lock
    was released may already have been changed again by another worker (two workers both see "zero" and both enqueue the successor).
    Flags that are only ever assigned constants (the stop flag) and containers that are only read are exempt."""
    m = ctx.model
    e = engine
    n_sites = 0
    closures = [f for f in e.all_nested() if not isinstance(f.node, ast.Lambda)]
    # objects the engine constructs for the run are shared by all its workers: their methods are worker code operating on shared state
    built = set()
    for c_ in e.own_calls():
        for o_ in m.callee_origins(e, c_):
            if o_[0] == "class" and hasattr(o_[1], "repo_mro"):
                built |= set(o_[1].repo_mro())
    methods = [f for f in m.reachable(closures, kinds=("call",)) if f.cls is not None and f.cls in built and f not in closures
               and f.name != "__init__" and f.pos_params]
    if per_item_exempt:
        # a callback may be an object: every method of a class the host instantiates is worker code (construction excluded)
        methods = sorted({f for f in m.funcs.values() if f.cls is not None and f.cls in built and f.name not in ("__init__", "__post_init__")
                          and f.pos_params and not isinstance(f.node, ast.Lambda)} | set(methods), key=lambda f_: f_.qualname)
    for cb in closures + sorted(methods, key=lambda f_: f_.qualname):
        mod = cb.module
        locks = lock_withs(m, cb)
        if cb.cls is not None:
            # locks held as attributes of self
            for n in cb.own_nodes():
                if isinstance(n, ast.With):
                    for it in n.items:
                        if isinstance(it.context_expr, ast.Attribute) and is_name(it.context_expr.value, cb.pos_params[0]) and \
                                "lock" in it.context_expr.attr.lower() and (n, it.context_expr) not in locks:
                            locks.append((n, it.context_expr))
        selfp = cb.pos_params[0] if cb.cls is not None else None
        shared = set() if selfp else {n for n in names_free_in(m, cb, e)}
        # local aliases of elements of shared containers
        alias = {}

        own_item = set()   # local names bound to the invocation's own element: `x = table[node]` for a parameter `node`

        def per_item(x):
            while isinstance(x, (ast.Subscript, ast.Attribute)):
                if isinstance(x, ast.Subscript) and isinstance(x.slice, ast.Name) and x.slice.id in cb.params and \
                        not (selfp and x.slice.id == selfp):
                    return True
                x = x.value
            return isinstance(x, ast.Name) and x.id in own_item

        def base_key(x):
            """The piece of shared state an expression denotes or lives in: a shared variable, or `self.attr`."""
            if per_item_exempt and per_item(x):
                return None
            while isinstance(x, (ast.Subscript, ast.Attribute)):
                if selfp and isinstance(x, ast.Attribute) and is_name(x.value, selfp):
                    return f"{selfp}.{x.attr}"
                x = x.value
            if isinstance(x, ast.Name):
                if x.id in alias:
                    return alias[x.id]
                if x.id in shared:
                    return x.id
            return None
        for n in cb.own_nodes():
            if isinstance(n, ast.Assign) and len(n.targets) == 1 and isinstance(n.targets[0], ast.Name):
                v = n.value
                if per_item_exempt and isinstance(v, (ast.Subscript, ast.Attribute)) and per_item(v) and \
                        sum(1 for b_ in cb.bindings.get(n.targets[0].id, [])) == 1:
                    own_item.add(n.targets[0].id)
                    continue
                if isinstance(v, (ast.Subscript, ast.Attribute)) and not (selfp and isinstance(v, ast.Attribute) and is_name(v.value, selfp)):
                    k_ = base_key(v)
                    if k_ is not None:
                        alias[n.targets[0].id] = k_
                elif isinstance(v, ast.Call) and isinstance(v.func, ast.Attribute) and v.func.attr in ("get", "__getitem__"):
                    k_ = base_key(v.func.value)
                    if k_ is not None:
                        alias[n.targets[0].id] = k_
        mutated = {}  # piece of shared state -> [mutation node]
        for n in cb.own_nodes():
            tg = []
            if isinstance(n, ast.AugAssign):
                tg = [n.target]
            elif isinstance(n, ast.Assign):
                tg = [t for t in n.targets for t in (t.elts if isinstance(t, (ast.Tuple, ast.List)) else [t])]
            elif isinstance(n, ast.Delete):
                tg = list(n.targets)
            for t in tg:
                const_flag = isinstance(n, ast.Assign) and isinstance(n.value, ast.Constant)
                if isinstance(t, ast.Name):
                    if t.id in cb.nonlocals and t.id in shared and not const_flag:
                        mutated.setdefault(t.id, []).append(n)
                elif isinstance(t, (ast.Subscript, ast.Attribute)):
                    r_ = base_key(t)
                    direct_attr = selfp and isinstance(t, ast.Attribute) and is_name(t.value, selfp)
                    if r_ is not None and not (direct_attr and const_flag):
                        mutated.setdefault(r_, []).append(n)
            if isinstance(n, ast.Call) and isinstance(n.func, ast.Attribute) and n.func.attr in MUTATORS:
                r_ = base_key(n.func.value)
                if r_ is not None and not (ext_names(m, cb, n) & (PUT | GET | {"queue.Queue.task_done"})):
                    mutated.setdefault(r_, []).append(n)
        if not mutated:
            continue

        def region(n):
            for w, lockexpr in locks:
                if inside(mod, n, w):
                    return w
            return None
        for name, muts in sorted(mutated.items()):
            for mu in muts:
                n_sites += 1
                w = region(mu)
                ctx.ob(rid, f"{cb.short}/{name}-modified-under-lock", w is not None, loc(cb, mu),
                       f"shared `{name}` is modified inside a lock region" if w is not None else
                       f"shared `{name}` is modified by the workers outside any lock region", head(stmt_of(mod, mu)))
            regions = {region(mu) for mu in muts}
            mut_nodes = {id(x) for mu in muts for x in ast.walk(mu)}
            seen_stmts = set()
            for n in cb.own_nodes():
                if not isinstance(n, (ast.Name, ast.Attribute)) or id(n) in mut_nodes or not isinstance(getattr(n, "ctx", None), ast.Load):
                    continue
                if isinstance(n, ast.Name):
                    if not (n.id == name or alias.get(n.id) == name):
                        continue
                elif not (selfp and is_name(n.value, selfp) and f"{selfp}.{n.attr}" == name):
                    continue
                st = stmt_of(mod, n)
                holder = st
                # the statement (or the header of the compound statement) that reads it
                if id(holder) in seen_stmts:
                    continue
                seen_stmts.add(id(holder))
                if isinstance(st, ast.Assign) and len(st.targets) == 1 and isinstance(st.targets[0], ast.Name) and alias.get(st.targets[0].id) == name \
                        and region(st) is None and all(region(u) is not None for u in cb.own_nodes()
                                                       if isinstance(u, ast.Name) and u.id == st.targets[0].id and isinstance(u.ctx, ast.Load)):
                    continue  # taking a reference to an element; what matters is where that reference is used
                n_sites += 1
                w = region(n)
                ok = w is not None and w in regions
                ctx.ob(rid, f"{cb.short}/{name}-read-with-its-modification", ok, loc(cb, n),
                       f"shared `{name}` is read inside the lock region of its modification (one critical section)" if ok else
                       f"`{norm(st)[:60]}` reads shared `{name}`, which this function modifies, outside the lock region of that "
                       f"modification: two workers can both modify and then both observe the same state (e.g. both find a successor ready "
                       f"and enqueue it twice)", head(st))
    if floor:
        ctx.floor(rid, "modifications / reads of worker-shared state examined", n_sites, floor)


def names_free_in(m, f, scope):
    """Names used in function f (own nodes) that are bound in the enclosing function `scope`."""
    out = set()
    for n in f.own_nodes():
        if isinstance(n, ast.Name) and n.id not in f.params and m.binding_scope(f, n.id) is scope:
            out.add(n.id)
    return out


# ------------------------------------------------------------------------------------------------ A3 / A4
def classify_pred_count(m, f, e, depth=0):
    """Class of a predecessor-count expression: 'distinct' or 'per-edge' (None = unknown)."""
    if isinstance(e, ast.Call):
        fn = e.func
        if isinstance(fn, ast.Name) and fn.id == "len" and e.args:
            return classify_neighbor_iter(m, f, e.args[0], "pred")
        if isinstance(fn, ast.Attribute) and fn.attr == "in_degree":
            return PER_EDGE
        if isinstance(fn, ast.Attribute) and fn.attr == "number_of_edges":
            return PER_EDGE
        if depth < 3:
            for g in m.callee_funcs(f, e):
                rets = [n for n in g.own_nodes() if isinstance(n, ast.Return) and n.value is not None]
                if len(rets) == 1:
                    return classify_pred_count(m, g, rets[0].value, depth + 1)
    if isinstance(e, ast.Subscript) and isinstance(e.value, ast.Attribute) and e.value.attr == "in_degree":
        return PER_EDGE
    return None


def classify_neighbor_iter(m, f, e, direction):
    """Class of an expression enumerating predecessors/successors of one node."""
    names = {"pred": ({"pred", "predecessors", "_pred"}, {"in_edges"}),
             "succ": ({"succ", "successors", "neighbors", "adj", "_succ", "_adj"}, {"out_edges", "edges"})}[direction]
    if isinstance(e, ast.Call) and isinstance(e.func, ast.Name) and e.func.id in ("list", "set", "tuple", "sorted", "frozenset", "iter") and e.args:
        inner = classify_neighbor_iter(m, f, e.args[0], direction)
        if e.func.id in ("set", "frozenset") and inner == PER_EDGE:
            return None  # set of edge tuples: neither
        return inner
    if isinstance(e, ast.Subscript) and isinstance(e.value, ast.Attribute):
        if e.value.attr in names[0]:
            return DISTINCT_PRED
    if isinstance(e, ast.Subscript) and isinstance(e.value, ast.Name) and direction == "succ":
        return DISTINCT_PRED  # G[n]
    if isinstance(e, ast.Call) and isinstance(e.func, ast.Attribute):
        if e.func.attr in names[0]:
            return DISTINCT_PRED
        if e.func.attr in names[1]:
            return PER_EDGE
    return None


def _eval_guard(test, var, value):
    """Evaluate a guard over the single integer variable `var`; None when outside the tiny language."""
    if isinstance(test, ast.Compare) and len(test.ops) == 1:
        l, rgt = test.left, test.comparators[0]

        def val(x):
            if is_name(x, var):
                return value
            if isinstance(x, ast.Constant) and isinstance(x.value, int):
                return x.value
            return None

        a, b = val(l), val(rgt)
        if a is None or b is None:
            return None
        op = test.ops[0]
        return {ast.Eq: a == b, ast.NotEq: a != b, ast.Lt: a < b, ast.LtE: a <= b, ast.Gt: a > b, ast.GtE: a >= b}.get(type(op))
    if isinstance(test, ast.UnaryOp) and isinstance(test.op, ast.Not):
        v = _eval_guard(test.operand, var, value)
        return None if v is None else not v
    if is_name(test, var):
        return bool(value)
    if isinstance(test, ast.BoolOp):
        vs = [_eval_guard(v, var, value) for v in test.values]
        if any(v is None for v in vs):
            return None
        return all(vs) if isinstance(test.op, ast.And) else any(vs)
    return None


def _always_leaves(stmts):
    """The statement list cannot complete normally (ends in return / raise / continue / break on every path)."""
    if not stmts:
        return False
    s = stmts[-1]
    if isinstance(s, (ast.Return, ast.Raise, ast.Continue, ast.Break)):
        return True
    if isinstance(s, ast.If):
        return _always_leaves(s.body) and _always_leaves(s.orelse)
    if isinstance(s, ast.With):
        return _always_leaves(s.body)
    return False


def _sibling_lists(p):
    for field in ("body", "orelse", "finalbody"):
        lst = getattr(p, field, None)
        if isinstance(lst, list):
            yield lst
    for h in getattr(p, "handlers", []) or []:
        yield h.body
    for c in getattr(p, "cases", []) or []:
        yield c.body


def path_condition(mod, stmt, root):
    """[(test, polarity)] of the If statements enclosing `stmt` below `root`, plus the negations of the early-exit
    guards that precede it: after `if c: return` the following statements run only when c is false, exactly as if
    they were the else-branch."""
    conds = []
    child = stmt
    p = mod.parent.get(stmt)
    while p is not None:
        # early-exit guards among the preceding siblings of `child`
        for lst in _sibling_lists(p):
            idx = next((i for i, x in enumerate(lst) if x is child), None)
            if idx is None:
                continue
            for prev in lst[:idx]:
                if isinstance(prev, ast.If):
                    if _always_leaves(prev.body) and not _always_leaves(prev.orelse):
                        conds.append(_positive(prev.test, False))
                    elif prev.orelse and _always_leaves(prev.orelse) and not _always_leaves(prev.body):
                        conds.append(_positive(prev.test, True))
        if p is root:
            break
        if isinstance(p, ast.If):
            if any(child is s for s in p.body):
                conds.append(_positive(p.test, True))
            elif any(child is s for s in p.orelse):
                conds.append(_positive(p.test, False))
        elif isinstance(p, ast.IfExp):
            if child is p.body:
                conds.append(_positive(p.test, True))
            elif child is p.orelse:
                conds.append(_positive(p.test, False))
        child = p
        p = mod.parent.get(p)
    return conds



# ------------------------------------------------------------------------------------------------ guarded values
def cond_key(t, pol):
    """Canonical key of one path condition.  `x`, `x is not None` (and their negations) are the same question
    ('is x set') for the rules that use this."""
    t, pol = _positive(t, pol)
    if isinstance(t, ast.Name):
        return (f"set:{t.id}", pol)
    if isinstance(t, ast.Compare) and len(t.ops) == 1 and isinstance(t.ops[0], ast.Is) and isinstance(t.left, ast.Name) \
            and isinstance(t.comparators[0], ast.Constant) and t.comparators[0].value is None:
        return (f"set:{t.left.id}", not pol)
    return (norm(t), pol)


def about(conds, *names):
    """The conditions that mention one of the given variables (validation guards that left the function earlier - the
    early-exit negations collected by path_condition - are common to everything that follows and say nothing here)."""
    import re as _re
    return frozenset((k, pol) for k, pol in conds if any(_re.search(rf"\b{_re.escape(nm)}\b", k) for nm in names))


def split_conditional(expr, conds=()):
    """[(conditions, leaf expression)] of a (possibly nested) conditional expression."""
    if isinstance(expr, ast.IfExp):
        return split_conditional(expr.body, conds + (cond_key(expr.test, True),)) + \
            split_conditional(expr.orelse, conds + (cond_key(expr.test, False),))
    return [(frozenset(conds), expr)]


def guarded_returns(f, expand=True):
    """What the function returns under which conditions: [(frozenset of condition keys, expression | None)], the same for
    `if c: return a` / `return a if c else b` / `r = a if c else b; return r`."""
    from ..astq import expand_locals
    out = []
    for n in f.own_nodes():
        if isinstance(n, ast.Return):
            base = tuple(cond_key(t, pol) for t, pol in path_condition(f.module, n, f.node))
            if n.value is None:
                out.append((frozenset(base), None))
                continue
            v = n.value
            if expand and isinstance(v, ast.Name):
                # a result variable assigned on several branches: one guarded value per assignment
                asg = [a for a in f.own_nodes() if isinstance(a, ast.Assign) and len(a.targets) == 1 and is_name(a.targets[0], v.id)]
                if asg and v.id not in f.params and len(asg) == len(f.bindings.get(v.id, [])):
                    for a in asg:
                        ab = tuple(cond_key(t, pol) for t, pol in path_condition(f.module, a, f.node))
                        out += split_conditional(a.value, base + ab)
                    continue
            out += split_conditional(expand_locals(f, v) if expand else v, base)
    return out


def guarded_assigns(f, name):
    """[(conditions, expression)] over all plain assignments `name = ...` in f (conditional expressions split)."""
    out = []
    for a in f.own_nodes():
        if isinstance(a, ast.Assign) and len(a.targets) == 1 and is_name(a.targets[0], name):
            base = tuple(cond_key(t, pol) for t, pol in path_condition(f.module, a, f.node))
            out += split_conditional(a.value, base)
    return out


def cond_set(conds, name):
    """Do the path conditions say that variable `name` is set (truthy / not None)?"""
    return any((norm(t) == name and pol) or (norm(t) == f"{name} is None" and not pol) for t, pol in conds)


_NEG = {ast.IsNot: ast.Is, ast.NotEq: ast.Eq, ast.NotIn: ast.In}


def _positive(test, pol):
    """Normalise a guard to positive form: strip `not`, turn `is not`/`!=`/`not in` into their positive operator,
    flipping the polarity, so `if not c: A else: B` and `if c: B else: A` give the same condition."""
    while isinstance(test, ast.UnaryOp) and isinstance(test.op, ast.Not):
        test, pol = test.operand, not pol
    if isinstance(test, ast.Compare) and len(test.ops) == 1 and type(test.ops[0]) in _NEG:
        test = ast.Compare(left=test.left, ops=[_NEG[type(test.ops[0])]()], comparators=test.comparators)
        pol = not pol
    return (test, pol)


def analyse_prep(m, prep):
    """Classification of the nodes by the preparation function.
    -> dict(ret=[local names returned, in order], sinks={local: (stmt, guards, kind, stored expr)}, cvar=<count variable>,
            count_expr=<expression computing the count>, all_nodes=bool, skips=bool)
    Two spellings are understood: one loop over the nodes with guarded append/add/subscript-store, or a count table
    built first and one filtering comprehension per class."""
    mod = prep.module
    rets = [n for n in prep.own_nodes() if isinstance(n, ast.Return) and n.value is not None]
    if len(rets) != 1:
        raise AnalysisError(f"{prep.qualname}: expected a single return")
    rv = rets[0].value
    elts = rv.args if isinstance(rv, ast.Call) and not rv.keywords else rv.elts if isinstance(rv, ast.Tuple) else None
    if elts is None and isinstance(rv, ast.Call) and rv.keywords and not rv.args and all(k.arg for k in rv.keywords):
        # NamedTuple(field=..., ...): positional order is the order of the class's fields
        order = None
        for o in m.origins_of(prep, rv.func):
            if o[0] == "class":
                order = [st.target.id for st in o[1].node.body if isinstance(st, ast.AnnAssign) and isinstance(st.target, ast.Name)]
        kw = {k.arg: k.value for k in rv.keywords}
        if order is None or set(order) != set(kw):
            raise AnalysisError(f"{prep.qualname}: cannot order the keyword fields of the returned record")
        elts = [kw[x] for x in order]
    if elts is None:
        raise AnalysisError(f"{prep.qualname}: return value is not a tuple")
    ret, inline = [], {}
    for i, a in enumerate(elts):
        if isinstance(a, ast.Name):
            ret.append(a.id)
        elif isinstance(a, (ast.ListComp, ast.SetComp, ast.DictComp)):
            ret.append(f"#{i}")
            inline[f"#{i}"] = a
        else:
            raise AnalysisError(f"{prep.qualname}: return value is not a tuple of local names / comprehensions")
    info = {"ret": ret, "sinks": {}, "cvar": None, "count_expr": None, "all_nodes": False, "skips": False}
    gparam = prep.pos_params[0]

    def universe(it):
        return norm(it) in (gparam, f"{gparam}.nodes", f"{gparam}.nodes()")
    # (1) loop spelling
    for n in prep.own_nodes():
        tgt = None
        if isinstance(n, ast.Expr) and isinstance(n.value, ast.Call) and isinstance(n.value.func, ast.Attribute) \
                and isinstance(n.value.func.value, ast.Name) and n.value.func.value.id in ret and n.value.func.attr in ("append", "add"):
            tgt, kind, stored = n.value.func.value.id, n.value.func.attr, None
        elif isinstance(n, ast.Assign) and isinstance(n.targets[0], ast.Subscript) and isinstance(n.targets[0].value, ast.Name) \
                and n.targets[0].value.id in ret:
            tgt, kind, stored = n.targets[0].value.id, "store", n.value
        if tgt is None:
            continue
        if tgt in info["sinks"]:
            raise AnalysisError(f"{prep.qualname}: container {tgt} is filled at more than one site")
        fors = [p for p in prep.own_nodes() if isinstance(p, ast.For) and inside(mod, n, p)]
        if len(fors) != 1:
            raise AnalysisError(f"{prep.qualname}: container {tgt} is not filled in a single loop")
        info["sinks"][tgt] = (n, path_condition(mod, n, fors[0]), kind, stored, fors[0])
    if info["sinks"]:
        loops = {id(v[4]) for v in info["sinks"].values()}
        if len(loops) != 1:
            raise AnalysisError(f"{prep.qualname}: the classes are filled in different loops")
        loop = next(iter(info["sinks"].values()))[4]
        info["all_nodes"] = universe(loop.iter)
        info["skips"] = any(isinstance(x, (ast.Continue, ast.Break)) for x in ast.walk(loop))
        stores = [v for v in info["sinks"].values() if v[2] == "store"]
        if len(stores) != 1 or not isinstance(stores[0][3], ast.Name):
            raise AnalysisError(f"{prep.qualname}: the count table is not filled by exactly one subscript store of a local count")
        info["cvar"] = stores[0][3].id
        cbs = [b for b in prep.bindings.get(info["cvar"], []) if b[0] == "assign"]
        if len(cbs) != 1:
            raise AnalysisError(f"{prep.qualname}: count variable {info['cvar']} must be assigned exactly once")
        info["count_expr"] = cbs[0][1]
        info["sinks"] = {k: (v[0], v[1], v[2], v[3]) for k, v in info["sinks"].items()}
        return info
    # (2) comprehension spelling: counts = {n: COUNT(n) for n in G}; X = [n for n, c in counts.items() if GUARD(c)] ...
    table = None
    for nm, bs in prep.bindings.items():
        for b in bs:
            if b[0] == "assign" and isinstance(b[1], ast.DictComp) and len(b[1].generators) == 1 and universe(b[1].generators[0].iter) \
                    and not b[1].generators[0].ifs and norm(b[1].key) == norm(b[1].generators[0].target):
                table = (nm, b[1])
    if table is None:
        raise AnalysisError(f"{prep.qualname}: cannot identify how the nodes are classified by predecessor count")
    tname, tcomp = table
    if len([b for b in prep.bindings.get(tname, [])]) != 1:
        raise AnalysisError(f"{prep.qualname}: count table {tname} is rebound")
    info["all_nodes"] = True
    info["count_expr"] = tcomp.value
    info["cvar"] = "<count>"
    for nm in ret:
        if nm in inline:
            bs = [("assign", inline[nm], ())]
        else:
            bs = [b for b in prep.bindings.get(nm, []) if b[0] == "assign"]
            if len(bs) != 1 or len(prep.bindings.get(nm, [])) != 1:
                raise AnalysisError(f"{prep.qualname}: container {nm} is not built by one comprehension")
        comp = bs[0][1]
        if not isinstance(comp, (ast.ListComp, ast.SetComp, ast.DictComp)) or len(comp.generators) != 1:
            raise AnalysisError(f"{prep.qualname}: container {nm} is not built by one comprehension")
        gen = comp.generators[0]
        if not (norm(gen.iter) == f"{tname}.items()" and isinstance(gen.target, ast.Tuple) and len(gen.target.elts) == 2
                and all(isinstance(x, ast.Name) for x in gen.target.elts)):
            raise AnalysisError(f"{prep.qualname}: container {nm} does not range over the count table's items")
        nv, cv = gen.target.elts[0].id, gen.target.elts[1].id
        if isinstance(comp, ast.DictComp):
            okshape = is_name(comp.key, nv) and is_name(comp.value, cv)
            kind = "store"
        else:
            okshape = is_name(comp.elt, nv)
            kind = "append" if isinstance(comp, ast.ListComp) else "add"
        if not okshape:
            raise AnalysisError(f"{prep.qualname}: container {nm} does not collect the nodes themselves")
        # rename the count variable of this comprehension to the common name used by the guard evaluator
        guards = [(_rename(t, cv, "<count>"), pol) for t, pol in (_positive(c_, True) for c_ in gen.ifs)]
        info["sinks"][nm] = (bs[0][1], guards, kind, ast.Name(id="<count>", ctx=ast.Load()))
    return info


def _rename(test, old, new):
    import copy
    t = copy.deepcopy(test)
    for n in ast.walk(t):
        if isinstance(n, ast.Name) and n.id == old:
            n.id = new
    return t


def prep_classes(m, prep):
    """-> (info, {local name: 'initial' | 'single' | 'count'}, {local name: [counts 0..5 for which it is filled]})"""
    info = analyse_prep(m, prep)
    tables, roles = {}, {}
    for nm, (st, conds, kind, stored) in info["sinks"].items():
        tb = []
        for c in range(0, 6):
            v = True
            for t, pol in conds:
                ev = _eval_guard(t, info["cvar"], c)
                if ev is None:
                    raise AnalysisError(f"{prep.qualname}: guard `{norm(t)}` is outside the guard language")
                v = v and (ev if pol else not ev)
            if v:
                tb.append(c)
        tables[nm] = tb
        if tb == [0]:
            roles[nm] = "initial"
        elif tb == [1] and kind != "store":
            roles[nm] = "single"
        elif kind == "store":
            roles[nm] = "count"
        else:
            roles[nm] = "?"
    return info, roles, tables


def rule_counting_agreement(ctx, rid, r, rid_initial=None):
    m = ctx.model
    if not r.prep_located:
        return evaluated_instead(ctx, rid, r, "counting-agreement", ("once", "order", "complete"))
    prep = r.prep
    info, roles, tables = prep_classes(m, prep)
    ret = info["ret"]
    count_local = ret[r.count_index]
    cls_prep = classify_pred_count(m, prep, info["count_expr"])
    # successor loop in the callback
    loops = [n for n in r.nodecb.own_nodes() if isinstance(n, ast.For) and any(
        isinstance(x, ast.AugAssign) and x in r.decs for x in ast.walk(n))]
    loops = [n for n in loops if not any(n2 is not n and inside(r.nodecb.module, n2, n) for n2 in loops)]
    if len(loops) != 1:
        raise AnalysisError(f"{r.nodecb.qualname}: expected one loop containing the decrement")
    succ_loop = loops[0]
    cls_cb = classify_neighbor_iter(m, r.nodecb, succ_loop.iter, "succ")
    if cls_prep is None:
        raise AnalysisError(f"{prep.qualname}: predecessor-count expression `{norm(info['count_expr'])}` is not in the networkx API table")
    if cls_cb is None:
        raise AnalysisError(f"{r.nodecb.qualname}: successor iteration `{norm(succ_loop.iter)}` is not in the networkx API table")
    ctx.trust("networkx MultiDiGraph: G.pred[n], G.succ[n], predecessors(n), successors(n) enumerate distinct "
              "neighbours; in_edges/out_edges/in_degree/out_degree enumerate per parallel edge")
    ok = cls_prep == cls_cb
    ctx.ob(rid, f"{prep.short}~{r.nodecb.short}/counting-class", ok, loc(r.nodecb, succ_loop),
           f"count is {cls_prep} (`{norm(info['count_expr'])}`), decrement loop is {cls_cb} (`{norm(succ_loop.iter)}`)" +
           ("" if ok else ": with parallel edges the counter is decremented a different number of times than it "
                          "was initialised with (early start or a node that never becomes ready)"),
           f"for {norm(succ_loop.target)} in {norm(succ_loop.iter)}")
    # exact partition over the count: {0} initial, optionally {1} enqueued directly by the single parent, the rest counted
    has_single = r.single_index is not None
    want = {"initial": [0], "single": [1], "count": [2, 3, 4, 5] if has_single else [1, 2, 3, 4, 5]}
    label = {"initial": "== 0", "single": "== 1", "count": ">= 2" if has_single else ">= 1"}
    by_index = {r.initial_index: "initial", r.count_index: "count"}
    if has_single:
        by_index[r.single_index] = "single"
    for idx, role in by_index.items():
        nm = ret[idx]
        if nm not in info["sinks"]:
            raise AnalysisError(f"{prep.qualname}: container {nm} must be filled at exactly one site")
        st = info["sinks"][nm][0]
        tb = tables[nm]
        ok = tb == want[role]
        target = rid_initial if (role == "initial" and rid_initial) else rid
        ctx.ob(target, f"{prep.short}/{nm}-guard", ok, loc(prep, st),
               f"{nm} receives exactly the nodes with count {label[role]}" if ok else
               f"{nm} is filled for counts {tb} (expected {{{', '.join(map(str, want[role][:2]))}{',...' if role == 'count' else ''}}}): "
               f"a node lands in two classes or in none", head(st))
    extra = [nm for nm in info["sinks"] if nm not in [ret[i] for i in by_index]]
    ctx.ob(rid, f"{prep.short}/no-other-class", not extra, loc(prep), "every node falls in one of the classes the engine uses" if not extra else
           f"nodes are also sorted into {extra}, which the engine does not consume")
    # the classification ranges over every node
    ctx.ob(rid, f"{prep.short}/all-nodes", info["all_nodes"], loc(prep), "classification loop ranges over all nodes of the graph" if info["all_nodes"]
           else "classification loop does not range over all nodes")
    ctx.ob(rid, f"{prep.short}/no-skip", not info["skips"], loc(prep), "no continue/break in the classification loop"
           if not info["skips"] else "continue/break in the classification loop can leave a node unclassified")
    # dispatch in the callback
    mod_cb = r.nodecb.module
    lockws = lock_withs(m, r.nodecb)
    loop_puts = [c for c in put_sites(m, r.nodecb, r) if inside(mod_cb, c, succ_loop)]
    direct_puts = [c for c in loop_puts if not any(inside(mod_cb, c, w) for w, _ in lockws)]
    if has_single:
        single_name = r.prep_names.get(r.single_index)
        member = f"{norm(succ_loop.target)} in {single_name}"

        def side(node):
            cs = [pol for t, pol in path_condition(mod_cb, node, succ_loop) if norm(t) == member]
            return cs[0] if len(cs) == 1 else None
        # every enqueue and every decrement in the loop sits on one side of the membership test: exactly one enqueue on the
        # single-parent side (unconditional there), the decrements and every other enqueue on the counter side
        sides = [side(stmt_of(mod_cb, c)) for c in loop_puts]
        singles = [c for c, sd in zip(loop_puts, sides) if sd is True]
        ok = None not in sides and len(singles) == 1 and len(path_condition(mod_cb, stmt_of(mod_cb, singles[0]), succ_loop)) == 1 \
            and all(side(d) is False for d in r.decs) and len(loop_puts) >= 2
        ctx.ob(rid, f"{r.nodecb.short}/single-parent-dispatch", ok, loc(r.nodecb, succ_loop),
               "successors in the single-parent set are enqueued directly, all others go through the counter" if ok else
               "successor dispatch is not `if successor in <single-parent set> ... else <counter>`", head(succ_loop))
    else:
        ok = not direct_puts and all(not path_condition(mod_cb, d, succ_loop) for d in r.decs)
        ctx.ob(rid, f"{r.nodecb.short}/single-parent-dispatch", ok, loc(r.nodecb, succ_loop),
               "every successor goes through the counter (no single-parent class)" if ok else
               "a successor is enqueued without going through its counter although there is no single-parent class", head(succ_loop))


def prep_indices(m, r):
    """Which element of PREP's result is the initial list / single-parent set (optional) / count table."""
    prep = r.prep
    info, roles, tables = prep_classes(m, prep)
    r.initial_index = r.single_index = None
    for i, a in enumerate(info["ret"]):
        if roles.get(a) == "initial":
            r.initial_index = i
        elif roles.get(a) == "single":
            r.single_index = i
    if r.initial_index is None:
        # fall back on how the container is filled, so that a wrong guard is reported as a violation by the rule
        for i, a in enumerate(info["ret"]):
            if a in info["sinks"] and info["sinks"][a][2] == "append" and i != r.count_index:
                r.initial_index = i
    if r.single_index is None:
        for i, a in enumerate(info["ret"]):
            if a in info["sinks"] and info["sinks"][a][2] == "add" and i not in (r.count_index, r.initial_index):
                r.single_index = i
    if r.initial_index is None:
        raise AnalysisError(f"{prep.qualname}: cannot identify the list of initially ready nodes")
    r.prep_names_index = lambda what: {"initial": r.initial_index, "single": r.single_index, "count": r.count_index}[what]


def rule_initial_ready_set(ctx, rid, r):
    """The queue factory is seeded with the element of PREP's result that holds the zero-predecessor nodes."""
    m = ctx.model
    e = r.engine
    if not r.prep_located:
        return evaluated_instead(ctx, rid, r, "initial-ready-set", ("order", "complete"))
    init_name = r.prep_names.get(r.initial_index)
    call = r.queue_factory_call
    used = [a for a in call.args if is_name(a, init_name)] + [k.value for k in call.keywords if is_name(k.value, init_name)]
    ok = len(used) == 1
    ctx.ob(rid, f"{e.short}/queue-seed", ok, loc(e, call),
           f"queue seeded with {init_name} = the zero-predecessor nodes" if ok else
           "the queue is not seeded with the zero-predecessor list of the preparation step", norm(call))
    # in the factory the seed parameter flows to every queue constructor unchanged
    qf = r.queue_factory
    idx = None
    for i, a in enumerate(call.args):
        if is_name(a, init_name):
            idx = i
    if idx is not None and idx < len(qf.pos_params):
        p = qf.pos_params[idx]
        n_ctor = 0
        for c in qf.own_calls():
            tg = m.callee_origins(qf, c)
            if any(o[0] == "class" and o[1] in r.queue_classes for o in tg) or any(
                    o[0] in ("func",) and o[1].module is qf.module and "queue" in o[1].name.lower() for o in tg):
                n_ctor += 1
                a0 = c.args[0] if c.args else None
                # the seed itself, or an order/multiset-preserving container built from it (deque(seed), list(seed), tuple(seed))
                while isinstance(a0, ast.Call) and len(a0.args) == 1 and not a0.keywords and \
                        norm(a0.func).split(".")[-1] in ("deque", "list", "tuple") and not m.callee_funcs(qf, a0):
                    a0 = a0.args[0]
                ok = a0 is not None and is_name(a0, p)
                ctx.ob(rid, f"{qf.short}/seed-forwarded", ok, loc(qf, c),
                       "initial items forwarded to the queue constructor" if ok else
                       "queue constructed without the initial items", norm(c))
        ctx.floor(rid, "queue constructions in the factory", n_ctor, 3)


# ------------------------------------------------------------------------------------------------ A5 / D4 / L5
def rule_queue_effects(ctx, rid, r, rid_seed=None, rid_unbounded=None):
    """Every queue kind, interpreted by the checker's AST evaluator on token queues of size 0..3 with every outcome
    of random.randrange enumerated: _put adds exactly the item (multiset), _get removes exactly what it returns,
    _qsize is the number of stored items; constructions seed unfinished_tasks and are unbounded."""
    from ..absval import AbsRaise, Interp, Obj, Stub
    m = ctx.model
    ctx.trust("queue.Queue: put/get/task_done/join are atomic under Queue.mutex and delegate storage to "
              "_put/_get/_qsize; put never blocks when maxsize <= 0; join returns when unfinished_tasks reaches 0")
    ctx.floor(rid, "Queue subclasses", len(r.queue_classes), 2)
    rid_seed = rid_seed or rid
    rid_unbounded = rid_unbounded or rid
    n_eval = 0

    def run_with_choices(fn):
        """Run fn(choose) for every sequence of outcomes of the nondeterministic choice points."""
        results = []
        pending = [[]]
        while pending:
            prefix = pending.pop()
            trace = []

            def choose(n, prefix=prefix, trace=trace):
                k = len(trace)
                if n <= 0:
                    raise AbsRaise("ValueError: empty range")
                v = prefix[k] if k < len(prefix) else 0
                trace.append((v, n))
                return v
            out = fn(choose)
            results.append(out)
            # schedule siblings of the choices made beyond the prefix
            for k in range(len(prefix), len(trace)):
                v, n = trace[k]
                for alt in range(1, n):
                    pending.append([t[0] for t in trace[:k]] + [alt])
            if len(results) > 2000:
                raise AnalysisError("queue effect evaluation: too many nondeterministic outcomes")
        return results

    def value_of(x):
        return x.attrs.get("value", x) if isinstance(x, Obj) and x.cls is not None and "value" in x.attrs and "key" in x.attrs else x

    # only classes that are actually constructed matter (a shared base class of the queue kinds is not a queue kind)
    constructed = set()
    deque_seeded = set()  # classes whose constructor is handed a deque at some construction site
    for f_ in m.funcs.values():
        for c_ in f_.own_calls():
            for o in m.callee_origins(f_, c_):
                if o[0] == "class":
                    constructed.add(o[1])
                    if c_.args and isinstance(c_.args[0], ast.Call) and norm(c_.args[0].func).split(".")[-1] == "deque":
                        deque_seeded.add(o[1])
    for cls in r.queue_classes:
        if cls not in constructed and any(cls in c2.repo_mro() for c2 in r.queue_classes if c2 is not cls):
            continue
        meth = {}
        for need_m in ("_put", "_get", "_qsize", "__init__"):
            got = cls.lookup(need_m)
            meth[need_m] = got if isinstance(got, Func) else None
        if meth["__init__"] is None:
            raise AnalysisError(f"{cls.qualname}: missing __init__")
        bad_put, bad_get, bad_size, bad_seed = [], [], [], []
        for size in range(0, 4):
            tokens = [f"t{i}" for i in range(size)]

            def scenario(choose, tokens=tokens):
                ext = {"random.randrange": lambda n, *a: choose(n), "random.shuffle": lambda lst: None,
                       "random.randint": lambda a_, b_: a_ + choose(b_ - a_ + 1), "random.random": lambda: 0.5,
                       "heapq.heapify": lambda lst: None, "heapq.heappush": lambda lst, x: lst.append(x),
                       "heapq.heappop": lambda lst: lst.pop(0)}
                it = Interp(m, ext=ext)
                q = Obj(cls, {"unfinished_tasks": 0})
                init = meth["__init__"]
                import collections as _c
                first = _c.deque(tokens) if cls in deque_seeded else list(tokens)
                args = [first] + ([Stub("priority", lambda node: 0)] if len(init.pos_params) > 2 else [])
                it.call_func(init, None, args, {}, bound_self=q)

                # methods the class does not override behave as in queue.Queue (append / popleft / len on self.queue)
                def run_m(name, *a):
                    if meth[name] is not None:
                        return it.call_func(meth[name], None, list(a), {}, bound_self=q)
                    cont = q.attrs["queue"]
                    try:
                        if name == "_put":
                            return cont.append(a[0])
                        if name == "_get":
                            return cont.popleft()
                        return len(cont)
                    except AttributeError as ex:
                        raise AbsRaise(f"AttributeError: {ex}")
                seeded = [value_of(x) for x in q.attrs.get("queue", [])]
                ut = q.attrs.get("unfinished_tasks")
                size_before = run_m("_qsize")
                run_m("_put", "NEW")
                after_put = [value_of(x) for x in q.attrs["queue"]]
                size_after = run_m("_qsize")
                got = run_m("_get")
                after_get = [value_of(x) for x in q.attrs["queue"]]
                return seeded, ut, size_before, after_put, size_after, got, after_get
            try:
                outs = run_with_choices(scenario)
            except AbsRaise as e:
                raise AnalysisError(f"{cls.qualname}: abstract evaluation raised {e.value!r}")
            for seeded, ut, sb, ap, sa, got, ag in outs:
                n_eval += 1
                if sorted(seeded) != sorted(tokens) or ut != len(tokens):
                    bad_seed.append((tokens, seeded, ut))
                if sorted(ap) != sorted(tokens + ["NEW"]):
                    bad_put.append((tokens, ap))
                if sb != len(tokens) or sa != len(ap):
                    bad_size.append((tokens, sb, sa))
                if sorted(ag + [got]) != sorted(ap) or len(ag) != len(ap) - 1:
                    bad_get.append((ap, got, ag))
        f = meth["_put"] or meth["__init__"]
        ctx.ob(rid, f"{f.short}/adds-item-once", not bad_put, loc(f),
               "net effect of _put on every evaluated queue state and random outcome: + exactly the item" if not bad_put else
               f"_put loses or duplicates nodes: queue {bad_put[0][0]} + NEW -> {bad_put[0][1]}")
        f = meth["_get"] or meth["__init__"]
        ctx.ob(rid, f"{f.short}/removes-what-it-returns", not bad_get, loc(f),
               "_get removes exactly the element it returns" if not bad_get else
               f"_get does not remove exactly what it returns: {bad_get[0][0]} -> returned {bad_get[0][1]!r}, left {bad_get[0][2]}")
        f = meth["_qsize"] or meth["__init__"]
        ctx.ob(rid, f"{f.short}/size", not bad_size, loc(f), "_qsize is the number of stored items" if not bad_size else
               f"_qsize disagrees with the container: {bad_size[0]}")
        f = meth["__init__"]
        ctx.ob(rid_seed, f"{f.short}/seeded-unfinished-tasks", not bad_seed, loc(f),
               "the constructor stores every initial item once and seeds unfinished_tasks with their number" if not bad_seed else
               f"constructor seeding is wrong: items {bad_seed[0][0]} -> stored {bad_seed[0][1]}, unfinished_tasks={bad_seed[0][2]} "
               f"(join() returns before the seeded nodes ran, or task_done() raises)")
        for n in f.own_nodes():
            if isinstance(n, ast.Call) and isinstance(n.func, ast.Attribute) and n.func.attr == "__init__":
                # only a call that reaches queue.Queue.__init__ itself sets maxsize; with a repo base class in between the
                # arguments are that class's own (its constructor is examined in turn)
                owner = f.cls
                mro = owner.repo_mro() if owner is not None else []
                nxt = mro[mro.index(owner) + 1:] if owner in mro else []
                if any("__init__" in c2.methods for c2 in nxt):
                    continue
                okb = not n.args and not n.keywords
                if not okb:
                    mv = const(arg(n, 0, "maxsize"))
                    okb = isinstance(mv, int) and mv <= 0 and len(n.args) + len(n.keywords) == 1
                ctx.ob(rid_unbounded, f"{f.short}/unbounded", okb, loc(f, n), "super().__init__() is unbounded" if okb else
                       "bounded queue: put() can block", norm(n))
    ctx.notes["queue_effect_cases_evaluated"] = n_eval
    # plain Queue() constructions in the scheduler module(s)
    mods = {c.module for c in r.queue_classes} | {r.queue_factory.module}
    n_plain = 0
    for f in m.funcs.values():
        if f.module not in mods or f.cls in r.queue_classes:
            continue
        for c in f.own_calls():
            if "queue.Queue" in ext_names(m, f, c):
                n_plain += 1
                okb = not c.args and not any(k.arg == "maxsize" for k in c.keywords)
                if not okb:
                    mv = const(arg(c, 0, "maxsize"))
                    okb = isinstance(mv, int) and mv <= 0
                ctx.ob(rid_unbounded, f"{f.short}/unbounded", okb, loc(f, c), "Queue() is unbounded" if okb else
                       "bounded queue: put() from a worker can block forever while every worker is blocked in put", norm(c))
                st = stmt_of(f.module, c)
                if isinstance(st, ast.Assign) and isinstance(st.targets[0], ast.Name):
                    check_seed(ctx, rid_seed, rid_unbounded, m, f, st.targets[0].id, None)
    ctx.notes["queue_kinds"] = len(r.queue_classes) + n_plain


def wraps_item(m, f, e, item):
    """Does expression `e` carry `item` (directly, or as the value field of a key/value wrapper)?"""
    if is_name(e, item):
        return True
    if isinstance(e, ast.Call):
        for o in m.callee_origins(f, e.func if False else e):
            pass
        tg = m.origins_of(f, e.func)
        for o in tg:
            if o[0] == "class":
                init = o[1].methods.get("__init__")
                if init is None:
                    continue
                ps = init.pos_params[1:]
                for i, a in enumerate(e.args):
                    if is_name(a, item) and i < len(ps):
                        # field that stores this parameter
                        for n in init.own_nodes():
                            if isinstance(n, ast.Assign) and isinstance(n.targets[0], ast.Attribute) and is_name(n.value, ps[i]):
                                o[1]._item_field = n.targets[0].attr
                                return True
    return False


def check_seed(ctx, rid_seed, rid_unbounded, m, f, recv, cls):
    """In `f`, the object named `recv` gets `.queue = <container of the initial items>` and
    `.unfinished_tasks = len(.queue)`; super().__init__() without maxsize."""
    q_assign = ut_assign = None
    for n in f.own_nodes():
        if isinstance(n, ast.Assign) and isinstance(n.targets[0], ast.Attribute) and is_name(n.targets[0].value, recv):
            if n.targets[0].attr == "queue":
                q_assign = n
            if n.targets[0].attr == "unfinished_tasks":
                ut_assign = n
        if isinstance(n, ast.Call) and isinstance(n.func, ast.Attribute) and n.func.attr == "__init__" and cls is not None:
            okb = not n.args and not n.keywords
            ctx.ob(rid_unbounded, f"{f.short}/unbounded", okb, loc(f, n), "super().__init__() is unbounded" if okb else
                   "bounded queue: put() can block", norm(n))
    if q_assign is None:
        return
    ok = ut_assign is not None and norm(ut_assign.value) in (f"len({recv}.queue)",)
    if ok:
        # order: unfinished_tasks is read from the seeded container (after it was seeded)
        ok = comes_before(f.node, q_assign, ut_assign)
    ctx.ob(rid_seed, f"{f.short}/seeded-unfinished-tasks", ok, loc(f, q_assign),
           "unfinished_tasks seeded with the number of initial items" if ok else
           "queue seeded directly but unfinished_tasks is not set to the number of seeded items: join() returns before "
           "the seeded nodes ran, or task_done() raises", norm(q_assign))
    # every initial item is kept: container built from the parameter by list()/deque()/comprehension over it
    if f.params:
        src = norm(q_assign.value)
        p_ok = any(p in names_in(q_assign.value) for p in f.params if p != recv)
        ctx.ob(rid_seed, f"{f.short}/seed-complete", p_ok, loc(f, q_assign),
               "seed container built from the initial-items parameter" if p_ok else
               f"seed container `{src}` does not derive from the initial items", norm(q_assign))


# ------------------------------------------------------------------------------------------------ queue internals (who-may-access)
def rule_queue_internals(ctx, rid, r):
    """Outside Queue subclasses' hooks and the seeding constructors, engine code uses only the public
    put/get/task_done/join API (so wake-ups and the unfinished count stay the library's business)."""
    m = ctx.model
    allowed_funcs = set()
    for cls in r.queue_classes:
        allowed_funcs |= set(cls.methods.values())
    n = 0
    for f in m.funcs.values():
        if not f.module.name.startswith("uberjob._execution"):
            continue
        for node in f.own_nodes():
            if isinstance(node, ast.Attribute) and node.attr in QUEUE_INTERNALS:
                os_ = m.origins_of(f, node.value)
                is_q = any((o[0] == "extinst" and o[1] == "queue.Queue") or (o[0] == "inst" and o[1] in r.queue_classes)
                           for o in os_)
                if not is_q:
                    continue
                n += 1
                if f in allowed_funcs:
                    continue
                # seeding pattern in a factory: `.queue = ...` / `.unfinished_tasks = len(...)` right after construction
                st = stmt_of(f.module, node)
                seeding = isinstance(st, ast.Assign) and (
                    (st.targets[0] is node and node.attr in ("queue", "unfinished_tasks")) or
                    (isinstance(st.targets[0], ast.Attribute) and st.targets[0].attr == "unfinished_tasks"
                     and node.attr == "queue"))
                in_thread_code = f in m.reachable([r.loop], kinds=("call",))
                ok = seeding and not in_thread_code
                ctx.ob(rid, f"{f.short}/queue-internal-{node.attr}", ok, loc(f, node),
                       "constructor-time seeding" if ok else
                       f"engine code touches Queue.{node.attr} directly: bypasses the put/get protocol "
                       f"(lost wake-ups, wrong unfinished count)", norm(st))
    ctx.floor(rid, "uses of Queue internals examined", n, 6)


def rule_queue_is_library_queue(ctx, rid, engine):
    """The work queue - the object the engine waits on with `.join()` and the workers `.get()` from - is a queue.Queue or a subclass
    of it that overrides nothing but the storage hooks (_init / _put / _get / _qsize) and its constructor: blocking, wake-ups and
    the unfinished-task count stay the library's.  (Role-free: runs before the role discovery, which needs such a queue.)"""
    m = ctx.model
    e = engine
    joined = [c for c in e.own_calls() if isinstance(c.func, ast.Attribute) and c.func.attr == "join" and not c.args and not c.keywords
              and isinstance(c.func.value, ast.Name)]
    qvars = set()
    for c in joined:
        os_ = m.origins_of(e, c.func.value)
        if not any(o[0] == "extinst" and o[1] == "threading.Thread" for o in os_):
            qvars.add(c.func.value.id)
    # the candidates are variables assigned from a call in the engine (the factory) - not loop variables over threads
    facts = []
    for v in sorted(qvars):
        for kind, expr, path in e.bindings.get(v, []):
            if kind == "assign" and isinstance(expr, ast.Call) and not path:
                facts.append((v, expr))
    ctx.floor(rid, "work queues the engine waits on", len(facts), 1)
    hooks = {"_init", "_put", "_get", "_qsize", "__init__"}
    for v, call in facts:
        kinds, bad = set(), []
        work, seen = list(m.callee_funcs(e, call)), set()
        while work:
            f = work.pop()
            if f in seen:
                continue
            seen.add(f)
            for n in f.own_nodes():
                if isinstance(n, ast.Return) and n.value is not None:
                    for o in m.origins_of(f, n.value):
                        if o[0] == "extinst":
                            kinds.add(o[1])
                            if o[1] != "queue.Queue":
                                bad.append(f"{f.short} returns a {o[1]}")
                        elif o[0] == "inst":
                            cls = o[1]
                            kinds.add(cls.name)
                            if "queue.Queue" not in cls.ext_bases():
                                bad.append(f"{cls.name} is not a queue.Queue: it re-implements put / get / task_done / join itself")
                            else:
                                import queue as _q
                                extra = sorted(({nm for k in cls.repo_mro() for nm in k.methods} & set(dir(_q.Queue))) - hooks)
                                if extra:
                                    bad.append(f"{cls.name} overrides {extra} of queue.Queue")
                        elif o[0] in ("func",):
                            work.append(o[1])
            for c2 in f.own_calls():
                work.extend(g for g in m.callee_funcs(f, c2) if g.cls is None and g.module is f.module)
        ok = bool(kinds) and not bad
        ctx.ob(rid, f"{e.short}/{v}-is-a-library-queue", ok, loc(e, call),
               f"the work queue is a queue.Queue or a subclass that overrides only the storage hooks ({sorted(kinds)})" if ok else
               ("; ".join(sorted(set(bad))[:3]) if bad else "the class of the work queue could not be determined") +
               ": the blocking / wake-up / unfinished-count protocol on which `queue.join()` returning means 'every item was processed' is no longer the library's",
               norm(call)[:80])


# ------------------------------------------------------------------------------------------------ C04.D2

def sentinel_branches(m, lp, g, r, item):
    """CFG entry nodes of the branch taken when the dequeued item IS the sentinel / is not, for the identity test in
    the worker loop.  -> (test statement, [sentinel-branch nodes], [other-branch nodes]) or (None, [], [])"""
    tests = []
    for n in lp.own_nodes():
        if isinstance(n, ast.If):
            t, pol = _positive(n.test, True)
            if isinstance(t, ast.Compare) and len(t.ops) == 1 and isinstance(t.ops[0], ast.Is) and item is not None \
                    and {norm(t.left), norm(t.comparators[0])} == {item, r.sentinel}:
                tests.append((n, pol))
    if not tests:
        # the test may be kept in a flag: `released = item is DONE` ... `if not released:` / `while not released`
        flagged = []
        for n in lp.own_nodes():
            if isinstance(n, ast.Assign) and len(n.targets) == 1 and isinstance(n.targets[0], ast.Name):
                t, pol = _positive(n.value, True)
                if isinstance(t, ast.Compare) and len(t.ops) == 1 and isinstance(t.ops[0], ast.Is) and item is not None \
                        and {norm(t.left), norm(t.comparators[0])} == {item, r.sentinel} and n.targets[0].id in getattr(g, "flags_refined", ()):
                    flagged.append((n, pol))
        if len(flagged) != 1:
            return None, [], []
        n, pol = flagged[0]
        fl = n.targets[0].id
        s_nodes, o_nodes = [], []
        for an in g.of(n):
            for b, lab in g.succ[an]:
                if lab == "n" and b.val is not None:
                    (s_nodes if b.val.get(fl) == pol else o_nodes).append(b)
        return n, s_nodes, o_nodes
    if len(tests) != 1:
        return None, [], []
    n, pol = tests[0]
    s_nodes, o_nodes = [], []
    for tn in g.of(n):
        for b, lab in g.succ[tn]:
            if lab == ("t" if pol else "f"):
                s_nodes.append(b)
            elif lab == ("f" if pol else "t"):
                o_nodes.append(b)
    return n, s_nodes, o_nodes

def rule_one_callback_per_dequeue(ctx, rid, r):
    m = ctx.model
    lp = r.loop
    gets = [c for c in lp.own_calls() if ext_names(m, lp, c) & GET]
    ctx.ob(rid, f"{lp.short}/one-get", len(gets) == 1, loc(lp), f"{len(gets)} dequeue site(s) in the worker loop")
    calls = r.item_calls
    ok = len(calls) == 1
    ctx.ob(rid, f"{lp.short}/one-callback-site", ok, loc(lp), "one call of the node callback per loop iteration" if ok
           else f"{len(calls)} call sites of the node callback in the worker loop (a node can be processed twice)")
    if not ok or len(gets) != 1:
        return
    call = calls[0]
    mod = lp.module
    loops = [p for p in ast.walk(lp.node) if isinstance(p, (ast.For, ast.While)) and inside(mod, call, p)]
    gloops = [p for p in ast.walk(lp.node) if isinstance(p, (ast.For, ast.While)) and inside(mod, gets[0], p)]
    ok = loops == gloops
    ctx.ob(rid, f"{lp.short}/no-inner-loop", ok, loc(lp, call),
           "the callback is not wrapped in an additional loop" if ok else
           "the callback sits in an extra loop (retry-on-error in the worker runs a node more than once)",
           norm(stmt_of(mod, call)))
    # argument is the dequeued item
    gs = stmt_of(mod, gets[0])
    item = gs.targets[0].id if isinstance(gs, ast.Assign) and isinstance(gs.targets[0], ast.Name) else None
    ok = item is not None and len(call.args) == 1 and is_name(call.args[0], item)
    ctx.ob(rid, f"{lp.short}/callback-gets-item", ok, loc(lp, call), "callback receives the dequeued item" if ok else
           "callback argument is not the dequeued item", norm(call))
    # sentinel path does not call the callback: from the branch taken for the sentinel the callback is unreachable
    # (until the next dequeue), and the callback is only reached through that identity test
    g = CFG(lp, may_raise=any_call_may_raise)
    cn = g.of(stmt_of(mod, call))
    gnodes = {x for c_ in gets for x in g.of(stmt_of(mod, c_))}
    tst, s_nodes, o_nodes = sentinel_branches(m, lp, g, r, item)
    ok = tst is not None and bool(s_nodes) and all(g.dominates(set(g.of(tst)), c) for c in cn) \
        and not ((set(s_nodes) | g.reach(s_nodes, avoid=gnodes)) & set(cn))
    ctx.ob(rid, f"{lp.short}/sentinel-skips-callback", ok, loc(lp), "identity test against the sentinel returns before the callback"
           if ok else "the sentinel can reach the node callback or is not compared by identity")
    # handlers in the loop must not re-run the callback
    for h in [n for n in lp.own_nodes() if isinstance(n, ast.ExceptHandler)]:
        again = [c for c in ast.walk(h) if isinstance(c, ast.Call) and c in calls]
        ctx.ob(rid, f"{lp.short}/no-rerun-in-handler", not again, loc(lp, h), "handler does not re-run the callback"
               if not again else "handler calls the node callback again", head(h))


# ------------------------------------------------------------------------------------------------ C06.X2 / C07.L2
def rule_catch_all(ctx, rid, r):
    cb = r.nodecb
    t = r.try_stmt
    ust = stmt_of(cb.module, r.usercall)
    if t is None:
        ctx.ob(rid, f"{cb.short}/user-call-protected", False, loc(cb, r.usercall),
               "the user call is not inside a try statement: a failing call kills the worker thread", norm(ust))
        return
    catch_all = [h for h in t.handlers if handler_catches_all(h)]
    ok = bool(catch_all)
    ctx.ob(rid, f"{cb.short}/catch-all", ok, loc(cb, t.handlers[0] if t.handlers else t),
           "handler catches BaseException" if ok else
           f"handler catches only {[handler_classes(h) for h in t.handlers]}: SystemExit/KeyboardInterrupt/custom "
           f"BaseException raised by a call escape, the worker dies without recording the failure (run returns normally "
           f"or hangs)", head(t.handlers[0]) if t.handlers else "try")
    for h in t.handlers:
        raises = [n for n in ast.walk(h) if isinstance(n, ast.Raise)]
        ctx.ob(rid, f"{cb.short}/handler-no-raise", not raises, loc(cb, h),
               "handler records and returns" if not raises else "handler re-raises inside the worker thread", head(h))
    # earlier, narrower handlers must not divert exceptions around the recording handler
    if catch_all and t.handlers[0] is not catch_all[0]:
        ctx.ob(rid, f"{cb.short}/handler-order", False, loc(cb, t.handlers[0]),
               "a narrower handler precedes the catch-all one", head(t.handlers[0]))


# ------------------------------------------------------------------------------------------------ C06.X3
def rule_first_error(ctx, rid, r):
    m = ctx.model
    cb, e = r.nodecb, r.engine
    mod = cb.module
    locks = lock_withs(m, cb)
    assigns = [n for n in cb.own_nodes() if isinstance(n, ast.Assign) and any(is_name(t, r.firsterr) for t in n.targets)]
    ctx.floor(rid, "assignments of the first-error cell in the node callback", len(assigns), 1)
    t = r.try_stmt
    for a in assigns:
        w = [w for w, _ in locks if inside(mod, a, w)]
        ok = bool(w)
        ctx.ob(rid, f"{cb.short}/{r.firsterr}-under-lock", ok, loc(cb, a), "assignment inside the failure-lock region" if ok
               else "first-error cell assigned outside any lock", norm(a))
        conds = path_condition(mod, a, cb.node)
        guarded = any(norm(tst) == f"not {r.firsterr}" and pol or norm(tst) == f"{r.firsterr} is None" and pol
                      or norm(tst) == r.firsterr and not pol for tst, pol in conds)
        ctx.ob(rid, f"{cb.short}/{r.firsterr}-write-once", guarded, loc(cb, a),
               "assigned only while still unset (first failure wins)" if guarded else
               "first-error cell overwritten by later failures: run reports the last failure, not the first", norm(a))
        # RHS = coerce(node param, handler-bound exception)
        h = [h for h in (t.handlers if t else []) if inside(mod, a, h)]
        exc_name = h[0].name if h else None
        v = a.value
        ok = isinstance(v, ast.Call) and len(v.args) == 2 and is_name(v.args[0], cb.pos_params[0]) and exc_name and is_name(v.args[1], exc_name)
        # ... and it is the very node whose function was just called (`fn(x)` ... `coerce(x, exc)`)
        ok = ok and bool(r.usercall.args) and norm(r.usercall.args[0]) == norm(v.args[0])
        ctx.ob(rid, f"{cb.short}/{r.firsterr}-value", bool(ok), loc(cb, a),
               "recorded error is built from this node and the exception just caught" if ok else
               "recorded error is not coerce(<this node>, <caught exception>)", norm(a))
        if ok:
            rule_coerce(ctx, rid, m, cb, v)
    # engine raises the cell after the pool, on every path to the normal exit
    rs = r.raise_stmt
    conds = path_condition(e.module, rs, e.node)
    ok = len(conds) == 1 and cond_set(conds, r.firsterr)
    ctx.ob(rid, f"{e.short}/raise-recorded", ok, loc(e, rs), "engine raises the recorded error when set" if ok else
           "raise of the recorded error is guarded by something else than the cell itself", norm(rs))
    lc = lifecycle(m, r)
    g = lc.g
    guard = [p for p in _anc(e.module, rs) if isinstance(p, ast.If)]
    gate = set(g.of(guard[-1])) if guard else set(g.of(rs))
    ok = bool(lc.join_heads) and all(g.dominates(lc.join_heads, rn) for rn in g.of(rs)) and bool(g.of(rs)) \
        and all(g.must_pass(qn, gate, exits={g.exit}, first_labels={"n"}) for qn in lc.qjoin_nodes)
    ctx.ob(rid, f"{e.short}/raise-after-pool", ok, loc(e, rs), "raised after the workers are joined; no normal return passes it by" if ok
           else "the recorded error can be skipped (a normal return that does not pass the raise) or is raised before the workers are joined", norm(rs))


def rule_coerce(ctx, rid, m, caller, call):
    """coerce helper: carrier returned unchanged; otherwise a carrier for `node` chained to the exception."""
    fs = m.callee_funcs(caller, call)
    if len(fs) != 1:
        raise AnalysisError(f"coercion helper of `{norm(call)}` not resolved")
    f = next(iter(fs))
    node_p, exc_p = f.pos_params[0], f.pos_params[1]
    rets = [n for n in f.own_nodes() if isinstance(n, ast.Return) and n.value is not None]
    ident = [x for x in rets if is_name(x.value, exc_p)]
    ok = bool(ident) and all(any(norm(t).startswith(f"isinstance({exc_p},") and pol for t, pol in path_condition(f.module, x, f.node))
                             for x in ident)
    ctx.ob(rid, f"{f.short}/carrier-identity", ok, loc(f), "an exception that already is the carrier is returned unchanged"
           if ok else "carrier exceptions are re-wrapped (node / cause of the real failure lost)")
    others = [x for x in rets if not is_name(x.value, exc_p)]
    for x in others:
        v = x.value
        ok = False
        if isinstance(v, ast.Name):
            b = [b for b in f.bindings.get(v.id, []) if b[0] == "assign"]
            built = len(b) == 1 and isinstance(b[0][1], ast.Call) and len(b[0][1].args) == 1 and is_name(b[0][1].args[0], node_p)
            chained = any(isinstance(n, ast.Assign) and isinstance(n.targets[0], ast.Attribute) and n.targets[0].attr == "__cause__"
                          and is_name(n.targets[0].value, v.id) and is_name(n.value, exc_p) for n in f.own_nodes())
            ok = built and chained
        ctx.ob(rid, f"{f.short}/carrier-built", ok, loc(f, x), "carrier built for the node with __cause__ = the exception"
               if ok else "new carrier is not NodeError(node) with __cause__ set to the caught exception", norm(x))


# ------------------------------------------------------------------------------------------------ C07.L1
def rule_get_task_done(ctx, rid, r):
    m = ctx.model
    lp = r.loop
    mod = lp.module
    g = CFG(lp, may_raise=any_call_may_raise)
    gets = [c for c in lp.own_calls() if ext_names(m, lp, c) & GET]
    dones = [c for c in lp.own_calls() if "queue.Queue.task_done" in ext_names(m, lp, c)]
    ctx.floor(rid, "get/task_done loops", min(len(gets), len(dones)), 1)
    dnodes = set()
    for d in dones:
        dnodes |= set(g.of(stmt_of(mod, d)))
    for c in gets:
        gs = stmt_of(mod, c)
        for gn in g.of(gs):
            # normal completion of get(): every path to the next get / any exit passes a task_done
            targets = {g.exit, g.raise_exit} | set(g.of(gs))
            ok = g.must_pass(gn, dnodes, exits=targets, first_labels={"n"})
            p = "" if ok else g.fmt_path(g.path(gn, targets, avoid=dnodes, first_labels={"n"}))
            ctx.ob(rid, f"{lp.short}/task_done-on-every-path", ok, loc(lp, c),
                   "every dequeued item is acknowledged on every path (normal, sentinel return, exception)" if ok else
                   "a dequeued item can go unacknowledged: queue.join() never returns", norm(gs), p)
    # at most one task_done per get
    for dn in dnodes:
        again = g.reach([dn], avoid={n for c in gets for n in g.of(stmt_of(mod, c))}) & dnodes
        ctx.ob(rid, f"{lp.short}/task_done-once", not again, loc(lp, dn.ast), "one acknowledgement per dequeued item" if not again
               else "task_done can run twice for one item (ValueError / join returns early)", norm(dn.ast))
    # receivers are the same queue object
    recv = {norm(c.func.value) for c in gets + dones}
    ctx.ob(rid, f"{lp.short}/same-queue", len(recv) == 1, loc(lp), f"get and task_done on {sorted(recv)}")


# ------------------------------------------------------------------------------------------------ C07.L3 / C10.F2
def _range_arg(n):
    if isinstance(n, ast.For) and isinstance(n.iter, ast.Call) and is_name(n.iter.func, "range") and len(n.iter.args) == 1:
        return n.iter.args[0]
    return None


class _LC:
    pass


def lifecycle(m, r):
    """Thread life cycle of the engine as CFG node sets (the pool context manager, if there is one, is inlined): where threads are
    started, where queue.join() waits, where the stop flag is set, where the sentinels are posted, where the threads are joined."""
    lc = getattr(r, "_lifecycle", None)
    if lc is not None:
        return lc
    e = r.engine
    mod = e.module
    lc = _LC()
    lc.g = g = CFG(e, may_raise=any_call_may_raise)
    # where a thread starts running: `t.start()` in the engine, or - when a callee constructs *and* starts it - the call of that callee
    lc.start_method_calls = [c for c in e.own_calls() if isinstance(c.func, ast.Attribute) and c.func.attr == "start"
                             and "threading.Thread.start" in ext_names(m, e, c)]
    lc.start_sites = lc.start_method_calls or list(r.start_calls)
    lc.start_stmts = [stmt_of(mod, c) for c in lc.start_sites]
    lc.spawn_loops = []
    for n in e.own_nodes():
        if isinstance(n, ast.For) and any(inside(mod, c, n) for c in lc.start_sites) and n not in lc.spawn_loops:
            lc.spawn_loops.append(n)
    lc.sent_loops = []
    for n in e.own_nodes():
        if isinstance(n, ast.For) and any(c in r.sentinel_puts for c in ast.walk(n) if isinstance(c, ast.Call)):
            lc.sent_loops.append(n)
    lc.sent_heads = set()
    for n in lc.sent_loops:
        lc.sent_heads |= set(g.of(n))
    for c in r.sentinel_puts:
        if not any(inside(mod, c, n) for n in lc.sent_loops):
            lc.sent_heads |= set(g.of(stmt_of(mod, c)))
    lc.stop_sets = set()
    if r.stop:
        for n in e.own_nodes():
            if isinstance(n, ast.Assign) and any(is_name(t, r.stop) for t in n.targets) and const(n.value, None) is True:
                lc.stop_sets |= set(g.of(n))
    joins = [c for c in e.own_calls() if isinstance(c.func, ast.Attribute) and c.func.attr == "join" and c is not r.join_call]
    tj = [c for c in joins if "threading.Thread.join" in ext_names(m, e, c)]
    if not tj:
        # by shape: the receiver iterates a list (not the queue, not a string)
        tj = [c for c in joins if not (ext_names(m, e, c) & {"queue.Queue.join", "str.join"}) and not isinstance(c.func.value, ast.Constant)]
    lc.thread_joins = tj
    lc.join_loops = {}
    for j in tj:
        fl = [n for n in e.own_nodes() if isinstance(n, ast.For) and inside(mod, j, n)]
        if fl and isinstance(fl[-1].iter, ast.Name) and isinstance(j.func.value, ast.Name) and norm(fl[-1].target) == j.func.value.id:
            lc.join_loops[j] = fl[-1]
    lc.join_heads = set()
    for j, loop in lc.join_loops.items():
        lc.join_heads |= set(g.of(loop))
    lc.join_nodes = set()
    for j in tj:
        lc.join_nodes |= set(g.of(stmt_of(mod, j)))
    lc.qjoin = stmt_of(mod, r.join_call)
    lc.qjoin_nodes = list(g.of(lc.qjoin))
    r._lifecycle = lc
    return lc


def rule_sentinels(ctx, rid, r):
    m = ctx.model
    e, lp = r.engine, r.loop
    lc = lifecycle(m, r)
    g = lc.g
    # thread creation loop
    sp = lc.spawn_loops
    ok = len(sp) == 1 and _range_arg(sp[0]) is not None and isinstance(_range_arg(sp[0]), ast.Name)
    ctx.ob(rid, f"{e.short}/spawn-count", ok, loc(e), "threads are started in one loop over range(<name>)" if ok
           else "thread creation is not a single `for _ in range(<name>)` loop")
    if not ok:
        return
    bound = _range_arg(sp[0])
    # sentinel loop
    sloops = lc.sent_loops
    ok = len(sloops) == 1 and _range_arg(sloops[0]) is not None
    ctx.ob(rid, f"{e.short}/sentinel-loop", ok, loc(e), "sentinels are posted in one loop over range(N)" if ok else
           "sentinels are not posted in a single range loop")
    if not ok:
        return
    sl = sloops[0]
    n1, n2 = norm(bound), norm(_range_arg(sl))
    same = n1 == n2
    if same:
        # no reassignment of that name between the two uses: all assignments precede the start of the first thread
        asg = [b for b in e.bindings.get(bound.id, []) if b[0] in ("assign", "aug")]
        for kind, expr, _p in asg:
            st = stmt_of(e.module, expr)
            if not (comes_before(e.node, st, sp[0]) and not inside(e.module, st, sp[0])):
                same = False
        if any(bound.id in g_.nonlocals for g_ in e.all_nested()):
            same = False
    ctx.ob(rid, f"{e.short}/sentinels==threads", same, loc(e, sl),
           f"number of threads and sentinel count are the same value `{n1}`" if same else
           f"`{n1}` threads are started but `{n2}` sentinels are posted: with a different number some workers never exit "
           f"(run hangs) or sentinels are left over", head(sl))
    # one sentinel per iteration, unconditionally
    puts_plain = all(stmt_of(e.module, c) in sl.body for c in r.sentinel_puts if inside(e.module, c, sl))
    ctx.ob(rid, f"{e.short}/sentinel-each-iteration", puts_plain, loc(e, sl), "every iteration of the loop posts one sentinel" if puts_plain else
           "the sentinel is posted under a condition inside the loop", head(sl))
    # every path from queue.join() - normal return or exception - to an exit of the engine posts the sentinels
    ok, wit = True, ""
    for qn in lc.qjoin_nodes:
        if not g.must_pass(qn, lc.sent_heads):
            ok = False
            wit = g.fmt_path(g.path(qn, {g.exit, g.raise_exit}, avoid=lc.sent_heads))
    ok = ok and bool(lc.qjoin_nodes)
    ctx.ob(rid, f"{e.short}/release-in-finally", ok, loc(e, sl),
           "on every path from queue.join() (normal or exceptional) to an exit of the engine the sentinels are posted" if ok else
           "queue.join() can be left (e.g. by an interrupt) on a path that does not post the sentinels: the workers stay blocked forever",
           head(sl), wit)
    ok2 = bool(lc.qjoin_nodes) and all(g.dominates({n for l_ in sp for n in g.of(l_)}, qn) for qn in lc.qjoin_nodes)
    ctx.ob(rid, f"{e.short}/join-inside-pool", ok2, loc(e, r.join_call), "queue.join() waits after the workers have been started" if ok2 else
           "queue.join() can be reached without the workers having been started", norm(r.join_call))
    # worker loop exits only through the sentinel branch, and exits then (path formulation: robust to `return` vs flag)
    g = CFG(lp, may_raise=lambda n: False)
    gets = [c for c in lp.own_calls() if ext_names(m, lp, c) & GET]
    gs = stmt_of(lp.module, gets[0]) if len(gets) == 1 else None
    item = gs.targets[0].id if isinstance(gs, ast.Assign) and isinstance(gs.targets[0], ast.Name) else None
    tst, s_nodes, o_nodes = sentinel_branches(m, lp, g, r, item)
    ok = tst is not None and bool(s_nodes)
    if ok:
        gnodes = set(g.of(gs))
        all_reach = g.reach([g.entry])
        ok = g.exit in all_reach and g.exit not in g.reach([g.entry], avoid=set(s_nodes)) \
            and not ((set(s_nodes) | g.reach(s_nodes)) & gnodes) \
            and bool((set(o_nodes) | g.reach(o_nodes)) & gnodes)
    ctx.ob(rid, f"{lp.short}/exit-only-on-sentinel", ok, loc(lp), "worker loop is `while True` and returns only on `item is <sentinel>`"
           if ok else "worker loop can exit without a sentinel (items left unprocessed) or never exits")
    # the sentinel is a module-level unique object
    sent_ok = False
    for modl in {e.module, lp.module}:
        for kind, expr, _p in modl.bindings.get(r.sentinel, []):
            if kind == "assign" and isinstance(expr, ast.Call) and norm(expr) == "object()":
                sent_ok = True
    ctx.ob(rid, f"{e.short}/sentinel-unique", sent_ok, loc(e), f"sentinel {r.sentinel} = object()" if sent_ok else
           f"sentinel {r.sentinel} is not a unique module-level object()")


# ------------------------------------------------------------------------------------------------ C07.L4
def _is_started_test(test, var):
    """`<var>.ident is not None` / `<var>.is_alive()`: was this thread started at all?"""
    t = norm(test)
    return t in (f"{var}.ident is not None", f"{var}.is_alive()", f"{var}.ident != None", f"{var}.ident")


def rule_pool_joins(ctx, rid, r):
    """From every statement that starts a thread, every path to an exit of the engine - normal end, or any exception at the
    start, while waiting, or later - passes a loop that joins the list the started threads are appended to."""
    m = ctx.model
    pool = r.engine
    mod = pool.module
    lc = lifecycle(m, r)
    g = lc.g
    joins = lc.thread_joins
    ctx.floor(rid, "thread join sites in the engine", len(joins), 1)
    ctx.floor(rid, "thread start sites in the engine", len(r.start_calls), 1)
    for sc in lc.start_sites:
        st = stmt_of(mod, sc)
        # the list the started thread is recorded in, and whether it is recorded *before* it runs: a thread whose start() is
        # interrupted after it was launched (or whose recording is skipped by an exception) must still be joined
        lst, recorded_first = None, False
        if sc in lc.start_method_calls and isinstance(sc.func.value, ast.Name):
            tv = sc.func.value.id
            for c in pool.own_calls():
                if isinstance(c.func, ast.Attribute) and c.func.attr == "append" and isinstance(c.func.value, ast.Name) and len(c.args) == 1 \
                        and is_name(c.args[0], tv):
                    an = set(g.of(stmt_of(mod, c)))
                    if an and all(g.dominates(an, sn) for sn in g.of(st)):
                        lst, recorded_first = c.func.value.id, True
        elif isinstance(st, ast.Expr) and isinstance(st.value, ast.Call) and isinstance(st.value.func, ast.Attribute) \
                and st.value.func.attr == "append" and isinstance(st.value.func.value, ast.Name) and st.value.args and st.value.args[0] is sc:
            lst = st.value.func.value.id  # recorded with the value of the call that started it: not recorded if that call is interrupted
        elif isinstance(st, ast.Assign) and len(st.targets) == 1 and isinstance(st.targets[0], ast.Name) and st.value is sc:
            lst = st.targets[0].id  # the callee starts the threads and hands back the collection that is joined
        ok_l = lst is not None and recorded_first
        ctx.ob(rid, f"{pool.short}/joins-all-started", ok_l, loc(pool, sc),
               "every thread is recorded in the list that is joined before it is started" if ok_l else
               ("the thread is recorded only after the call that starts it has returned: an interrupt inside Thread.start() - after the "
                "thread was launched - leaves a running worker that nobody joins (run() returns while it still executes a call)" if lst is not None
                else "a started thread may not be in the joined list"), norm(st))
        if lst is None:
            continue
        through = set()
        for j, loop in lc.join_loops.items():
            if loop.iter.id == lst and not j.args and not j.keywords:
                # the loop header node: reaching it means the join loop runs over the whole list; a guard inside the loop may only ask
                # whether the thread was started at all (joining an unstarted thread raises)
                guards = [pn for pn in ast.walk(pool.node) if isinstance(pn, ast.If) and inside(mod, j, pn) and inside(mod, pn, loop)]
                if all(_is_started_test(pn.test, norm(loop.target)) for pn in guards):
                    through |= set(g.of(loop))
        ok = bool(through)
        witness = ""
        if ok:
            for sn in g.of(st):
                if not g.must_pass(sn, through):
                    ok = False
                    witness = g.fmt_path(g.path(sn, {g.exit, g.raise_exit}, avoid=through))
        ctx.ob(rid, f"{pool.short}/join-in-finally", ok, loc(pool, sc),
               "on every path from a thread start to an exit of the engine (normal or exceptional) the workers are joined" if ok else
               "the workers are not joined on every path: on an exception while waiting the threads are abandoned "
               "(a path from a thread start leaves the engine without joining the started threads)", norm(st), witness)
    for j in joins:
        ok = not j.args and not j.keywords
        ctx.ob(rid, f"{pool.short}/join-no-timeout", ok, loc(pool, j), "join() without timeout" if ok else
               "join with a timeout can return while the worker still runs", norm(j))
        lv_ = norm(lc.join_loops[j].target) if j in lc.join_loops else None
        guards = [p for p in _anc(mod, j) if isinstance(p, ast.If) and not any(inside(mod, sc, p) for sc in lc.start_sites)
                  and not (lv_ and _is_started_test(p.test, lv_))]
        ctx.ob(rid, f"{pool.short}/join-unconditional", not guards, loc(pool, j),
               "the join is unconditional" if not guards else
               f"the join is skipped under `if {norm(guards[0].test)[:40]}`: on that path (e.g. KeyboardInterrupt) run returns while calls "
               f"and store writes are still in flight", head(guards[0]) if guards else "")
    # thread helper starts and returns the thread (not daemon-and-forget)
    for c, call, tg in r.thread_sites:
        if c is pool:
            continue
        starts = [x for x in c.own_calls() if "threading.Thread.start" in ext_names(m, c, x)]
        ctx.ob(rid, f"{c.short}/thread-started-and-returned", len(starts) <= 1 and any(isinstance(n, ast.Return) and n.value is not None for n in c.own_nodes()),
               loc(c, call), "the thread is handed back (for recording and joining), started at most once")


# ------------------------------------------------------------------------------------------------ C17.K6
def rule_startup_interrupt(ctx, rid, r):
    """An exception raised on the calling thread *while the workers are being started* (KeyboardInterrupt in the start
    loop - the first worker is already executing calls then - or a failing Thread.start) must release the workers that
    were started before they are joined: on every path from the exceptional out-edge of a thread start (or of the loop
    header) to the join loop or an exit, the stop flag is set and the sentinels are posted."""
    m = ctx.model
    e = r.engine
    lc = lifecycle(m, r)
    g = lc.g
    ctx.floor(rid, "thread start sites in the engine", len(r.start_calls), 1)
    goals = lc.join_nodes | lc.join_heads | {g.exit, g.raise_exit}
    sites = list(lc.start_stmts) + [l_ for l_ in lc.spawn_loops]
    bad, bad_stop, p = set(), set(), ""
    for st in sites:
        for sn in g.of(st):
            # an exception at the loop header or at the start of a later worker
            b_ = g.reach([sn], avoid=lc.sent_heads, first_labels={"e"}) & goals
            if b_ and not bad:
                p = g.fmt_path(g.path(sn, b_, avoid=lc.sent_heads, first_labels={"e"}))
            bad |= b_
            bad_stop |= g.reach([sn], avoid=lc.stop_sets, first_labels={"e"}) & goals
    # keyed by role, not by the current name/spelling: the same defect in a renamed or restructured engine is the same finding
    ctx.ob(rid, "POOL/startup-interrupt-releases-workers", not bad, loc(e, r.start_calls[0]),
           "an exception while the workers are being started posts the sentinels for the ones already running before joining them" if not bad else
           "an exception on the calling thread while the workers are still being started (Ctrl-C during the first call, or a failing "
           "Thread.start) goes straight to joining the workers already started: nothing has posted the "
           "sentinels, so those workers run every remaining call and then block in queue.get() forever - run() never returns",
           "", p)
    ctx.ob(rid, "POOL/startup-interrupt-sets-stop", not bad_stop, loc(e, r.start_calls[0]),
           "an exception while the workers are being started sets the stop flag before the started ones are joined" if not bad_stop else
           "an exception on the calling thread while the workers are still being started does not set the stop flag: the workers already "
           "started keep starting queued calls (all of them under the cheap / random schedulers, where the sentinel has no priority)")


# ------------------------------------------------------------------------------------------------ C07.L7
def _digraphs():
    """All directed graphs on 1..3 nodes (self-loops included) plus a few with 4 nodes and with parallel edges: (n, edges)."""
    import itertools
    out = []
    for n in (1, 2, 3):
        pairs = [(i, j) for i in range(n) for j in range(n)]
        for k in range(0, 2 ** len(pairs)):
            out.append((n, [pairs[i] for i in range(len(pairs)) if k >> i & 1]))
    out += [(4, [(0, 1), (1, 2), (2, 3)]), (4, [(0, 1), (1, 2), (2, 3), (3, 1)]), (4, [(0, 1), (0, 2), (1, 3), (2, 3)]),
            (4, [(0, 1), (2, 3), (3, 2)]), (2, [(0, 1), (0, 1)]), (2, [(0, 1), (0, 1), (1, 0)]), (0, [])]
    return out


def _is_cyclic(n, edges):
    color = {}

    def dfs(u):
        color[u] = 1
        for a_, b_ in edges:
            if a_ == u:
                if color.get(b_) == 1 or (b_ not in color and dfs(b_)):
                    return True
        color[u] = 2
        return False
    return any(u not in color and dfs(u) for u in range(n))


def evaluate_cycle_check(m, f):
    """Interpret candidate acyclicity assertion `f(graph)` on every small digraph: it must raise exactly on the cyclic ones.
    -> (ok, description of the first deviation)"""
    from ..absval import AbsRaise, Interp, Obj
    from .rewriterules import MG
    n_graphs = 0
    for n, edges in _digraphs():
        def _mg_cyclic(g_):
            idx = {id(x): i for i, x in enumerate(g_._nodes)}
            return _is_cyclic(len(g_._nodes), [(idx[id(a_)], idx[id(b_)]) for (a_, b_, _k) in g_._edges])

        def _exc(kind):
            return lambda *a, **k: Obj(None, {"args": a}, name=kind)

        def _toposort(g_):
            if _mg_cyclic(g_):
                raise AbsRaise(Obj(None, {}, name="NetworkXUnfeasible"))
            order, indeg = [], {id(x): len(g_.predecessors(x)) for x in g_._nodes}
            ready = [x for x in g_._nodes if indeg[id(x)] == 0]
            while ready:
                x = ready.pop()
                order.append(x)
                for y in g_.successors(x):
                    indeg[id(y)] -= 1
                    if indeg[id(y)] == 0:
                        ready.append(y)
            return order
        interp = Interp(m, ext={"networkx.HasACycle": _exc("HasACycle"), "networkx.NetworkXUnfeasible": _exc("NetworkXUnfeasible"),
                                "networkx.NetworkXError": _exc("NetworkXError"), "networkx.exception.HasACycle": _exc("HasACycle"),
                                "networkx.is_directed_acyclic_graph": lambda g_: not _mg_cyclic(g_),
                                "networkx.topological_sort": _toposort, "networkx.algorithms.dag.topological_sort": _toposort})
        g = MG(interp)
        nodes = [Obj(None, {}, name=f"n{i}") for i in range(n)]
        for x in nodes:
            g.add_node(x)
        for i, (a_, b_) in enumerate(edges):
            g.add_edge(nodes[a_], nodes[b_], Obj(None, {"index": i}, name=f"k{i}"))
        raised = None
        try:
            interp.call_func(f, None, [g], {})
        except AbsRaise as e:
            raised = e.value
        n_graphs += 1
        cyc = _is_cyclic(n, edges)
        if bool(raised) != cyc:
            return False, (f"on the {'cyclic' if cyc else 'acyclic'} graph with {n} node(s) and edges {edges} it "
                           f"{'raises ' + repr(raised)[:60] if raised else 'returns normally'}"), n_graphs
    return True, "", n_graphs


def rule_cycle_check_first(ctx, rid, r):
    """The engine rejects cyclic graphs before it prepares nodes or starts a thread.  Which call is the acyclicity assertion is
    decided by *evaluating* the candidates (calls of a repo function on the engine's graph whose value is discarded) on every
    digraph with up to three nodes: the assertion is the one that raises exactly on the cyclic graphs - however it is named
    and however it computes that (Kahn's algorithm with any verdict idiom, depth-first search ...)."""
    m = ctx.model
    e = r.engine
    g = CFG(e, may_raise=any_call_may_raise)
    graph_param = e.pos_params[0]
    cands = []
    for st in e.node.body:
        c = st.value if isinstance(st, ast.Expr) and isinstance(st.value, ast.Call) else None
        if c is not None and c.args and is_name(c.args[0], graph_param) and len(c.args) == 1 and not c.keywords:
            for f in m.callee_funcs(e, c):
                if f.cls is None:
                    cands.append((c, f))
    checks, first_dev, n_graphs = [], "", 0
    from ..absval import AbsRaise as _AR
    for c, f in cands:
        try:
            ok_, dev, n_graphs = evaluate_cycle_check(m, f)
        except AnalysisError as ex:
            ok_, dev = False, f"cannot be evaluated: {ex}"
        if ok_:
            checks.append(c)
        else:
            first_dev = first_dev or f"{f.name}: {dev}"
    ok = len(checks) >= 1
    ctx.ob(rid, f"{e.short}/has-cycle-check", ok, loc(e),
           f"engine calls an acyclicity assertion (evaluated on {n_graphs} digraphs: raises exactly on the cyclic ones)" if ok else
           "the engine has no working acyclicity assertion: a cyclic plan ends as a silent partial run" + (f" ({first_dev})" if first_dev else ""))
    if not ok:
        return
    cn = set(g.of(stmt_of(e.module, checks[0])))
    targets = [(st_, "thread creation") for st_ in lifecycle(m, r).start_stmts] + \
        ([(stmt_of(e.module, r.prep_call), "node preparation")] if r.prep_call is not None else [])
    for target, what in targets:
        for tn in g.of(target):
            if tn.kind in ("with_exit",):
                continue
            ok = g.dominates(cn, tn)
            ctx.ob(rid, f"{e.short}/cycle-check-dominates-{what.replace(' ', '-')}", ok, loc(e, target),
                   f"acyclicity assertion dominates {what}" if ok else f"{what} can happen before the cycle check", head(target))
    # same graph object is used afterwards (no swap between check and execution)
    rebinds = [b for b in e.bindings.get(graph_param, []) if b[0] != "param"]
    ctx.ob(rid, f"{e.short}/graph-not-rebound", not rebinds, loc(e), "graph parameter is never rebound" if not rebinds else
           "graph parameter is rebound after the check")




# ------------------------------------------------------------------------------------------------ C07.L8 / C10.F3
def rule_nothing_blocks_under_lock(ctx, rid, r, user_reaching):
    """Inside every `with <lock>` region of engine / progress code reachable from the worker threads: no blocking
    primitive and no user-reaching call."""
    m = ctx.model
    n_regions = 0
    funcs = [f for f in m.funcs.values() if f.module.name.startswith(("uberjob._execution", "uberjob._transformations",
                                                                       "uberjob._run"))]
    for f in funcs:
        for w, lockexpr in lock_withs(m, f):
            n_regions += 1
            bad = []
            for c in [x for x in ast.walk(w) if isinstance(x, ast.Call)]:
                if c not in f.own_calls():
                    continue
                names = ext_names(m, f, c)
                if names & BLOCKING:
                    bad.append((c, f"blocking call {sorted(names & BLOCKING)[0]}"))
                elif user_reaching(f, c):
                    bad.append((c, "call that reaches user code (call function, store, observer)"))
            for c, why in bad:
                ctx.ob(rid, f"{f.short}/with {norm(lockexpr)}", False, loc(f, c),
                       f"{why} while holding {norm(lockexpr)}: serialises the workers or can deadlock", norm(c))
            if not bad:
                ctx.ob(rid, f"{f.short}/with {norm(lockexpr)}", True, loc(f, w), "no blocking or user-reaching call inside the region", head(w))
    ctx.floor(rid, "engine lock regions", n_regions, 2)


# ------------------------------------------------------------------------------------------------ C10.F5 / C17.K2
def _stop_guard_is_budget_test(m, e, cb, conds, errcount, limit_param):
    """Is the conjunction of path conditions at the write of the stop flag the error-budget test - true exactly when the limit is
    not None and the error count exceeds it?  Decided by truth table over limit in {None, 0, 1, 2} x count in 0..4, whatever the
    spelling (`L is not None and c > L`, `c > L and L is not None`, `L is None or c <= L` negated ...).  The limit variable must
    be the engine's max_errors parameter or a single-assignment local computed from it alone (a coercion)."""
    if not errcount or not limit_param or not conds:
        return False
    def nm(t):
        return {n.id for n in ast.walk(t) if isinstance(n, ast.Name)}
    others = set()
    for t, _pol in conds:
        if errcount in nm(t):
            others |= nm(t) - {errcount}
    if len(others) != 1:
        return False
    lim = next(iter(others))
    # the conditions that speak about the count and the limit (others - the stop test that returned earlier - are irrelevant here)
    conds = [(t, pol) for t, pol in conds if nm(t) and nm(t) <= {errcount, lim}]
    if lim != limit_param:
        bs = [b for b in e.bindings.get(lim, []) if b[0] != "param"]
        if len(bs) != 1 or bs[0][0] != "assign" or bs[0][2] or bs[0][1] is None or names_in(bs[0][1]) - {limit_param} - \
                {n.func.id for n in ast.walk(bs[0][1]) if isinstance(n, ast.Call) and isinstance(n.func, ast.Name)} or limit_param not in names_in(bs[0][1]):
            return False
    allowed = (ast.BoolOp, ast.And, ast.Or, ast.UnaryOp, ast.Not, ast.Compare, ast.Name, ast.Constant, ast.Load, ast.Is, ast.IsNot, ast.Gt, ast.GtE,
               ast.Lt, ast.LtE, ast.Eq, ast.NotEq)
    for t, _pol in conds:
        if not all(isinstance(n, allowed) for n in ast.walk(t)):
            return False
    for L in (None, 0, 1, 2):
        for c in range(0, 5):
            val = True
            for t, pol in conds:
                try:
                    v = eval(compile(ast.Expression(body=t), "<guard>", "eval"), {"__builtins__": {}}, {errcount: c, lim: L})  # comparisons only
                except TypeError:
                    v = None  # e.g. `c > None`: the real code would raise - not the budget test
                if v is None:
                    return False
                val = val and (bool(v) if pol else not bool(v))
            if val != (L is not None and c > L):
                return False
    return True


def rule_stop_discipline(ctx, rid, r):
    m = ctx.model
    cb, e = r.nodecb, r.engine
    mod = cb.module
    if r.stop is None:
        ctx.ob(rid, f"{cb.short}/stop-test", False, loc(cb), "the node callback does not start with `if <stop flag>: return`")
        return
    g = CFG(cb, may_raise=any_call_may_raise)
    un = g.of(stmt_of(mod, r.usercall))
    ok = all(g.dominates(set(g.of(r.stop_test)), u) for u in un)
    ctx.ob(rid, f"{cb.short}/stop-before-call", ok, loc(cb, r.stop_test),
           "the stop flag is tested (with immediate return) before the user call on every path" if ok else
           "the user call can be reached without testing the stop flag", head(r.stop_test))
    # writes
    writes = []
    for f in (cb, e):
        for n in f.own_nodes():
            if isinstance(n, ast.Assign) and any(is_name(t, r.stop) for t in n.targets):
                writes.append((f, n))
    for f, n in writes:
        init = f is e and not any(isinstance(p, (ast.Try, ast.With, ast.If, ast.For, ast.While)) for p in _anc(e.module, n))
        if init:
            ok = const(n.value, None) is False
            ctx.ob(rid, f"{f.short}/{r.stop}-initial", ok, loc(f, n), "flag starts False" if ok else "flag does not start False", norm(n))
            continue
        ok = const(n.value, None) is True
        ctx.ob(rid, f"{f.short}/{r.stop}-monotone", ok, loc(f, n), "flag is only ever set to True" if ok else
               "flag can be reset: workers may resume after a stop", norm(n))
        if f is cb:
            locks = lock_withs(m, cb)
            inlock = any(inside(mod, n, w) for w, _ in locks)
            conds = path_condition(mod, n, cb.node)
            me = [p for p in e.params if "error" in p]
            guard_ok = _stop_guard_is_budget_test(m, e, cb, conds, r.errcount, me[0] if me else None)
            ctx.ob(rid, f"{cb.short}/{r.stop}-guard", inlock and guard_ok, loc(cb, n),
                   "set under the failure lock exactly when max_errors is not None and error_count > max_errors"
                   if inlock and guard_ok else
                   "the stop flag is not set under `max_errors is not None and error_count > max_errors` inside the failure lock",
                   norm(n))
    # error_count += 1 exactly once per handled failure, in the lock region
    if r.errcount and r.try_stmt is not None:
        for h in r.try_stmt.handlers:
            incs = [n for n in ast.walk(h) if isinstance(n, ast.AugAssign) and is_name(n.target, r.errcount)]
            ok = len(incs) == 1 and const(incs[0].value) == 1 and isinstance(incs[0].op, ast.Add) and \
                not path_condition(mod, incs[0], h) and any(inside(mod, incs[0], w) for w, _ in lock_withs(m, cb))
            ctx.ob(rid, f"{cb.short}/{r.errcount}-increment", ok, loc(cb, h),
                   "error count incremented by exactly 1 per failure, unconditionally, under the failure lock" if ok else
                   "error count is not incremented exactly once per failure under the lock", head(h))
    else:
        ctx.ob(rid, f"{cb.short}/error-count", False, loc(cb), "no error counter incremented in the failure handler")


def _anc(mod, n):
    p = mod.parent.get(n)
    while p is not None and not isinstance(p, (ast.FunctionDef, ast.AsyncFunctionDef)):
        yield p
        p = mod.parent.get(p)


# ------------------------------------------------------------------------------------------------ C17.K1
def rule_interrupt_cleanup(ctx, rid, r):
    """KeyboardInterrupt out of queue.join(): on every path from its exceptional out-edge the stop flag is set, then the sentinels are
    posted, then the workers are joined (rule L4); no handler on the way absorbs the interrupt."""
    m = ctx.model
    e = r.engine
    lc = lifecycle(m, r)
    g = lc.g
    js = lc.qjoin
    exits = {g.exit, g.raise_exit}
    ok, wit = bool(lc.qjoin_nodes) and bool(lc.sent_heads), ""
    for qn in lc.qjoin_nodes:
        if not g.must_pass(qn, lc.sent_heads, first_labels={"e"}):
            ok = False
            wit = g.fmt_path(g.path(qn, exits, avoid=lc.sent_heads, first_labels={"e"}))
    ctx.ob(rid, f"{e.short}/join-in-try-finally", ok, loc(e, r.join_call),
           "an exception out of queue.join() reaches the posting of the sentinels on every path" if ok else
           "queue.join() has no cleanup on its exceptional exit: Ctrl-C leaves the workers blocked / running", norm(js), wit)
    if not ok:
        return
    sets_stop = bool(lc.stop_sets) and all(g.must_pass(qn, lc.stop_sets, exits=exits | lc.sent_heads, first_labels={"e"}) for qn in lc.qjoin_nodes)
    ctx.ob(rid, f"{e.short}/finally-sets-stop", sets_stop, loc(e, js),
           "the stop flag is set on every path from an interrupted queue.join() before the sentinels are posted" if sets_stop else
           "the stop flag is not set (before the sentinels are posted) when queue.join() is interrupted: queued calls keep starting after Ctrl-C")
    # no handler on the join swallows the interrupt
    for t in [t for t in e.own_nodes() if isinstance(t, ast.Try) and in_body(e.module, js, t, "body")]:
        for h in t.handlers:
            reraises = any(isinstance(n, ast.Raise) and n.exc is None for n in ast.walk(h))
            wide = handler_catches_all(h) or any(c in ("KeyboardInterrupt",) for c in handler_classes(h))
            ctx.ob(rid, f"{e.short}/join-handler", (not wide) or reraises, loc(e, h),
                   "handler on join() does not swallow KeyboardInterrupt" if (not wide) or reraises else
                   "a handler around queue.join() swallows KeyboardInterrupt", head(h))


# ------------------------------------------------------------------------------------------------ C16: what the engine keeps of failures
def rule_failures_not_accumulated(ctx, rid, r):
    """The engine keeps (at most) the first failure for the whole run.  Every further failure object it kept would pin the failed
    call's frames - and through them its arguments - until the run ends.  Checked on the handler that protects the user call:
    nothing derived from the caught exception is added to a container that lives in the engine's scope (append / add / extend /
    insert / subscript store / setdefault)."""
    m = ctx.model
    cb, e = r.nodecb, r.engine
    mod = cb.module
    ust = stmt_of(mod, r.usercall)
    tries = [n for n in cb.own_nodes() if isinstance(n, ast.Try) and any(s_ is ust or inside(mod, ust, s_) for s_ in n.body)]
    n_sites = 0
    for t in tries:
        for h in t.handlers:
            tainted = {h.name} if h.name else set()
            # locals assigned from the exception inside the handler are derived from it
            for _ in range(3):
                for n in ast.walk(h):
                    if isinstance(n, ast.Assign) and names_in(n.value) & tainted:
                        for tg in n.targets:
                            if isinstance(tg, ast.Name):
                                tainted.add(tg.id)
            for n in ast.walk(h):
                n_sites += 1
                sink = val = None
                if isinstance(n, ast.Call) and isinstance(n.func, ast.Attribute) and isinstance(n.func.value, ast.Name) and \
                        n.func.attr in ("append", "add", "extend", "insert", "appendleft", "setdefault", "update", "put", "put_nowait"):
                    sink, val = n.func.value.id, n
                elif isinstance(n, (ast.Assign, ast.AugAssign)):
                    for tg in (n.targets if isinstance(n, ast.Assign) else [n.target]):
                        if isinstance(tg, ast.Subscript) and isinstance(tg.value, ast.Name):
                            sink, val = tg.value.id, n.value
                        elif isinstance(n, ast.AugAssign) and isinstance(tg, ast.Name) and isinstance(n.value, (ast.List, ast.Tuple, ast.Set)):
                            sink, val = tg.id, n.value
                if sink is None or not (names_in(val) & tainted):
                    continue
                if sink == getattr(r, "queue_name", None):
                    continue
                if m.binding_scope(cb, sink) is e:
                    ctx.ob(rid, f"{cb.short}/failures-accumulated", False, loc(cb, n),
                           f"every failure is added to `{sink}`, which lives as long as the run: the tracebacks of all failed calls (their frames, "
                           f"and through them their argument values) stay reachable until the run ends, not just the first failure's",
                           norm(stmt_of(mod, n))[:100])
    ctx.ob(rid, f"{cb.short}/failures-not-accumulated/examined", True, loc(cb), f"examined {n_sites} nodes of the failure handler(s)")
