"""C14 - a dry run touches nothing and returns a faithful, self-contained physical plan (D1-D4)."""
from __future__ import annotations

import ast

from ..astq import arg, ext_names, inside, is_name, loc, names_in, stmt_of
from ..cfg import CFG, any_call_may_raise, reaching_defs
from ..model import AnalysisError, head, norm
from . import roles
from . import c11
from . import engine as E
from . import rewriterules as W
from . import runrules as R
from .common import make_user_reaching

ENGINE_MODULES = ("uberjob._run", "uberjob._transformations", "uberjob._execution", "uberjob._registry", "uberjob._plan",
                  "uberjob._graph", "uberjob._rendering")


def check(ctx):
    m = ctx.model
    ctx.rule("C14.D1", "every path of run to the execution call passes the dry_run test on its false arm; the true arm returns; before the test only the stale check reaches user code")
    ctx.rule("C14.D2", "engine modules never call read/write on a store themselves; get_modified_time is called only in the stale-check callback; bundled stores' get_modified_time performs no file mutation")
    ctx.rule("C14.D3", "read/write calls created by the transformation take the function from the store's class and the store as a literal argument; nothing closes over the registry")
    ctx.rule("C14.D5", "planning keeps its verdicts per run: nothing reachable from run stores into the registry or its entries (two concurrent runs / a dry run and a real run cannot exchange staleness verdicts)")
    ctx.rule("C14.D4", "the pair returned on the dry-run arm and the pair handed to execution are the same reaching definitions")
    ctx.rule("C14.D6", "what the real run executes of that pair is order-equivalent to the returned plan: the run preparation, evaluated as a whole on abstract plans, hands the engine a graph with every call and exactly the dependency paths of the plan it received")
    ctx.assume("equality of event logs of 'dry run then execute' and 'real run' follows from D4, D6 plus determinism and is not observed")
    er = E.discover(m)
    rr = R.discover(m, er)
    ur = make_user_reaching(m)
    run = rr.run
    from .prunerules import rule_execution_graph
    ctx.run(rule_execution_graph, "C14.D6", rr)
    g = CFG(run, may_raise=any_call_may_raise)
    execs = R.calls_to(m, run, rr.run_physical)
    # ---------------------------------------------------------------- D1
    tests = []
    for n in run.own_nodes():
        if isinstance(n, ast.If):
            t_, pol_ = E._positive(n.test, True)
            if norm(t_) in ("dry_run", "dry_run is True", "dry_run == True"):
                tests.append((n, pol_))
    ok = len(tests) == 1
    ctx.ob("C14.D1", f"{run.short}/dry-run-test", ok, loc(run), "one `if dry_run:` test" if ok else f"{len(tests)} dry_run tests in run")
    pair_site = None  # (statement whose CFG nodes stand for 'the dry-run result is taken here', Tuple expression)
    if ok:
        t, pol = tests[0]
        dry_lab = "t" if pol else "f"
        tn = set(g.of(t))
        dry_entry = [b for n_ in tn for b, lab in g.succ[n_] if lab == dry_lab]
        dry_reach = set(dry_entry) | g.reach(dry_entry)
        exec_nodes = {xn for x in execs for xn in g.of_stmt_containing(x, run.module)}
        # the dry arm never reaches the execution, and what it hands back is a (plan, node) pair
        okr = bool(dry_entry) and not (dry_reach & exec_nodes)
        ctx.ob("C14.D1", f"{run.short}/true-arm-returns", okr, loc(run, t), "the dry-run arm returns" if okr else "the dry-run arm does not return", head(t))
        for x in execs:
            for xn in g.of_stmt_containing(x, run.module):
                dom = g.dominates(tn, xn)
                via_dry = xn in dry_reach
                ctx.ob("C14.D1", f"{run.short}/test-dominates-execution", dom and not via_dry, loc(run, x),
                       "execution is reached only through the false arm of the dry_run test" if dom and not via_dry else
                       "execution can be reached without passing the dry_run test on its false arm", norm(x)[:80])
        # user-reaching calls before the test: only the registry application (stale check) and transform_physical
        from .evalrules import totals_site
        totals_calls = totals_site(m, rr, "run")[1]
        totals_calls = totals_calls if isinstance(totals_calls, list) else [totals_calls]
        from .prunerules import prune_role
        prune_fn = prune_role(m, rr)
        before = g.reach([g.entry], avoid=tn)
        for c in run.own_calls():
            cn = g.of_stmt_containing(c, run.module)
            if not any(x in before and (tn & g.reach([x])) for x in cn):
                continue
            if not ur(run, c):
                continue
            fs = m.callee_funcs(run, c)
            names = {f.name for f in fs}
            okc = rr.apply in fs or (isinstance(c.func, ast.Name) and c.func.id in ("transform_physical",)) or \
                names & {"_coerce_progress", "assert_is_instance", "assert_is_callable", "_coerce_retry"} \
                or (fs and all(roles.is_mutable_plan_func(m, f_) or f_ is prune_fn for f_ in fs)) \
                or (isinstance(c.func, ast.Attribute) and c.func.attr in ({"observer", "copy"} | roles.gather_names(m))) \
                or names & {"get_stack_frame"} or any(c is tc_ or any(x is c for x in ast.walk(stmt_of(run.module, tc_))) for tc_ in totals_calls)
            ctx.ob("C14.D1", f"{run.short}/before-test", bool(okc), loc(run, c),
                   "allowed before the dry_run test (validation, observer, stale check, transformations)" if okc else
                   "a user-reaching call other than the stale check / transformations runs before the dry_run test", norm(c)[:100])
        # where the dry-run pair is produced: a `return (p, n)` or `result = (p, n)` statement on the dry arm
        for n_ in run.own_nodes():
            v_ = n_.value if isinstance(n_, (ast.Return, ast.Assign)) else None
            if isinstance(v_, ast.Tuple) and any(cn_ in dry_reach for cn_ in g.of(n_)) and not any(cn_ in exec_nodes for cn_ in g.of(n_)):
                if pair_site is None or isinstance(n_, ast.Return):
                    pair_site = (n_, v_)
    # ---------------------------------------------------------------- D4
    if tests and execs:
        if pair_site is None:
            ctx.ob("C14.D4", f"{run.short}/returns-pair", False, loc(run), "dry run does not return a (plan, node) pair")
        else:
            ret, rv = pair_site
            okshape = isinstance(rv, ast.Tuple) and len(rv.elts) == 2 and all(isinstance(x, ast.Name) for x in rv.elts)
            if isinstance(ret, ast.Assign):
                # the variable assigned must be what run returns
                okshape = okshape and len(ret.targets) == 1 and isinstance(ret.targets[0], ast.Name) and \
                    any(isinstance(r_, ast.Return) and is_name(r_.value, ret.targets[0].id) for r_ in run.own_nodes())
            ctx.ob("C14.D4", f"{run.short}/returns-pair", okshape, loc(run, ret), "returns (plan, output node)" if okshape else "dry run does not return a (plan, node) pair", norm(ret))
            if okshape:
                x = execs[0]
                pa, oa = arg(x, 0, "plan"), arg(x, None, "output_node")
                same = is_name(pa, rv.elts[0].id) and is_name(oa, rv.elts[1].id)
                ctx.ob("C14.D4", f"{run.short}/same-variables", same, loc(run, x),
                       "the dry-run pair and the executed pair are the same variables" if same else
                       f"dry run returns ({norm(rv.elts[0])}, {norm(rv.elts[1])}) but execution receives ({norm(pa)}, {norm(oa)})", norm(x)[:100])
                for v in (rv.elts[0].id, rv.elts[1].id):
                    rd = reaching_defs(g, v)
                    a = set()
                    for n_ in g.of(ret):
                        a |= {d.ast for d in rd[n_]}
                    b = set()
                    for n_ in g.of_stmt_containing(x, run.module):
                        b |= {d.ast for d in rd[n_]}
                    okd = a == b
                    ctx.ob("C14.D4", f"{run.short}/{v}-same-definitions", okd, loc(run, ret),
                           f"{v}: the same definitions reach the dry-run return and the execution" if okd else
                           f"{v}: definitions reaching the execution ({sorted(norm(d)[:50] for d in b - a if d is not None)}) do not reach "
                           f"the dry-run return: the returned plan is not the plan a real run executes", norm(ret))
    # ---------------------------------------------------------------- D2
    n_sites = 0
    stale_funcs = set(rr.stale_closures) | {rr.stale}
    for f in m.funcs.values():
        if not f.module.name.startswith(ENGINE_MODULES):
            continue
        for c in f.own_calls():
            if isinstance(c.func, ast.Attribute) and c.func.attr in ("read", "write"):
                recv = m.origins_of(f, c.func.value)
                filelike = any(o[0] in ("extinst", "extcall", "ext") for o in recv) and not any(o[0] in ("inst",) for o in recv)
                if not filelike:
                    n_sites += 1
                    ctx.ob("C14.D2", f"{f.short}/direct-store-io", False, loc(f, c),
                           f"engine code calls .{c.func.attr}() on a store itself (store I/O outside plan calls also happens in a dry run)", norm(c)[:100])
        for node in f.own_nodes():
            if isinstance(node, ast.Attribute) and node.attr == "get_modified_time":
                n_sites += 1
                ok = f in stale_funcs
                ctx.ob("C14.D2", f"{f.short}/get_modified_time-site", ok, loc(f, node),
                       "modified-time query inside the stale-check callback" if ok else
                       "modified-time query outside the stale check", norm(stmt_of(f.module, node))[:100])
            if isinstance(node, ast.Attribute) and node.attr in ("read", "write") and isinstance(node.ctx, ast.Load):
                p = f.module.parent.get(node)
                if not (isinstance(p, ast.Call) and p.func is node):
                    n_sites += 1
                    ok = "__class__" in norm(node) or norm(node.value).startswith("type(")
                    ctx.ob("C14.D2", f"{f.short}/store-function-object", ok, loc(f, node),
                           "read/write taken as function objects from the store's class (to become plan calls)" if ok else
                           "bound read/write method captured (closes over the store instance outside the plan)", norm(node))
    ctx.floor("C14.D2", "store-operation references in engine modules", n_sites, 3)
    # bundled stores: get_modified_time mutates nothing
    helpers_reach = set()
    n_gm = 0
    for cls in m.classes.values():
        if cls.module.name.startswith("uberjob.stores") and "get_modified_time" in cls.methods and not cls.is_abstract_method("get_modified_time"):
            gm = cls.methods["get_modified_time"]
            n_gm += 1
            bad = []
            # everything the query can execute, also through hooks that subclasses override (`self._hook()` dispatches on the instance)
            reach, work = set(), [gm]
            subclasses = [k for k in m.classes.values() if cls in k.repo_mro()]
            while work:
                f = work.pop()
                if f in reach:
                    continue
                reach.add(f)
                work.extend(m.reachable([f], kinds=("call",)) - reach)
                if f.cls is not None and f.pos_params:
                    for c in f.own_calls():
                        if isinstance(c.func, ast.Attribute) and is_name(c.func.value, f.pos_params[0]):
                            for k in subclasses:
                                ov = k.methods.get(c.func.attr)
                                if ov is not None and ov not in reach:
                                    work.append(ov)
            for f in reach:
                for c in f.own_calls():
                    why = c11.mutating_call(m, f, c)
                    if not why and (ext_names(m, f, c) & {"builtins.open", "io.open", "os.open"}):
                        why = "opens the file"
                    if not why and isinstance(c.func, ast.Attribute) and c.func.attr in ("read", "write") and f.cls is not None and f.pos_params \
                            and is_name(c.func.value, f.pos_params[0]):
                        why = f"calls the store's own {c.func.attr}()"
                    if why:
                        bad.append((f, c, why))
            for f, c, why in bad:
                ctx.ob("C14.D2", f"{cls.name}.get_modified_time", False, loc(f, c),
                       f"a modified-time query does more than look at the file's metadata ({why}): a dry run reads or changes store state", norm(c)[:100])
            if not bad:
                ctx.ob("C14.D2", f"{cls.name}.get_modified_time", True, loc(gm), "neither a file mutation nor a read of the stored value is reachable from the modified-time query (subclass hooks included)")
    ctx.floor("C14.D2", "bundled get_modified_time implementations", n_gm, 4)
    from .c13 import owned_uses
    n_reg = owned_uses(ctx, "C14.D5", m, run, "registry", "registry", {}, [])
    ctx.floor("C14.D5", "uses of the caller's registry during planning", n_reg, 5)
    # ---------------------------------------------------------------- D3
    ctx.run(W.rule_edge_effect_table, "C14.D3", rr)
    rw = rr.rewrite
    regp = [p for p in rr.apply.params if "registry" in p]
    for f in [rw] + rw.all_nested():
        refs = [n for n in f.own_nodes() if isinstance(n, ast.Name) and n.id in ("registry",)]
        ctx.ob("C14.D3", f"{f.short}/no-registry-capture", not refs, loc(f), "the rewriting does not reference the registry object" if not refs else
               "created calls close over the registry")
    lam = [f for f in rw.all_nested() if isinstance(f.node, ast.Lambda)]
    ctx.ob("C14.D3", f"{rw.short}/no-lambda-callees", not lam, loc(rw), "no lambda is used as a plan-call function" if not lam else
           "a lambda (closing over run-time objects) is installed as a plan call")
