"""C19: the gather call that run() creates from `output=` is attributed to a line inside uberjob.

A structured output is converted by run() itself with plan.gather(output).  Plan.gather captures "the caller's frame" - here
uberjob/_run.py, function run - so when that gather call fails at run time, CallError's symbolic traceback starts inside the
library instead of at the user's `uberjob.run(...)` line that created the call.

usage: PYTHONPATH=<tree>/src python C19_output_gather_frame_repro.py   (exit 1 = defect observed, 0 = not observed)"""
import os
import sys

import uberjob


def main():
    plan = uberjob.Plan()
    key = plan.call(list)  # a list is unhashable: building the output dict fails at run time, inside the gather call
    try:
        uberjob.run(plan, output={key: 1}, progress=None)  # <- the user's line that creates the failing gather call
    except uberjob.CallError as e:
        frame = e.call.stack_frame
        innermost = (os.path.basename(frame.path), frame.name, frame.line)
        print("failing call:", e.call.fn.__name__, "| symbolic traceback starts at:", innermost)
        lib = os.sep + "uberjob" + os.sep in frame.path
        print("DEFECT: the traceback starts inside the library" if lib else "ok: the traceback starts at the user's line")
        return 1 if lib else 0
    print("run did not fail?!")
    return 2


if __name__ == "__main__":
    sys.exit(main())
