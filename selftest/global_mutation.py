"""Development tool: global mutation adequacy.  For every breaking-operator site in every top-level function of the
package (except uberjob._testing), build the model of the mutated tree once and run ALL property checks on it.
A mutant counts as reported if any check reports a violation (or an analysis error).  Survivors are the interesting
output: they are either behaviour-preserving / outside every claimed clause, or holes in the rules.
usage: global_mutation.py OUT.jsonl [module-substring ...]"""
import ast, importlib, json, multiprocessing as mp, os, sys, traceback
sys.path.insert(0, "/verif")
from ubcheck.model import AnalysisError, Model
from ubcheck.report import Ctx
from ubcheck import mutate

ALL = [f"C{i:02d}" for i in range(1, 21)]


def work(args):
    modname, path, text, fn_line, idx = args
    try:
        op, desc, src = mutate._make_mutant((modname, path, text, fn_line, idx))
        try:
            compile(src, path, "exec")
        except SyntaxError:
            return dict(mod=modname, op=op, desc=desc, verdict="invalid")
        try:
            model = Model(sources={modname: (path, src)})
        except AnalysisError as e:
            return dict(mod=modname, op=op, desc=desc, verdict="model-error", err=str(e)[:100])
        viol, err = [], []
        for pid in ALL:
            ctx = Ctx(pid, model, "thorough", quiet=True)
            try:
                importlib.import_module(f"ubcheck.rules.{pid.lower()}").check(ctx)
                if ctx.findings:
                    viol.append(pid)
                elif ctx.errors:
                    err.append(pid)
            except AnalysisError:
                (viol if ctx.findings else err).append(pid)
            except Exception:
                err.append(pid)
        return dict(mod=modname, op=op, desc=desc, verdict="violation" if viol else "analysis-error" if err else "silent", viol=viol, err=err)
    except Exception:
        return dict(mod=modname, op="?", desc=f"{fn_line}#{idx}", verdict="crash", err=traceback.format_exc()[-200:])


if __name__ == "__main__":
    out = sys.argv[1]
    filt = sys.argv[2:]
    m = Model()
    jobs = []
    for modname, mod in sorted(m.modules.items()):
        if modname.startswith("uberjob._testing") or (filt and not any(f in modname for f in filt)):
            continue
        tree = ast.parse(mod.src)
        tops = [n for n in tree.body if isinstance(n, ast.FunctionDef)] + [x for c in tree.body if isinstance(c, ast.ClassDef) for x in c.body if isinstance(x, ast.FunctionDef)]
        for fn in tops:
            for i in range(len(mutate.breaking_sites(fn))):
                jobs.append((modname, mod.path, mod.src, fn.lineno, i))
    print(len(jobs), "mutants", flush=True)
    with mp.Pool(int(os.environ.get("PROCS", "14"))) as pool, open(out, "w") as fh:
        for k, r in enumerate(pool.imap_unordered(work, jobs, chunksize=1)):
            fh.write(json.dumps(r) + "\n")
            fh.flush()
            if k % 100 == 0:
                print(k, flush=True)
