"""Development tool (not a registered check): run the checks against every seeded change.

For each /verif/seeded/<id>/patch.diff: make a scratch worktree of /repo outside /repo and /verif, apply the
patch there, run `python -m ubcheck <props>` with UBCHECK_SRC pointing at it and UBCHECK_OUT at a scratch
directory, record exit codes and the rules that fired, remove the worktree.
usage: seeded.py [--dir DIR] [--props C01,C02|all] [ids...]"""
import json, os, subprocess, sys, tempfile, shutil, argparse

ap = argparse.ArgumentParser()
ap.add_argument("--dir", default="/verif/seeded")
ap.add_argument("--props", default="own")
ap.add_argument("ids", nargs="*")
a = ap.parse_args()
ids = a.ids or sorted(os.listdir(a.dir))
import re
allprops = sorted(f[:-3].upper() for f in os.listdir("/verif/ubcheck/rules") if re.fullmatch(r"c\d\d\.py", f))
summary = {}


def one(sid):
    d = os.path.join(a.dir, sid)
    patch = os.path.join(d, "patch.diff")
    if not os.path.exists(patch):
        return None
    wt = tempfile.mkdtemp(prefix="ubseed_")
    out = tempfile.mkdtemp(prefix="ubout_")
    os.rmdir(wt)
    for attempt in range(8):  # concurrent `git worktree add` calls can collide on the administrative files
        if subprocess.run(["git", "-C", "/repo", "worktree", "add", "-q", "--detach", wt, "HEAD"], capture_output=True).returncode == 0:
            break
        import time as _t
        _t.sleep(0.3 * (attempt + 1))
    else:
        raise RuntimeError("git worktree add failed")
    try:
        r = subprocess.run(["git", "-C", wt, "apply", patch], capture_output=True, text=True)
        if r.returncode:
            return f"{sid} PATCH DOES NOT APPLY {r.stderr.strip()[:200]}"
        own = sid.split("-")[0]
        props = allprops if a.props == "all" else ([own] if a.props == "own" else a.props.split(","))
        res = {}
        for p in props:
            if p not in allprops:
                res[p] = "no-check"; continue
            env = dict(os.environ, UBCHECK_SRC=os.path.join(wt, "src"), UBCHECK_OUT=out)
            r = subprocess.run(["/venv/bin/python", "-m", "ubcheck", p], cwd="/verif", env=env, capture_output=True, text=True)
            rules = sorted({w.split("=")[1] for line in r.stdout.splitlines() if "rule=" in line for w in line.split() if w.startswith("rule=")})
            res[p] = f"rc={r.returncode} {','.join(rules)}"
            if r.returncode == 2:
                res[p] += " " + " ".join(l for l in r.stdout.splitlines() if l.startswith("ANALYSIS-ERROR"))[:300]
        flagged = [p for p, v in res.items() if v.startswith("rc=1")]
        return f"{sid} " + ("CAUGHT by " + ",".join(flagged) if flagged else "MISSED") + " " + json.dumps(res)
    finally:
        subprocess.run(["git", "-C", "/repo", "worktree", "remove", "--force", wt])
        shutil.rmtree(out, ignore_errors=True)


from concurrent.futures import ThreadPoolExecutor
with ThreadPoolExecutor(int(os.environ.get("JOBS", "14"))) as ex:
    for line in ex.map(one, ids):
        if line:
            print(line, flush=True)
