"""C16 - intermediate results are released as soon as their last consumer has finished (G1-G4).

Decides the reference structure visible in the code (release in finally, slot table does not escape, closure
capture set, single sink, no retained exception in the retry wrapper).  Actual unreachability / GC timing and
references held by tracebacks of failed calls are not decided."""
from __future__ import annotations

import ast

from ..astq import arg, inside, is_name, loc, names_in, stmt_of, in_body
from ..model import AnalysisError, Func, head, norm
from . import engine as E
from . import runrules as R


def check(ctx):
    m = ctx.model
    ctx.rule("C16.G1", "the run callback clears the current node's bound-call cell in a finally that covers the call (also when the call raises)")
    ctx.rule("C16.G2", "the slot table built during preparation is a local that is neither returned, stored, nor captured by a closure")
    ctx.rule("C16.G3", "the run callback captures only the bound-call table, the observer and the retry decorator")
    ctx.rule("C16.G4", "a call's result flows only into its own result slot; argument lists are locals of BoundCall.run; no memoisation on the path; the retry wrapper does not keep the exception (frame/traceback cycle) after a failed attempt")
    ctx.assume("garbage collection timing and references held by user code are not decided; what the recorded first failure keeps alive is decided on a traceback/frame model (evaluated failure path)")
    try:
        er = E.discover(m)
    except AnalysisError:
        # the engine's error bookkeeping is not in a known form: decide at least what it keeps of failures, then report
        ctx.run(E.rule_failures_not_accumulated, "C16.G4", E.discover(m, partial=True))
        raise
    ctx.run(E.rule_failures_not_accumulated, "C16.G4", er)
    rr = R.discover(m, er)
    cb, prep = rr.runcb, rr.prep_run
    mod = cb.module
    # ---------------------------------------------------------------- G1-G3, evaluated on a symbolic plan (x; c = f(x, 7, k=x)):
    # the bound call is dropped on success and on failure, and afterwards the result of x is unreachable in the abstract
    # heap from everything preparation handed out (whatever table / closure / record would hold it)
    from .evalrules import rule_run_callback
    before = len(ctx.obligations)
    ctx.run(lambda c_: rule_run_callback(c_, rr, rid_release="C16.G1", rid_slots="C16.G2"))
    for o in ctx.obligations[before:]:
        if "/unreachable-" in o["instance"]:
            o["rule"] = "C16.G3"
    from .evalrules import rule_failure_path
    ctx.run(lambda c_: rule_failure_path(c_, rr, rid_retained="C16.G1"))
    # the failed call's frame is pinned by the recorded error's traceback: the BoundCall must not sit in a local of the callback
    runs = [c for c in cb.own_calls() if rr.bound_run in m.callee_funcs(cb, c)]
    for rc in runs:
        recv = rc.func.value if isinstance(rc.func, ast.Attribute) else None
        if isinstance(recv, ast.Name):
            unwrapped = [e for k, e, p_ in cb.bindings.get(recv.id, []) if k == "assign" and isinstance(e, ast.Attribute) and e.attr == "value"]
            ctx.ob("C16.G1", f"{cb.short}/bound-call-not-a-local", not unwrapped, loc(cb, rc),
                   "the BoundCall is reached only through its cell (no local keeps it)" if not unwrapped else
                   f"the BoundCall is bound to the local `{recv.id}` of the run callback: when the call fails, the recorded NodeError's "
                   f"traceback pins this frame, so the failed call's argument slots stay referenced until the run ends", norm(rc)[:80])
        else:
            ctx.ob("C16.G1", f"{cb.short}/bound-call-not-a-local", True, loc(cb, rc), "the BoundCall is reached only through its cell (no local keeps it)")
    from .extra import rule_result_slots
    ctx.run(rule_result_slots, "C16.G4")
    # ---------------------------------------------------------------- G4
    br = rr.bound_run
    stores = [n for n in br.own_nodes() if isinstance(n, ast.Assign) and any(isinstance(c, ast.Call) and isinstance(c.func, ast.Call) for c in ast.walk(n.value))]
    ok = len(stores) == 1 and norm(stores[0].targets[0]) == f"{br.pos_params[0]}.result.value"
    ctx.ob("C16.G4", f"{br.short}/single-sink", ok, loc(br), "the call's result is stored only in its own result slot" if ok else
           "the call's result is stored somewhere else than its own result slot", norm(stores[0]) if stores else "")
    attr_stores = [n for n in br.own_nodes() if isinstance(n, ast.Assign) and isinstance(n.targets[0], ast.Attribute) and norm(n.targets[0]) != f"{br.pos_params[0]}.result.value"]
    ctx.ob("C16.G4", f"{br.short}/args-are-locals", not attr_stores, loc(br), "argument lists are locals of BoundCall.run" if not attr_stores else
           f"BoundCall.run stores `{norm(attr_stores[0].targets[0])}`: argument values stay referenced after the call")
    for f in (br, cb, rr.prep_run):
        bad = [d for d in f.decorator_names() if d in ("lru_cache", "cache", "cached_property")]
        ctx.ob("C16.G4", f"{f.short}/no-memoisation", not bad, loc(f), "no memoisation decorator" if not bad else f"@{bad[0]} keeps arguments/results alive")
    cr = m.one_func("create_retry", "RETRY")
    for w in [f for f in cr.all_nested() if any(isinstance(n, ast.Try) for n in f.own_nodes())]:
        hs = [h for t in w.own_nodes() if isinstance(t, ast.Try) for h in t.handlers]
        for h in hs:
            kept = []
            if h.name:
                for n in ast.walk(h):
                    if isinstance(n, ast.Assign) and h.name in names_in(n.value):
                        kept.append(n)
                    # handed to anything: a callback, a collection, a logger - whatever receives it can keep it, and with it the
                    # traceback, the frames of the failed attempt and the argument values in them
                    if isinstance(n, ast.Call) and any(h.name in names_in(a_) for a_ in list(n.args) + [k_.value for k_ in n.keywords]):
                        kept.append(n)
            after_raises = [n for n in w.own_nodes() if isinstance(n, ast.Raise) and n.exc is not None and not any(inside(w.module, n, hh) for hh in hs)]
            ok = not kept and not after_raises
            ctx.ob("C16.G4", f"{w.short}/exception-not-retained", ok, loc(w, h),
                   "the retry wrapper does not keep the exception of a failed attempt" if ok else
                   "the retry wrapper keeps the exception of a failed attempt (in a local, or by handing it to a callback / collection): exception -> "
                   "traceback -> frames of the attempt -> argument values stay reachable after a later attempt succeeded", head(h))
