"""E9: obligations, findings, evidence files, known-findings matching and exit codes."""
from __future__ import annotations

import json
import os
import time

from .model import AnalysisError

VERIF = os.path.dirname(os.path.dirname(os.path.abspath(__file__)))
_OUT = os.environ.get("UBCHECK_OUT") or VERIF  # development only: redirect evidence/reports of scratch runs
EVIDENCE_DIR = os.path.join(_OUT, "evidence")
REPORT_DIR = os.path.join(_OUT, "reports")
KNOWN_FILE = os.path.join(VERIF, "known_findings.json")


class Ctx:
    """Collects the obligations examined by the rules of one property on one tree."""

    def __init__(self, property_id, model, tier="quick", quiet=False):
        self.pid = property_id
        self.model = model
        self.tier = tier
        self.quiet = quiet
        self.obligations = []  # dicts
        self.floors = []
        self.assumptions = []
        self.trusted = []
        self.notes = {}
        self.rules_text = {}
        self.errors = []

    # -- recording ------------------------------------------------------------------------------------
    def rule(self, rule_id, text):
        """Declare a rule (its one-sentence statement goes to the evidence explanation)."""
        self.rules_text[rule_id] = text

    def ob(self, rule, instance, ok, where="", why="", stmt="", path=""):
        """One obligation = one rule instance examined.  `ok` False => finding."""
        self.obligations.append({
            "rule": rule, "instance": instance, "ok": bool(ok), "where": where, "why": why,
            "stmt": stmt, "path": path,
        })
        return bool(ok)

    def floor(self, rule, what, found, minimum):
        self.floors.append({"rule": rule, "what": what, "found": found, "min": minimum})
        if found < minimum:
            raise AnalysisError(
                f"rule {rule}: found {found} {what}, below the confirmed floor {minimum} "
                f"(a rule that matches nothing would pass vacuously)")

    def run(self, fn, *args, **kw):
        """Run one rule in isolation: an AnalysisError of this rule does not stop the other rules; it makes the
        whole check exit 2 only if no rule found a violation (see __main__)."""
        try:
            return fn(self, *args, **kw)
        except AnalysisError as e:
            self.errors.append(f"{getattr(fn, '__name__', fn)}: {e}")
            return None

    def assume(self, text):
        if text not in self.assumptions:
            self.assumptions.append(text)

    def trust(self, text):
        if text not in self.trusted:
            self.trusted.append(text)

    # -- results --------------------------------------------------------------------------------------
    @property
    def findings(self):
        return [o for o in self.obligations if not o["ok"]]

    @staticmethod
    def key(o):
        return (o["rule"], o["instance"], o["stmt"])


def load_known():
    out = []
    if os.path.exists(KNOWN_FILE):
        with open(KNOWN_FILE) as fh:
            out = json.load(fh).get("findings", [])
    # development harnesses only (selftest/): a corpus patch that is kept against an older commit of /repo is analysed on a
    # scratch tree of that commit (UBCHECK_SRC), where the defects repaired since are still present; they are listed per base
    # commit in selftest/base_known/.  Never honoured for /repo itself.
    extra = os.environ.get("UBCHECK_BASE_KNOWN")
    if extra and os.environ.get("UBCHECK_SRC") and os.path.dirname(os.path.abspath(extra)) == os.path.join(
            os.path.dirname(os.path.dirname(os.path.abspath(__file__))), "selftest", "base_known"):
        with open(extra) as fh:
            out = out + json.load(fh).get("findings", [])
    return out


def finding_line(o):
    return (f"{o['where']}  rule={o['rule']}  instance={o['instance']}  why={o['why']}"
            + (f"  stmt=`{o['stmt']}`" if o["stmt"] else "") + (f"  path={o['path']}" if o["path"] else ""))


def finish(ctx: Ctx, t0, seed, extra_cov=None, print_fn=print):
    """Write evidence + report, print findings, return the exit code."""
    known = [k for k in load_known() if k.get("property") == ctx.pid and k.get("status") == "known"]
    known_keys = {(k["rule"], k["instance"], k.get("statement", "")) for k in known}
    findings = ctx.findings
    def _is_known(o):
        # ("*" as statement: only written by selftest/make_base_known.py for trees of older commits)
        return Ctx.key(o) in known_keys or (o["rule"], o["instance"], "*") in known_keys or \
            any(k_[0] == o["rule"] and k_[2] == "*" and k_[1].startswith("*") and o["instance"].endswith(k_[1][1:]) for k_ in known_keys)
    new = [o for o in findings if not _is_known(o)]
    old = [o for o in findings if _is_known(o)]
    for o in old:
        k = next(k for k in known if k["rule"] == o["rule"] and (k["instance"] == o["instance"] or (k["instance"].startswith("*") and o["instance"].endswith(k["instance"][1:])))
                 and k.get("statement", "") in (o["stmt"], "*"))
        print_fn(f"KNOWN-FINDING: property={ctx.pid} {k.get('short') or k.get('what', o['why'])} [{o['rule']} {o['instance']}]")
    os.makedirs(EVIDENCE_DIR, exist_ok=True)
    os.makedirs(REPORT_DIR, exist_ok=True)
    n_ob = len(ctx.obligations)
    n_ok = sum(1 for o in ctx.obligations if o["ok"])
    distinct = len({(o["rule"], o["instance"], o["stmt"]) for o in ctx.obligations})
    # samples: first obligation of every rule, then fill up to 14
    samples, seen_rules = [], set()
    for o in ctx.obligations:
        if o["rule"] not in seen_rules:
            seen_rules.add(o["rule"])
            samples.append(o)
    for o in ctx.obligations:
        if len(samples) >= 14:
            break
        if o not in samples:
            samples.append(o)
    stats = ctx.model.stats() if ctx.model is not None else {}
    cov = {
        "explanation": (
            f"Static analysis (ast only; nothing imported or executed) of {stats.get('files', '?')} modules of "
            f"/repo/src/uberjob as on disk. Rules applied: "
            + " | ".join(f"{r}: {t}" for r, t in ctx.rules_text.items())),
        "obligations": n_ob,
        "discharged": n_ok,
        "evaluations": n_ob,
        "distinct_nontrivial": distinct,
        "rule": ("one obligation = one (rule, code construct) instance found by the role queries on the current tree; "
                 "distinct = distinct (rule, instance, normalised statement) keys; every instance examines at least "
                 "one concrete AST construct, so all are non-trivial"),
        "samples": [{k: v for k, v in o.items() if v != ""} for o in samples],
        "analysed": stats,
        "floors": ctx.floors,
        "trusted_base": ctx.trusted,
        "rules": sorted(ctx.rules_text),
        "known_findings_matched": len(old),
    }
    cov.update(ctx.notes)
    if extra_cov:
        cov.update(extra_cov)
    ev = {
        "property_id": ctx.pid,
        "tier": ctx.tier,
        "seed": seed,
        "level": "other",
        "coverage": cov,
        "assumptions": ctx.assumptions,
        "wall_s": round(time.time() - t0, 3),
        "violations": len(new),
    }
    with open(os.path.join(EVIDENCE_DIR, f"{ctx.pid}.json"), "w") as fh:
        json.dump(ev, fh, indent=1, default=str)
    rep_path = os.path.join(REPORT_DIR, f"{ctx.pid}.json")
    with open(rep_path, "w") as fh:
        json.dump({"property_id": ctx.pid, "tier": ctx.tier, "findings": findings,
                   "new_findings": new, "obligations": ctx.obligations}, fh, indent=1, default=str)
    if not ctx.quiet:
        print_fn(f"{ctx.pid} [{ctx.tier}]: {n_ob} obligations over rules {', '.join(sorted(ctx.rules_text))}; "
                 f"{n_ok} discharged, {len(new)} violation(s), {len(old)} known finding(s); "
                 f"analysed {stats.get('files')} files / {stats.get('functions')} functions / "
                 f"{stats.get('call_sites')} call sites")
    if new:
        for o in new:
            print_fn(finding_line(o))
        print_fn(f"VIOLATION property={ctx.pid} replay={rep_path}")
        return 1
    return 0
