"""E1-E3: source model, name resolution, value-origin flow and call graph for /repo/src/uberjob.

Everything here works on `ast` trees of the working tree.  Nothing is imported or executed.
"""
from __future__ import annotations

import ast
import os
from collections import defaultdict

SRC_ROOT = os.environ.get("UBCHECK_SRC", "/repo/src")
PKG = "uberjob"


class AnalysisError(Exception):
    """The analysis cannot give a verdict (exit 2) - never a silent pass, never a violation."""


def norm(node) -> str:
    """Normalised statement/expression text: key for findings, insensitive to formatting and line moves."""
    if node is None:
        return "<none>"
    try:
        if isinstance(node, (ast.FunctionDef, ast.AsyncFunctionDef, ast.ClassDef)):
            return f"{type(node).__name__} {node.name}"
        text = ast.unparse(node)
    except Exception:  # pragma: no cover
        text = type(node).__name__
    text = " ".join(text.split())
    return text if len(text) <= 160 else text[:157] + "..."


def head(node) -> str:
    """First line of a compound statement (its header) or the whole simple statement."""
    if isinstance(node, ast.If):
        return "if " + norm(node.test)
    if isinstance(node, ast.While):
        return "while " + norm(node.test)
    if isinstance(node, (ast.For, ast.AsyncFor)):
        return f"for {norm(node.target)} in {norm(node.iter)}"
    if isinstance(node, (ast.With, ast.AsyncWith)):
        return "with " + ", ".join(norm(i) for i in node.items)
    if isinstance(node, ast.Try):
        return "try"
    if isinstance(node, ast.ExceptHandler):
        return "except " + (norm(node.type) if node.type else "")
    return norm(node)


class Module:
    def __init__(self, name, path, src, tree, is_pkg):
        self.name = name
        self.path = path
        self.src = src
        self.tree = tree
        self.is_pkg = is_pkg
        self.parent = {}
        for p in ast.walk(tree):
            for c in ast.iter_child_nodes(p):
                self.parent[c] = p
        self.scope = None  # Scope of module body

    @property
    def relpath(self):
        return os.path.relpath(self.path, os.path.dirname(SRC_ROOT.rstrip("/"))) if False else self.path.replace(
            SRC_ROOT.rstrip("/") + "/", "src/"
        )

    def __repr__(self):
        return f"<Module {self.name}>"


class Class:
    def __init__(self, model, module, node, qualname, outer):
        self.model = model
        self.module = module
        self.node = node
        self.qualname = qualname
        self.name = node.name
        self.outer = outer  # enclosing Func or None
        self.methods = {}
        self.class_assigns = {}  # name -> value expr
        self._mro = None
        self.base_origins = None

    def __repr__(self):
        return f"<Class {self.qualname}>"

    def mro(self):
        """Linearised list of repo classes followed by external base dotted names."""
        if self._mro is None:
            self._mro = [self]  # guard
            seq, ext = [self], []
            for b in self.node.bases:
                for o in self.model.origins_of(self.outer or self.module, b):
                    if o[0] == "class":
                        for c in o[1].mro():
                            if isinstance(c, Class):
                                if c not in seq:
                                    seq.append(c)
                            elif c not in ext:
                                ext.append(c)
                    elif o[0] == "ext" and o[1] not in ext:
                        ext.append(o[1])
            self._mro = seq + ext
        return self._mro

    def repo_mro(self):
        return [c for c in self.mro() if isinstance(c, Class)]

    def ext_bases(self):
        return [c for c in self.mro() if isinstance(c, str)]

    def has_base(self, name):
        return any((c.name == name if isinstance(c, Class) else c.split(".")[-1] == name) for c in self.mro())

    def lookup(self, attr):
        for c in self.repo_mro():
            if attr in c.methods:
                return c.methods[attr]
            if attr in c.class_assigns:
                return ("classattr", c, c.class_assigns[attr])
        return None

    def is_user_extensible(self):
        """Abstract base classes of the public API: user subclasses may implement their methods."""
        return any(isinstance(c, Class) and any(x.split(".")[-1] == "ABC" for x in c.ext_bases()) and
                   any(c.is_abstract_method(m) for m in c.methods) for c in self.repo_mro())

    def subclasses(self):
        return [c for c in self.model.classes.values() if c is not self and self in c.repo_mro()]

    def is_abstract(self):
        """Cannot be instantiated: some abstract method of an ancestor (or its own) is not overridden concretely."""
        names = {n for c in self.repo_mro() for n in c.methods if c.is_abstract_method(n)}
        for n in names:
            got = self.lookup(n)
            if not isinstance(got, tuple) and got is not None and got.cls.is_abstract_method(n):
                return True
        return False

    def is_abstract_method(self, name):
        f = self.methods.get(name)
        return bool(f) and any(norm(d).split(".")[-1] == "abstractmethod" for d in f.node.decorator_list)


class Func:
    """A def or lambda.  `scope` = own-scope bindings; `parent` = enclosing Func (closure) or None."""

    def __init__(self, model, module, node, qualname, parent, cls):
        self.model = model
        self.module = module
        self.node = node
        self.qualname = qualname
        self.parent = parent
        self.cls = cls  # Class if this is a method (direct child of class body)
        self.name = node.name if not isinstance(node, ast.Lambda) else "<lambda>"
        self.bindings = defaultdict(list)  # name -> [(kind, payload...)]
        self.nonlocals = set()
        self.globals_ = set()
        self.nested = []  # nested Funcs (direct)
        a = node.args
        self.pos_params = [x.arg for x in a.posonlyargs + a.args]
        self.kwonly_params = [x.arg for x in a.kwonlyargs]
        self.vararg = a.vararg.arg if a.vararg else None
        self.kwarg = a.kwarg.arg if a.kwarg else None
        self.params = self.pos_params + self.kwonly_params + [p for p in (self.vararg, self.kwarg) if p]
        self.defaults = {}
        pos = a.posonlyargs + a.args
        for p, d in zip(pos[len(pos) - len(a.defaults):], a.defaults):
            self.defaults[p.arg] = d
        for p, d in zip(a.kwonlyargs, a.kw_defaults):
            if d is not None:
                self.defaults[p.arg] = d
        self.decorators = [] if isinstance(node, ast.Lambda) else list(node.decorator_list)

    def __repr__(self):
        return f"<Func {self.qualname}>"

    @property
    def short(self):
        return self.qualname[len(PKG) + 1:] if self.qualname.startswith(PKG + ".") else self.qualname

    @property
    def body(self):
        return [ast.Expr(self.node.body)] if isinstance(self.node, ast.Lambda) else self.node.body

    def decorator_names(self):
        out = []
        for d in self.decorators:
            t = d.func if isinstance(d, ast.Call) else d
            out.append(norm(t).split(".")[-1])
        return out

    @property
    def is_contextmanager(self):
        return "contextmanager" in self.decorator_names()

    def own_nodes(self):
        """All AST nodes of this def excluding nested defs/lambdas/classes (their headers are included)."""
        out = []
        stack = list(self.body)
        while stack:
            n = stack.pop()
            out.append(n)
            if isinstance(n, (ast.FunctionDef, ast.AsyncFunctionDef, ast.ClassDef)):
                # decorators/defaults are evaluated in our scope
                stack.extend(n.decorator_list)
                if not isinstance(n, ast.ClassDef):
                    stack.extend(n.args.defaults)
                    stack.extend(d for d in n.args.kw_defaults if d is not None)
                continue
            if isinstance(n, ast.Lambda):
                continue
            stack.extend(ast.iter_child_nodes(n))
        return out

    def own_calls(self):
        calls = [n for n in self.own_nodes() if isinstance(n, ast.Call)]
        calls.sort(key=lambda c: (c.lineno, c.col_offset))
        return calls

    def own_stmts(self):
        return [n for n in self.own_nodes() if isinstance(n, ast.stmt)]

    def all_nested(self):
        out = []
        for f in self.nested:
            out.append(f)
            out.extend(f.all_nested())
        return out

    def loc(self, node=None):
        node = node or self.node
        return f"{self.module.relpath}:{getattr(node, 'lineno', 0)}"


# external calls whose result is user data held in a library container (never "library code")
EXT_ELEMENT_GETTERS = {"get", "get_nowait", "pop", "popleft", "next", "items", "values", "keys", "nodes", "successors",
                       "predecessors", "in_edges", "out_edges", "edges", "heappop", "getattr", "__getitem__"}
EXT_IDENTITY_DECORATORS = {"wraps", "lru_cache", "total_ordering", "abstractmethod", "staticmethod", "classmethod"}


class Model:
    def __init__(self, root=None, sources=None, canon_level=0):
        """`sources`: optional dict modname -> (path, source text) overriding/adding to what is on disk
        (used by the in-memory mutation tier); otherwise reads every *.py below root/uberjob.
        `canon_level`: 0 = the trees as parsed; >0 = after the semantics-preserving canonicalisation passes of
        canon.py (an equivalent program in the shape the rules know)."""
        self.root = (root or SRC_ROOT).rstrip("/")
        self.canon_level = canon_level
        self.canon_log = []
        self.modules = {}
        self.funcs = {}
        self.classes = {}
        self.func_of_node = {}
        self.class_of_node = {}
        self._orig_cache = {}
        self._in_progress = set()
        self._cycle_hits = 0
        self._prov = {}
        self._prov_changed = False
        self._tmp_nodes = {}
        self._alive = {}
        self.paramvals = defaultdict(set)  # (Func, param) -> set(origins)
        self.api_funcs = set()
        self.fed = set()
        self.call_edges = defaultdict(set)  # Func -> set((Func, kind))
        self.callers = defaultdict(set)  # Func -> set((caller Func, Call node))
        self.thread_targets = []  # (creator Func, Call node, frozenset target origins)
        self.files = 0
        self._load(sources)
        self._index()
        self._fixpoint()

    # ------------------------------------------------------------------ loading
    def _load(self, sources):
        found = {}
        pkgdir = os.path.join(self.root, PKG)
        if not os.path.isdir(pkgdir):
            raise AnalysisError(f"package directory {pkgdir} not found")
        for d, _dirs, files in os.walk(pkgdir):
            if "__pycache__" in d:
                continue
            for fn in sorted(files):
                if fn.endswith(".py"):
                    path = os.path.join(d, fn)
                    rel = os.path.relpath(path, self.root)[:-3].replace(os.sep, ".")
                    is_pkg = rel.endswith(".__init__")
                    if is_pkg:
                        rel = rel[: -len(".__init__")]
                    with open(path, encoding="utf-8") as fh:
                        found[rel] = (path, fh.read(), is_pkg)
        if sources:
            for name, (path, text) in sources.items():
                is_pkg = path.endswith("__init__.py")
                found[name] = (path, text, is_pkg)
        trees = {}
        for name, (path, text, is_pkg) in sorted(found.items()):
            try:
                trees[name] = ast.parse(text, filename=path)
            except SyntaxError as e:
                raise AnalysisError(f"{path} does not parse: {e}")
        from . import canon
        # every variant (also the tree as written): the engine's thread life cycle as one function (canon.inline_thread_pool_withs)
        self.pool_withs_inlined = canon.inline_thread_pool_withs(trees)
        if self.canon_level:
            self.canon_log = canon.canonicalise(trees, self.canon_level, canon.load_known_funcs())
        for name, (path, text, is_pkg) in sorted(found.items()):
            self.modules[name] = Module(name, path, text, trees[name], is_pkg)
            self.files += 1

    def _index(self):
        for mod in self.modules.values():
            mod.bindings = defaultdict(list)
            self._index_body(mod, mod.tree.body, mod.name, None, None, mod)

    def _bind(self, scope, name, item):
        scope.bindings[name].append(item)

    def _bind_target(self, scope, target, kind, value, path=()):
        if isinstance(target, ast.Name):
            self._bind(scope, target.id, (kind, value, path))
        elif isinstance(target, (ast.Tuple, ast.List)):
            for i, t in enumerate(target.elts):
                if isinstance(t, ast.Starred):
                    self._bind_target(scope, t.value, "opaque", value, path + (i,))
                else:
                    self._bind_target(scope, t, kind, value, path + (i,))
        # attribute / subscript targets do not bind names

    def _index_body(self, mod, body, prefix, parent_func, cls, scope):
        """Index statements belonging to `scope` (a Module, Func or Class pseudo-scope)."""
        stack = list(body)
        while stack:
            n = stack.pop(0)
            if isinstance(n, (ast.FunctionDef, ast.AsyncFunctionDef)):
                self._index_func(mod, n, prefix, parent_func, cls, scope)
                continue
            if isinstance(n, ast.ClassDef):
                q = f"{prefix}.{n.name}"
                c = Class(self, mod, n, q, parent_func)
                self.classes[q] = c
                self.class_of_node[n] = c
                if not isinstance(scope, Class):
                    self._bind(scope, n.name, ("class", c, ()))
                cs = c
                cs.bindings = defaultdict(list)
                self._index_body(mod, n.body, q, parent_func, c, cs)
                for nm, items in cs.bindings.items():
                    for it in items:
                        if it[0] == "assign":
                            c.class_assigns[nm] = it[1]
                continue
            self._index_stmt(mod, n, prefix, parent_func, cls, scope)

    def _index_func(self, mod, n, prefix, parent_func, cls, scope):
        q = f"{prefix}.{n.name}"
        f = Func(self, mod, n, q, parent_func, cls if isinstance(scope, Class) else None)
        self.funcs[q] = f
        self.func_of_node[n] = f
        if parent_func is not None:
            parent_func.nested.append(f)
        if isinstance(scope, Class):
            scope.methods[n.name] = f
        else:
            self._bind(scope, n.name, ("def", f, ()))
        for p in f.params:
            self._bind(f, p, ("param", None, ()))
        self._index_exprs(mod, n.decorator_list + n.args.defaults + [d for d in n.args.kw_defaults if d], prefix,
                          parent_func, scope)
        self._index_body(mod, n.body, q, f, None, f)

    def _index_exprs(self, mod, exprs, prefix, parent_func, scope):
        """Find lambdas / comprehensions inside expressions; they belong to `scope`."""
        for e in exprs:
            for sub in self._walk_scope(e):
                if isinstance(sub, ast.Lambda):
                    q = f"{prefix}.<lambda@{sub.lineno}:{sub.col_offset}>"
                    pf = scope if isinstance(scope, Func) else parent_func
                    f = Func(self, mod, sub, q, pf, None)
                    self.funcs[q] = f
                    self.func_of_node[sub] = f
                    if pf is not None:
                        pf.nested.append(f)
                    for p in f.params:
                        self._bind(f, p, ("param", None, ()))
                    self._index_exprs(mod, [sub.body], q, f, f)
                elif isinstance(sub, (ast.ListComp, ast.SetComp, ast.GeneratorExp, ast.DictComp)):
                    for g in sub.generators:
                        if not isinstance(scope, (Class,)):
                            self._bind_target(scope, g.target, "iter", g.iter)
                elif isinstance(sub, ast.NamedExpr) and not isinstance(scope, Class):
                    self._bind_target(scope, sub.target, "assign", sub.value)

    @staticmethod
    def _walk_scope(e):
        """Walk an expression tree without descending into lambda bodies (yields the Lambda itself)."""
        stack = [e]
        while stack:
            n = stack.pop()
            yield n
            if isinstance(n, ast.Lambda):
                continue
            stack.extend(ast.iter_child_nodes(n))

    def _index_stmt(self, mod, n, prefix, parent_func, cls, scope):
        b = scope
        if isinstance(n, ast.Assign):
            for t in n.targets:
                self._bind_target(b, t, "assign", n.value)
            self._index_exprs(mod, [n.value] + n.targets, prefix, parent_func, scope)
        elif isinstance(n, ast.AnnAssign):
            if n.value is not None:
                self._bind_target(b, n.target, "assign", n.value)
                self._index_exprs(mod, [n.value], prefix, parent_func, scope)
            elif isinstance(n.target, ast.Name):
                self._bind(b, n.target.id, ("annot", n.annotation, ()))
        elif isinstance(n, ast.AugAssign):
            self._bind_target(b, n.target, "aug", n.value)
            self._index_exprs(mod, [n.value], prefix, parent_func, scope)
        elif isinstance(n, (ast.For, ast.AsyncFor)):
            self._bind_target(b, n.target, "iter", n.iter)
            self._index_exprs(mod, [n.iter], prefix, parent_func, scope)
            self._index_body(mod, n.body + n.orelse, prefix, parent_func, cls, scope)
        elif isinstance(n, ast.While):
            self._index_exprs(mod, [n.test], prefix, parent_func, scope)
            self._index_body(mod, n.body + n.orelse, prefix, parent_func, cls, scope)
        elif isinstance(n, ast.If):
            self._index_exprs(mod, [n.test], prefix, parent_func, scope)
            self._index_body(mod, n.body + n.orelse, prefix, parent_func, cls, scope)
        elif isinstance(n, (ast.With, ast.AsyncWith)):
            for it in n.items:
                if it.optional_vars is not None:
                    self._bind_target(b, it.optional_vars, "with", it.context_expr)
                self._index_exprs(mod, [it.context_expr], prefix, parent_func, scope)
            self._index_body(mod, n.body, prefix, parent_func, cls, scope)
        elif isinstance(n, ast.Try):
            self._index_body(mod, n.body, prefix, parent_func, cls, scope)
            for h in n.handlers:
                if h.name:
                    self._bind(b, h.name, ("except", h.type, ()))
                self._index_body(mod, h.body, prefix, parent_func, cls, scope)
            self._index_body(mod, n.orelse + n.finalbody, prefix, parent_func, cls, scope)
        elif isinstance(n, ast.Import):
            for a in n.names:
                if a.asname:
                    self._bind(b, a.asname, ("import", a.name, ()))
                else:
                    self._bind(b, a.name.split(".")[0], ("import", a.name.split(".")[0], ()))
        elif isinstance(n, ast.ImportFrom):
            base = n.module or ""
            if n.level:
                pkg = mod.name if mod.is_pkg else mod.name.rsplit(".", 1)[0]
                for _ in range(n.level - 1):
                    pkg = pkg.rsplit(".", 1)[0]
                base = f"{pkg}.{base}" if base else pkg
            for a in n.names:
                self._bind(b, a.asname or a.name, ("import", f"{base}.{a.name}", ()))
        elif isinstance(n, ast.Nonlocal) and isinstance(scope, Func):
            scope.nonlocals.update(n.names)
        elif isinstance(n, ast.Global) and isinstance(scope, Func):
            scope.globals_.update(n.names)
        elif isinstance(n, ast.Match):
            self._index_exprs(mod, [n.subject], prefix, parent_func, scope)
            for c in n.cases:
                for sub in ast.walk(c.pattern):
                    nm = getattr(sub, "name", None)
                    if isinstance(sub, (ast.MatchAs, ast.MatchStar)) and nm:
                        self._bind(b, nm, ("opaque", None, ()))
                self._index_body(mod, c.body, prefix, parent_func, cls, scope)
        else:
            self._index_exprs(mod, [c for c in ast.iter_child_nodes(n) if isinstance(c, ast.expr)], prefix,
                              parent_func, scope)

    # ------------------------------------------------------------------ lookup helpers
    def find_funcs(self, name, module_suffix=None):
        out = [f for f in self.funcs.values() if f.name == name]
        if module_suffix:
            out = [f for f in out if f.module.name.endswith(module_suffix)]
        return out

    def one_func(self, name, role):
        fs = [f for f in self.find_funcs(name)]
        top = [f for f in fs if f.parent is None and f.cls is None]
        fs = top or fs
        if len(fs) != 1:
            raise AnalysisError(f"role {role}: expected exactly one def named {name!r}, found {[f.qualname for f in fs]}")
        return fs[0]

    def one_class(self, name, role):
        cs = [c for c in self.classes.values() if c.name == name]
        if len(cs) != 1:
            raise AnalysisError(f"role {role}: expected exactly one class named {name!r}, found {[c.qualname for c in cs]}")
        return cs[0]

    def method(self, clsname, meth, role):
        c = self.one_class(clsname, role)
        f = c.methods.get(meth)
        if f is None:
            raise AnalysisError(f"role {role}: class {clsname} has no method {meth}")
        return f

    def enclosing_func(self, mod, node):
        p = mod.parent.get(node)
        while p is not None:
            if p in self.func_of_node:
                return self.func_of_node[p]
            p = mod.parent.get(p)
        return None

    # ------------------------------------------------------------------ origins
    def _resolve_dotted(self, dotted):
        """A dotted import target -> origin."""
        if dotted in self.modules:
            return ("module", self.modules[dotted])
        if dotted.startswith(PKG + ".") or dotted == PKG:
            modname, _, attr = dotted.rpartition(".")
            if modname in self.modules:
                got = self._lookup_scope(self.modules[modname], attr)
                if got:
                    return got
            return ("unknown", f"unresolved:{dotted}")
        return ("ext", dotted)

    def _lookup_scope(self, scope, name, depth=0):
        """Origins bound to `name` directly in `scope` (Module or Func); None if not bound there."""
        items = scope.bindings.get(name)
        if not items:
            return None
        out = set()
        for kind, payload, path in items:
            if kind == "def":
                out.add(("func", payload))
            elif kind == "class":
                out.add(("class", payload))
            elif kind == "import":
                r = self._resolve_dotted(payload)
                if isinstance(r, frozenset):
                    out |= r
                else:
                    out.add(r)
            elif kind == "param":
                out |= self._param_origins(scope, name, depth)
            elif kind == "assign":
                vals = self.origins_of(scope, payload, depth + 1)
                out |= self._project(vals, path, scope, payload, depth)
            elif kind == "with":
                for o in self.origins_of(scope, payload, depth + 1):
                    if o[0] == "ctx":
                        out |= self._project(self._yield_origins(o[1], depth), path, scope, payload, depth)
                    elif o[0] in ("extinst", "inst"):
                        out.add(o) if not path else out.add(("unknown", "with-unpack"))
                    else:
                        out.add(("unknown", "with"))
            elif kind == "iter":
                out |= self._project(self.elem_origins(scope, payload, depth + 1), path, scope, payload, depth)
            elif kind == "except":
                out.add(("exception", norm(payload) if payload is not None else "BaseException"))
            elif kind == "aug":
                out.add(("unknown", "aug"))
            else:
                out.add(("unknown", kind))
        return frozenset(out)

    def _param_origins(self, f, name, depth):
        out = set()
        if (f.cls is not None and f.pos_params and name == f.pos_params[0]
                and "staticmethod" not in f.decorator_names()):
            if "classmethod" in f.decorator_names():
                return {("class", f.cls)}
            return {("inst", f.cls)}
        vals = self.paramvals.get((f, name))
        if vals:
            out |= vals
        if f.qualname in self.api_funcs or (f, name) not in self.fed:
            out.add(("param", f, name))
        ann = None
        if not isinstance(f.node, ast.Lambda):
            a = f.node.args
            for p in a.posonlyargs + a.args + a.kwonlyargs:
                if p.arg == name:
                    ann = p.annotation
        if ann is not None:
            for part in self._ann_parts(ann):
                for o in self.origins_of(f.parent or f.module, part, depth + 1):
                    if o[0] == "class":
                        out.add(("inst", o[1]))
                    elif o[0] == "ext" and o[1].split(".")[-1][:1].isupper() and not o[1].startswith(("typing.", "collections.abc.", "builtins.")):
                        out.add(("extinst", o[1]))
        return out

    @staticmethod
    def _ann_parts(ann):
        if isinstance(ann, ast.BinOp) and isinstance(ann.op, ast.BitOr):
            return Model._ann_parts(ann.left) + Model._ann_parts(ann.right)
        if isinstance(ann, ast.Constant):
            return []
        if isinstance(ann, ast.Subscript):
            return []
        return [ann]

    def _project(self, vals, path, scope, expr, depth):
        if not path:
            return set(vals)
        out = set()
        for v in vals:
            if v[0] == "tuple":
                cur = v
                ok = True
                for k, i in enumerate(path):
                    if isinstance(cur, tuple) and cur and cur[0] == "tuple" and i < len(cur[1]):
                        nxt = cur[1][i]
                        # elements are frozensets of origins
                        if k == len(path) - 1:
                            cur = nxt
                        else:
                            cur = next(iter(nxt)) if len(nxt) == 1 else ("unknown", "nested-tuple")
                    else:
                        ok = False
                        break
                if ok and isinstance(cur, frozenset):
                    out |= cur
                else:
                    out.add(("unknown", "unpack"))
            else:
                out.add(("unknown", "unpack"))
        return out

    def _yield_origins(self, func, depth):
        out = set()
        for n in func.own_nodes():
            if isinstance(n, ast.Yield):
                if n.value is None:
                    out.add(("const", None))
                else:
                    out |= self.origins_of(func, n.value, depth + 1)
        return out

    def lookup_name(self, scope, name, depth=0):
        s = scope
        first = True
        while s is not None:
            if isinstance(s, Func):
                if name in s.globals_:
                    s = s.module
                    continue
                if name not in s.nonlocals or not first:
                    got = self._lookup_scope(s, name, depth)
                    if got is not None:
                        return got
                first = False
                s = s.parent if s.parent is not None else s.module
            elif isinstance(s, Class):
                s = s.outer or s.module
            else:  # Module
                got = self._lookup_scope(s, name, depth)
                if got is not None:
                    return got
                return frozenset({("ext", f"builtins.{name}")})
        return frozenset({("unknown", name)})

    def binding_scope(self, scope, name):
        """The Func/Module whose bindings define `name` as seen from `scope`."""
        s = scope
        first = True
        while s is not None:
            if isinstance(s, Func):
                if name in s.globals_:
                    return s.module
                if (name not in s.nonlocals or not first) and name in s.bindings:
                    return s
                first = False
                s = s.parent if s.parent is not None else s.module
            elif isinstance(s, Class):
                s = s.outer or s.module
            else:
                return s if name in s.bindings else None
        return None

    def origins_of(self, scope, expr, depth=0):
        """Set of origins (unexpanded: may contain ('param', f, name) placeholders).

        Value flow is cyclic (a variable fed from a call whose argument is fed from the variable ...).  A query that runs into
        a key already being evaluated reads that key's *provisional* value; the outermost query is repeated until no
        provisional value changes.  All operations are unions, so this chaotic iteration reaches the least fixed point and
        the answer does not depend on the order in which sets happen to be iterated (which follows object addresses)."""
        key = (id(scope), id(expr))
        if key in self._orig_cache:
            return self._orig_cache[key]
        # keys are object identities: keep every queried node alive as long as results are cached, so that the identity
        # of a freed temporary (a rule's rewritten expression, a synthetic node) is never taken over by another node
        self._alive[key] = (scope, expr)
        if key in self._in_progress or depth > 40:
            self._cycle_hits += 1
            return self._prov.get(key, frozenset())
        if self._in_progress:
            self._in_progress.add(key)
            hits = self._cycle_hits
            try:
                res = frozenset(self._origins(scope, expr, depth))
            finally:
                self._in_progress.discard(key)
            if hits == self._cycle_hits:
                self._orig_cache[key] = res  # nothing provisional was read: exact
            else:
                old = self._prov.get(key, frozenset())
                res = res | old
                if res != old:
                    self._prov[key] = res
                    self._prov_changed = True
            return res
        # outermost query
        self._prov = {}
        res = frozenset()
        for _round in range(60):
            self._prov_changed = False
            hits = self._cycle_hits
            self._in_progress.add(key)
            try:
                res = frozenset(self._origins(scope, expr, depth))
            finally:
                self._in_progress.discard(key)
            if hits == self._cycle_hits:
                break
            old = self._prov.get(key, frozenset())
            res = res | old
            if res != old:
                self._prov[key] = res
                self._prov_changed = True
            if not self._prov_changed:
                break
        else:  # pragma: no cover
            raise AnalysisError("value-origin fixed point did not converge")
        self._orig_cache[key] = res
        for k_, v_ in self._prov.items():
            self._orig_cache.setdefault(k_, v_)
        self._prov = {}
        return res

    def _origins(self, scope, e, depth):
        if isinstance(e, ast.Name):
            return self.lookup_name(scope, e.id, depth)
        if isinstance(e, ast.Constant):
            return {("const", e.value)}
        if isinstance(e, ast.Lambda):
            f = self.func_of_node.get(e)
            return {("func", f)} if f else {("unknown", "lambda")}
        if isinstance(e, ast.Attribute):
            out = set()
            for b in self.origins_of(scope, e.value, depth + 1):
                out |= self._attr(b, e.attr, scope, depth)
            return out
        if isinstance(e, ast.Call):
            out = set()
            for c in self.origins_of(scope, e.func, depth + 1):
                out |= self._call_result(c, e, scope, depth)
            return out
        if isinstance(e, ast.IfExp):
            return set(self.origins_of(scope, e.body, depth + 1)) | set(self.origins_of(scope, e.orelse, depth + 1))
        if isinstance(e, ast.BoolOp):
            out = set()
            for v in e.values:
                out |= self.origins_of(scope, v, depth + 1)
            return out
        if isinstance(e, ast.NamedExpr):
            return self.origins_of(scope, e.value, depth + 1)
        if isinstance(e, ast.Tuple) and isinstance(e.ctx, ast.Load):
            return {_cap_tuple(("tuple", tuple(frozenset(self.origins_of(scope, x, depth + 1)) for x in e.elts), None))}
        if isinstance(e, ast.Subscript):
            return self.elem_origins(scope, e.value, depth + 1, for_subscript=True)
        if isinstance(e, ast.Starred):
            return self.origins_of(scope, e.value, depth + 1)
        if isinstance(e, (ast.List, ast.Set, ast.ListComp, ast.SetComp, ast.Dict, ast.DictComp, ast.GeneratorExp)):
            return {("container", scope, e)}
        if isinstance(e, ast.Await):
            return self.origins_of(scope, e.value, depth + 1)
        return {("unknown", type(e).__name__)}

    def _attr(self, b, attr, scope, depth):
        k = b[0]
        if k == "module":
            got = self._lookup_scope(b[1], attr, depth)
            return set(got) if got else {("unknown", f"{b[1].name}.{attr}")}
        if k == "ext":
            return {("ext", _extname(b[1], attr))}
        if k == "extinst":
            return {("ext", _extname(b[1], attr))}
        if k == "extcall":
            return {("ext", _extname(b[1] + "()", attr))}
        if k == "tuple" and len(b) > 2 and b[2] is not None:
            fields = [s_.target.id for s_ in b[2].node.body if isinstance(s_, ast.AnnAssign) and isinstance(s_.target, ast.Name)]
            if attr in fields and fields.index(attr) < len(b[1]):
                return set(b[1][fields.index(attr)])
            return {("unknown", f"tuple.{attr}")}
        if k == "const":
            return {("ext", f"builtins.{type(b[1]).__name__}.{attr}")}
        if k == "class":
            got = b[1].lookup(attr)
            if isinstance(got, Func):
                return {("func", got)}
            if isinstance(got, tuple):
                return set(self.origins_of(got[1].outer or got[1].module, got[2], depth + 1))
            exts = b[1].ext_bases()
            return {("ext", f"{exts[0]}.{attr}")} if exts else {("unknown", f"{b[1].name}.{attr}")}
        if k == "inst":
            cls = b[1]
            out = set()
            cands = [cls] + cls.subclasses()
            found = False
            if cls.is_user_extensible() and (cls.lookup(attr) is not None):
                out.add(("usermethod", cls.name, attr))
            for c in cands:
                got = c.lookup(attr)
                if isinstance(got, Func):
                    out.add(("bound", got))
                    found = True
                elif isinstance(got, tuple):
                    for o in self.origins_of(got[1].outer or got[1].module, got[2], depth + 1):
                        out.add(("bound", o[1]) if o[0] == "func" else o)
                    found = True
            if not found:
                # instance attribute: self.attr = expr in any method of the MRO
                for c in cls.repo_mro():
                    for m in c.methods.values():
                        if not m.pos_params:
                            continue
                        selfname = m.pos_params[0]
                        for n in m.own_nodes():
                            if isinstance(n, (ast.Assign, ast.AnnAssign)):
                                tg = n.targets if isinstance(n, ast.Assign) else [n.target]
                                for t in tg:
                                    if (isinstance(t, ast.Attribute) and t.attr == attr
                                            and isinstance(t.value, ast.Name) and t.value.id == selfname
                                            and n.value is not None):
                                        out |= self.origins_of(m, n.value, depth + 1)
                                        found = True
                if not found:
                    exts = cls.ext_bases()
                    if exts:
                        out.add(("ext", f"{exts[0]}.{attr}"))
                    else:
                        out.add(("unknown", f"{cls.name}.{attr}"))
            return out
        if k in ("param", "attr", "unknown", "callres", "elem", "bound", "func", "exception", "usermethod"):
            return {_cap(("attr", b, attr))}
        return {("unknown", f"{k}.{attr}")}

    def _call_result(self, c, call, scope, depth):
        k = c[0]
        if k in ("func", "bound"):
            f = c[1]
            names = f.decorator_names()
            if "contextmanager" in names:
                return {("ctx", f)}
            unknown_decos = [d for d in names if d not in EXT_IDENTITY_DECORATORS]
            if unknown_decos:
                return {("unknown", f"decorated:{f.qualname}")}
            out = set()
            if isinstance(f.node, ast.Lambda):
                out |= self.origins_of(f, f.node.body, depth + 1)
            else:
                is_gen = False
                for n in f.own_nodes():
                    if isinstance(n, (ast.Yield, ast.YieldFrom)):
                        is_gen = True
                    if isinstance(n, ast.Return) and n.value is not None:
                        out |= self.origins_of(f, n.value, depth + 1)
                if is_gen:
                    return {("gen", f)}
            if not out:
                out.add(("const", None))
            return out
        if k == "class":
            cls = c[1]
            if "NamedTuple" in [x.split(".")[-1] for x in cls.ext_bases()]:
                fields = [s.target.id for s in cls.node.body if isinstance(s, ast.AnnAssign) and isinstance(s.target, ast.Name)]
                elems = [frozenset({("unknown", "nt-field")}) for _ in fields]
                for i, a in enumerate(call.args):
                    if i < len(elems) and not isinstance(a, ast.Starred):
                        elems[i] = frozenset(self.origins_of(scope, a, depth + 1))
                for kw in call.keywords:
                    if kw.arg in fields:
                        elems[fields.index(kw.arg)] = frozenset(self.origins_of(scope, kw.value, depth + 1))
                return {_cap_tuple(("tuple", tuple(elems), cls))}
            return {("inst", cls)}
        if k == "ext":
            name = c[1]
            if name in ("functools.partial",) and call.args:
                return {("partial", frozenset(self.origins_of(scope, call.args[0], depth + 1)), id(call))}
            if name in ("functools.wraps", "functools.lru_cache"):
                return {("identity_decorator", name)}
            last = name.split(".")[-1]
            if name.endswith("*"):
                return {("ext", name)}
            if last in EXT_ELEMENT_GETTERS:
                return {("unknown", f"element-of:{name}")}
            return {("extinst", name)} if last[:1].isupper() else {("extcall", name)}
        if k == "identity_decorator" and call.args:
            return set(self.origins_of(scope, call.args[0], depth + 1))
        if k == "partial":
            out = set()
            for o in c[1]:
                out |= self._call_result(o, call, scope, depth)
            return out
        if k == "inst":
            got = c[1].lookup("__call__")
            if isinstance(got, Func):
                return self._call_result(("bound", got), call, scope, depth)
        return {_cap(("callres", c))}

    def elem_origins(self, scope, e, depth=0, for_subscript=False):
        """Origins of the elements (or dict values, for subscripts) of the container denoted by `e`."""
        if depth > 40:
            return frozenset()
        out = set()
        if isinstance(e, (ast.List, ast.Tuple, ast.Set)):
            for x in e.elts:
                out |= self.origins_of(scope, x, depth + 1)
            return frozenset(out)
        if isinstance(e, (ast.ListComp, ast.SetComp, ast.GeneratorExp)):
            return self.origins_of(scope, e.elt, depth + 1)
        if isinstance(e, ast.DictComp):
            return self.origins_of(scope, e.value if for_subscript else e.key, depth + 1)
        if isinstance(e, ast.Dict):
            for x in (e.values if for_subscript else e.keys):
                if x is not None:
                    out |= self.origins_of(scope, x, depth + 1)
            return frozenset(out)
        if isinstance(e, ast.Call):
            for c in self.origins_of(scope, e.func, depth + 1):
                if c[0] == "ext" and c[1] in ("builtins.list", "builtins.tuple", "builtins.set", "builtins.sorted",
                                              "builtins.reversed", "builtins.iter", "builtins.frozenset",
                                              "collections.deque") and e.args:
                    out |= self.elem_origins(scope, e.args[0], depth + 1)
                    return frozenset(out)
                if c[0] == "ext" and c[1] == "builtins.range":
                    return frozenset({("const", "int")})
                if c[0] in ("gen",):
                    pass
        if isinstance(e, ast.Name):
            bs = self.binding_scope(scope, e.id)
            # .append(x) / .add(x) / name[k] = v in the defining scope and the closures that see it
            if isinstance(bs, Func):
                for s_ in [bs] + bs.all_nested():
                    if s_ is not bs and self.binding_scope(s_, e.id) is not bs:
                        continue
                    for n in s_.own_nodes():
                        if (isinstance(n, ast.Call) and isinstance(n.func, ast.Attribute)
                                and isinstance(n.func.value, ast.Name) and n.func.value.id == e.id
                                and n.func.attr in ("append", "add", "appendleft") and n.args):
                            out |= self.origins_of(s_, n.args[0], depth + 1)
                        if isinstance(n, ast.Assign) and for_subscript:
                            for t in n.targets:
                                if (isinstance(t, ast.Subscript) and isinstance(t.value, ast.Name)
                                        and t.value.id == e.id):
                                    out |= self.origins_of(s_, n.value, depth + 1)
        for o in self.origins_of(scope, e, depth + 1):
            if o[0] == "container":
                out |= self.elem_origins(o[1], o[2], depth + 1, for_subscript)
                # a container created empty and filled through its variable (x = {}; x[k] = v / x.append(v)):
                # follow the variable it was bound to in the creating scope
                try:
                    par = o[1].module.parent.get(o[2]) if hasattr(o[1], "module") else None
                except Exception:
                    par = None
                tgt = None
                if isinstance(par, ast.Assign) and len(par.targets) == 1 and isinstance(par.targets[0], ast.Name) and par.value is o[2]:
                    tgt = par.targets[0].id
                elif isinstance(par, ast.AnnAssign) and isinstance(par.target, ast.Name) and par.value is o[2]:
                    tgt = par.target.id
                if tgt is not None and not (isinstance(e, ast.Name) and e.id == tgt and scope is o[1]):
                    # the synthetic Name node is kept alive for the life of the model: origins are cached by node identity,
                    # and the identity of a freed temporary would be reused by the next one
                    tkey = (id(o[1]), id(o[2]), tgt)
                    if tkey not in self._tmp_nodes:
                        self._tmp_nodes[tkey] = ast.copy_location(ast.Name(id=tgt, ctx=ast.Load()), o[2])
                    out |= self.elem_origins(o[1], self._tmp_nodes[tkey], depth + 1, for_subscript)
            elif o[0] == "tuple":
                for el in o[1]:
                    out |= el
            elif o[0] == "gen":
                for n in o[1].own_nodes():
                    if isinstance(n, ast.Yield) and n.value is not None:
                        out |= self.origins_of(o[1], n.value, depth + 1)
            elif o[0] == "const":
                pass
            else:
                out.add(_cap(("elem", o)))
        return frozenset(out)

    # ------------------------------------------------------------------ fixed point
    def expand(self, origins):
        return frozenset(origins)

    def callee_origins(self, func, call):
        """Origins of the callee expression of `call` (a Call node in `func`'s own scope)."""
        return self.origins_of(func, call.func)

    def callee_funcs(self, func, call):
        out = set()
        for o in self.callee_origins(func, call):
            out |= self._funcs_of_origin(o)
        return out

    def _funcs_of_origin(self, o):
        if o[0] in ("func", "bound", "ctx", "gen"):
            return {o[1]}
        if o[0] == "class":
            init = o[1].lookup("__init__")
            return {init} if isinstance(init, Func) else set()
        if o[0] == "partial":
            out = set()
            for x in self.expand(o[1]):
                out |= self._funcs_of_origin(x)
            return out
        if o[0] == "inst":
            got = o[1].lookup("__call__")
            return {got} if isinstance(got, Func) else set()
        return set()

    def _bind_args(self, caller, call, target, bound, shift=0):
        """Bind the arguments of `call` to the parameters of Func `target`."""
        changed = False
        pos = list(target.pos_params)
        if (bound or (target.cls is not None and "staticmethod" not in target.decorator_names())) and pos:
            # method: first param is self when called through an instance / class constructor
            if bound:
                pos = pos[1:]
        pos = pos[shift:]
        i = 0
        for a in call.args:
            if isinstance(a, ast.Starred):
                break
            vals = self.origins_of(caller, a)
            if i < len(pos):
                key = (target, pos[i])
            elif target.vararg:
                key = (target, target.vararg)
            else:
                break
            if not vals <= self.paramvals[key]:
                if os.environ.get("UBCHECK_DEBUG"):
                    print("NEW", key[0].short, key[1], sorted(describe(v) for v in vals - self.paramvals[key])[:5])
                self.paramvals[key] |= vals
                changed = True
            i += 1
        for kw in call.keywords:
            if kw.arg is None:
                continue
            if kw.arg in target.params:
                key = (target, kw.arg)
            elif target.kwarg:
                key = (target, target.kwarg)
            else:
                continue
            vals = self.origins_of(caller, kw.value)
            if not vals <= self.paramvals[key]:
                self.paramvals[key] |= vals
                changed = True
        return changed

    def _fixpoint(self):
        self.api_funcs = self._compute_api()
        self.fed = set()
        self._run_fixpoint()
        # second pass: parameters that are fed by repo call sites no longer carry an "external" placeholder,
        # so values computed in early rounds (before the callers were known) do not linger.
        self.fed = {k for k, v in self.paramvals.items() if v}
        self.paramvals.clear()
        self.call_edges.clear()
        self.callers.clear()
        self._run_fixpoint()

    def _run_fixpoint(self):
        all_funcs = list(self.funcs.values())
        for _round in range(30):
            changed = False
            self._orig_cache.clear()
            self.thread_targets = []
            for f in all_funcs:
                for call in f.own_calls():
                    for o in self.callee_origins(f, call):
                        changed |= self._link(f, call, o)
                # with-statements entering ctx managers are calls already (with f(...)).
            # implicit calls: class instantiation -> __init__ handled in _link; decorators
            if not changed:
                break
            for c in self.classes.values():
                c._mro = None
        else:  # pragma: no cover
            raise AnalysisError("call-graph fixed point did not converge in 30 rounds")

    def _compute_api(self):
        """Qualnames of defs whose parameters are fed from outside the repo: exports (`__all__`) of the public
        modules (no path component starting with '_') and the non-private methods of exported classes."""
        self.api_funcs = set()
        self.fed = set()
        api = set()
        for mod in self.modules.values():
            if any(part.startswith("_") for part in mod.name.split(".")):
                continue
            names = []
            for kind, payload, path in mod.bindings.get("__all__", []):
                if kind == "assign" and isinstance(payload, (ast.List, ast.Tuple)):
                    names += [x.value for x in payload.elts if isinstance(x, ast.Constant)]
            for nm in names:
                for o in self._lookup_scope(mod, nm) or ():
                    if o[0] == "func":
                        api.add(o[1].qualname)
                    elif o[0] == "class":
                        for c in [o[1]] + o[1].subclasses():
                            for m in c.methods.values():
                                if not m.name.startswith("_") or (m.name.startswith("__") and m.name.endswith("__")):
                                    api.add(m.qualname)
                    elif o[0] == "module" and not any(p.startswith("_") for p in o[1].name.split(".")):
                        pass
        self._orig_cache.clear()
        return api

    def _link(self, f, call, o):
        changed = False
        k = o[0]
        if k in ("func", "bound"):
            t = o[1]
            if (t, "call") not in self.call_edges[f]:
                self.call_edges[f].add((t, "call"))
                changed = True
            self.callers[t].add((f, call))
            bound = k == "bound"
            changed |= self._bind_args(f, call, t, bound)
        elif k == "class":
            init = o[1].lookup("__init__")
            if isinstance(init, Func):
                if (init, "call") not in self.call_edges[f]:
                    self.call_edges[f].add((init, "call"))
                    changed = True
                self.callers[init].add((f, call))
                changed |= self._bind_args(f, call, init, True)
        elif k == "partial":
            for x in self.expand(o[1]):
                for t in self._funcs_of_origin(x):
                    if (t, "call") not in self.call_edges[f]:
                        self.call_edges[f].add((t, "call"))
                        changed = True
                    self.callers[t].add((f, call))
        elif k == "inst":
            got = o[1].lookup("__call__")
            if isinstance(got, Func):
                changed |= self._link(f, call, ("bound", got))
        elif k == "ext":
            if o[1] == "threading.Thread":
                tg = frozenset()
                for kw in call.keywords:
                    if kw.arg == "target":
                        tg = self.expand(self.origins_of(f, kw.value))
                if len(call.args) >= 2:
                    tg = self.expand(self.origins_of(f, call.args[1]))
                self.thread_targets.append((f, call, tg))
                # Thread(target=f, args=(a, b), kwargs={...}): the arguments the new thread calls f with
                targs = [kw.value for kw in call.keywords if kw.arg == "args"]
                tkw = [kw.value for kw in call.keywords if kw.arg == "kwargs"]
                for x in tg:
                    for t in self._funcs_of_origin(x):
                        if (t, "thread") not in self.call_edges[f]:
                            self.call_edges[f].add((t, "thread"))
                            changed = True
                        elts = targs[0].elts if targs and isinstance(targs[0], (ast.Tuple, ast.List)) else []
                        kws = []
                        if tkw and isinstance(tkw[0], ast.Dict):
                            kws = [ast.keyword(arg=k_.value, value=v_) for k_, v_ in zip(tkw[0].keys, tkw[0].values)
                                   if isinstance(k_, ast.Constant) and isinstance(k_.value, str)]
                        if elts or kws:
                            fake = ast.Call(func=call.func, args=list(elts), keywords=kws)
                            changed |= self._bind_args(f, fake, t, x[0] in ("bound",))
            elif o[1] == "functools.partial" and call.args:
                # partial(X, a, b): bind a, b to X's leading parameters
                for x in self.expand(self.origins_of(f, call.args[0])):
                    for t in self._funcs_of_origin(x):
                        fake = ast.Call(func=call.func, args=call.args[1:], keywords=call.keywords)
                        changed |= self._bind_args(f, fake, t, x[0] in ("bound", "class"))
        return changed

    # ------------------------------------------------------------------ reachability
    def reachable(self, roots, kinds=("call", "thread")):
        seen = set()
        work = list(roots)
        while work:
            f = work.pop()
            if f in seen:
                continue
            seen.add(f)
            for t, kind in self.call_edges.get(f, ()):
                if kind in kinds:
                    work.append(t)
        return seen

    def stats(self):
        total = resolved = 0
        for f in self.funcs.values():
            for c in f.own_calls():
                total += 1
                os_ = self.callee_origins(f, c)
                if os_ and all(o[0] in ("func", "bound", "class", "ext", "partial", "ctx", "inst", "identity_decorator")
                               for o in os_):
                    resolved += 1
        return {"files": self.files, "functions": len(self.funcs), "classes": len(self.classes),
                "call_sites": total, "call_sites_fully_resolved": resolved}


def _extname(base, attr):
    """Dotted external name, bounded in length so recursive helpers reach a fixed point."""
    if base.endswith("*"):
        return base
    name = f"{base}.{attr}"
    return name if name.count(".") < 6 else base + ".*"


def _nest(o):
    d = 0
    while o[0] in ("attr", "callres", "elem") and isinstance(o[1], tuple):
        d += 1
        o = o[1]
    return d


def _tdepth(o, seen=0):
    """Nesting depth of tuple/partial origins (their elements are sets of origins)."""
    if seen > 6 or not isinstance(o, tuple) or not o:
        return 0
    if o[0] == "tuple":
        return 1 + max((_tdepth(x, seen + 1) for el in o[1] for x in el), default=0)
    if o[0] == "partial":
        return 1 + max((_tdepth(x, seen + 1) for x in o[1]), default=0)
    return 0


def _cap_tuple(o):
    """Widening for structured origins: a tuple that (through a cyclic value flow) contains tuples ... deeper than 3 levels has
    its elements replaced by 'unknown', so that the fixed point terminates."""
    if _tdepth(o) <= 3:
        return o
    if o[0] == "tuple":
        return ("tuple", tuple(frozenset({("unknown", "deep")}) for _ in o[1]), o[2] if len(o) > 2 else None)
    return ("unknown", "deep")


def _cap(o):
    """Bound the nesting of opaque origins so the fixed point terminates."""
    return o if _nest(o) <= 3 else ("unknown", "deep")


def describe(o):
    k = o[0]
    if k in ("func", "bound", "ctx", "gen"):
        return f"{k}:{o[1].short}"
    if k in ("class", "inst"):
        return f"{k}:{o[1].name}"
    if k == "param":
        return f"param:{o[1].short}.{o[2]}"
    if k == "attr":
        return f"{describe(o[1])}.{o[2]}"
    if k == "callres":
        return f"{describe(o[1])}()"
    if k == "elem":
        return f"elem({describe(o[1])})"
    if k == "module":
        return f"module:{o[1].name}"
    if k == "partial":
        return "partial(" + ",".join(sorted(describe(x) for x in o[1])) + ")"
    if k == "tuple":
        return "tuple"
    return f"{k}:{o[1]}" if len(o) > 1 else k
