import os, sys, threading
import uberjob
from uberjob.progress import console_progress, html_progress
errors = []
threading.excepthook = lambda a: errors.append((a.exc_type.__name__, str(a.exc_value)[:80]))
name = os.fsdecode(b"data-\xff.csv")          # a legal str: a file name with an undecodable byte
def build():
    plan = uberjob.Plan()
    with plan.scope(name):
        x = plan.call(len, "abc")
    return plan, x
plan, x = build()
pages = []
uberjob.run(plan, output=x, progress=html_progress(pages.append))
print("html pages:", len(pages), "errors:", errors)
bad = not pages or bool(errors)
del errors[:]
plan, x = build()
uberjob.run(plan, output=x, progress=console_progress)
print("console errors:", errors, file=sys.stderr)
sys.exit(1 if bad or errors else 0)
