"""Regenerate /verif/MANIFEST.json from tools/manifest_data.json + the rule modules that exist."""
import json, os
V = "/verif"
data = json.load(open(os.path.join(V, "tools", "manifest_data.json")))
props = [json.loads(l) for l in open(os.path.join(V, "properties.jsonl"))]
checks, na = [], []
for p in props:
    pid = p["id"]
    d = data["checks"].get(pid)
    have = os.path.exists(os.path.join(V, "ubcheck", "rules", pid.lower() + ".py"))
    if d and have and not d.get("withdrawn"):
        checks.append({
            "property_id": pid,
            "quick_cmd": f"/venv/bin/python -m ubcheck {pid} --tier quick",
            "thorough_cmd": f"/venv/bin/python -m ubcheck {pid} --tier thorough",
            "evidence_file": f"/verif/evidence/{pid}.json",
            "replay_cmd_template": "/venv/bin/python -m ubcheck --replay {path}",
            "engine": "ubcheck",
            "level_claimed": {"category": "other", "text": d["text"], "design_ref": f"DESIGN.md section 4.{pid}"},
            "level_note": d["note"],
            "technique": d["technique"],
        })
    else:
        na.append({"property_id": pid, "reason": (d or {}).get("na_reason") or data["default_na"]})
m = {
    "version": 1,
    "setup_cmd": "/venv/bin/python -m compileall -q /verif/ubcheck",
    "hooks": {"guard": "UBERJOB_VERIF", "enable": "none - the checks parse /repo/src as it is on disk; no instrumentation exists",
              "baseline_off_cmd": "cd /repo && /venv/bin/python -m pytest -ra -q -p no:cacheprovider --timeout=900 --continue-on-collection-errors",
              "source_commits": [], "add_only": True},
    "engines": [{"name": "ubcheck", "path": "/verif/ubcheck", "serves_properties": [c["property_id"] for c in checks],
                 "kind_free_text": "repository-specific static analysis on Python ast: module/class/function model, value-origin flow (order-independent least fixed point) and call graph, flag-sensitive statement CFG with exceptional edges, lockset/effect/guard analyses, an abstract evaluator that interprets AST nodes over finite token domains on small symbolic worlds (plans, registries, observers, frame chains), a canonicalisation front-end of semantics-preserving rewrites with the verdict taken over equivalent variants; thorough tier adds in-memory AST mutation adequacy"}],
    "checks": checks,
    "not_applicable": na,
    "notes": data["notes"],
}
json.dump(m, open(os.path.join(V, "MANIFEST.json"), "w"), indent=1)
print(len(checks), "checks;", len(na), "not applicable")
