"""C08 - a run cut short at any point leaves stores that the next run repairs (premises P1-P4).

The crash-point quantifier itself is a run-time one and is NOT decided; the check re-evaluates, under this id, the
four code-shape premises of the paper argument in DESIGN 4.C08."""
from . import c11
from . import engine as E
from . import runrules as R
from . import rewriterules as W
from . import stalerules as S


def check(ctx):
    ctx.rule("C08.P1", "write after compute and after upstream read-back: edge-effect table and two-entry ordering constraints of the registry transformation")
    ctx.rule("C08.P2", "failure containment: no successor enqueue after a failed call; catch-all handler in the worker")
    ctx.rule("C08.P3", "strict comparison and upstream propagation: staleness decision table equals the specification")
    ctx.rule("C08.P4", "atomic publish of file stores: who-may-write, publication CFG, close-before-rename, staging name")
    ctx.assume("modified times increase with every write (assumption of the property); the argument from P1-P4 to the statement is on paper; cut positions are not enumerated")
    ctx.run(E.rule_queue_is_library_queue, "C08.P2", ctx.model.one_func("run_function_on_graph", "ENGINE"))
    from .engineeval import rule_engine_evaluated
    # (P2 by evaluation: the engine as a whole never calls what is downstream of a failed call - so nothing is written from a failed computation)
    ctx.run(rule_engine_evaluated, "C08.P2", None, ("containment", "order", "budget"))
    er = E.discover(ctx.model)
    rr = R.discover(ctx.model, er)
    ctx.run(W.rule_edge_effect_table, "C08.P1", rr)
    ctx.run(W.rule_two_entry_chains, "C08.P1", rr)
    ctx.run(W.rule_snapshot_before_mutation, "C08.P1", rr)
    ctx.run(E.rule_enqueue_after_success, "C08.P2", er)
    ctx.run(E.rule_catch_all, "C08.P2", er)
    ctx.run(E.rule_atomic_counter, "C08.P2", er)
    ctx.run(R.rule_cause_chain, "C08.P2", rr)
    ctx.run(S.rule_stale_table, "C08.P3", rr)
    ctx.run(S.rule_every_stale_entry_rebuilt, "C08.P3", rr)
    ctx.run(S.rule_order_only, "C08.P3", rr)
    ctx.run(S.rule_owner_writes_only, "C08.P3", rr)
    # 'older/newer' must mean the instants: frame typing of the normaliser and of the bundled stores' modified times
    from .c18 import rule_normaliser_frames, rule_store_time_frames
    from .extra import rule_fresh_time_untouched
    ctx.run(rule_store_time_frames, "C08.P3")
    ctx.run(rule_normaliser_frames, "C08.P3")
    ctx.run(rule_fresh_time_untouched, "C08.P3", rr)
    ctx.run(R.rule_retry_loop, "C08.P2", rr)
    ctx.run(E.rule_first_error, "C08.P2", er)
    ctx.run(E.rule_callbacks_only_via_engine, "C08.P2", er, [rr.runcb, rr.stalecb])
    sub = type(ctx)(ctx.pid, ctx.model, ctx.tier, quiet=True)
    c11.check(sub)
    for o in sub.obligations:
        o = dict(o)
        o["rule"] = "C08.P4"
        ctx.obligations.append(o)
    ctx.floors.extend(sub.floors)
