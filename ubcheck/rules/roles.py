"""Roles that several rule modules need, discovered from structure and from the public API only (never from the name of an internal
helper): a renaming of an internal function, method or class must not change any verdict (selftest/rename_fuzz.py)."""
from __future__ import annotations

import ast

from ..model import AnalysisError, Func


def plan_class(m):
    return m.one_class("Plan", "PLAN")  # public API


def call_ctor(m):
    """CALLCTOR: the frame-explicit twin of the public Plan.call (today Plan._call): the method of Plan, other than `call`, that
    takes (*args, **kwargs) of a call and from which the construction of a Call node is reached."""
    plan = plan_class(m)
    callc = m.one_class("Call", "CALL")  # public API (uberjob.graph.Call)

    def builds_call(f):
        for g in [f] + list(m.reachable([f], kinds=("call",))):
            if any(any(o[0] == "class" and o[1] is callc for o in m.callee_origins(g, c)) for c in g.own_calls()):
                return True
        return False
    found = [f for n, f in plan.methods.items() if n != "call" and f.vararg and f.kwarg and builds_call(f)]
    if len(found) != 1:
        raise AnalysisError(f"role CALLCTOR: expected one frame-explicit call constructor on Plan, found {[f.qualname for f in found]}")
    return found[0]


def frame_gather(m):
    """The frame-explicit twin of the public Plan.gather (today Plan._gather): the method of Plan, other than the public
    gather / unpack / call, with the two parameters (frame, value) from which the construction of a Call node is reached.
    -> Func or None (an implementation need not have one)."""
    plan = plan_class(m)
    callc = m.one_class("Call", "CALL")

    def builds_call(f):
        for g in [f] + list(m.reachable([f], kinds=("call",))):
            if any(any(o[0] == "class" and o[1] is callc for o in m.callee_origins(g, c)) for c in g.own_calls()):
                return True
        return False
    found = [f for n, f in plan.methods.items() if n not in ("gather", "unpack", "call") and not f.vararg and not f.kwarg
             and len(f.pos_params) == 3 and builds_call(f)]
    if len(found) > 1:
        # helpers of the recursion share the signature: the twin is the one the public gather hands over to
        g = plan.methods.get("gather")
        direct = [f for f in found if g is not None and any(f in m.callee_funcs(g, c) for c in g.own_calls())]
        if len(direct) == 1:
            return direct[0]
        outside = [f for f in found if any(c_.cls is not plan for c_, _call in m.callers.get(f, ()))]
        if len(outside) == 1:
            return outside[0]
        raise AnalysisError(f"role GATHER: several frame-explicit gather methods on Plan: {[f.qualname for f in found]}")
    return found[0] if found else None


def gather_names(m):
    """Attribute names under which the output specification may be gathered: the public gather and the frame-explicit one."""
    fg = frame_gather(m)
    return {"gather"} | ({fg.name} if fg is not None else set())


def observer_api(m):
    return m.one_class("ProgressObserver", "OBSERVER-API")  # public API


def simple_observer(m):
    """SIMPLE: the observer base class of the bundled displays - the class in the progress package that starts the update thread."""
    cs = {c.cls for (c, _call, _tg) in m.thread_targets if c.cls is not None and c.module.name.startswith("uberjob.progress")}
    if len(cs) != 1:
        raise AnalysisError(f"role OBSERVER: expected one class of the progress package that starts a thread, found {sorted(c.name for c in cs)}")
    return next(iter(cs))


def _classes_built_below(m, f):
    out = set()
    for g in [f] + f.all_nested():
        for c in g.own_calls():
            out |= {o[1] for o in m.callee_origins(g, c) if o[0] == "class"}
    return out


def composite_observer(m):
    """COMPOSITE: the observer class the exported factory `composite_progress` constructs."""
    fs = [f for f in m.find_funcs("composite_progress") if f.module.name == "uberjob.progress" and f.parent is None]
    if len(fs) != 1:
        raise AnalysisError("role COMPOSITE: exported function composite_progress not found")
    api = observer_api(m)
    cs = {c for c in _classes_built_below(m, fs[0]) if api in c.repo_mro()}
    if len(cs) != 1:
        raise AnalysisError(f"role COMPOSITE: expected composite_progress to construct one observer class, found {sorted(c.name for c in cs)}")
    return next(iter(cs))


def ipython_observer(m):
    """IPYTHON: the observer class the exported `ipython_progress` is built from."""
    mod = m.modules.get("uberjob.progress")
    api = observer_api(m)
    cs = set()
    for kind, payload, path in (mod.bindings.get("ipython_progress", []) if mod else []):
        if kind == "assign" and payload is not None:
            for n in ast.walk(payload):
                if isinstance(n, ast.Name):
                    for o in m.lookup_name(mod, n.id):
                        if o[0] == "class" and api in o[1].repo_mro():
                            cs.add(o[1])
    if len(cs) != 1:
        raise AnalysisError(f"role IPYTHON: expected ipython_progress to name one observer class, found {sorted(c.name for c in cs)}")
    return next(iter(cs))


def progress_state(m):
    """STATE: the class (of the progress package, not an observer) that SIMPLE's constructor instantiates to keep the counts."""
    spo = simple_observer(m)
    init = spo.lookup("__init__")
    api = observer_api(m)
    cs = {c for c in (_classes_built_below(m, init) if isinstance(init, Func) else ()) if c.module.name.startswith("uberjob.progress") and api not in c.repo_mro()}
    cs = {c for c in cs if any(n.startswith("increment_") for n in c.methods)}
    if len(cs) != 1:
        raise AnalysisError(f"role STATE: expected the simple observer to construct one state class, found {sorted(c.name for c in cs)}")
    return next(iter(cs))


def registry_value(m):
    """REGVALUE: the class of a registry entry - what the public Registry.add constructs and stores (today RegistryValue)."""
    reg = m.one_class("Registry", "REGISTRY")  # public API
    add = reg.methods.get("add")
    if add is None:
        raise AnalysisError("role REGVALUE: Registry.add not found")
    cs = set()
    for f in [add] + [g for g in m.reachable([add], kinds=("call",)) if g.cls is reg]:
        cs |= {c for c in _classes_built_below(m, f) if c.module is reg.module or c.module.name.startswith("uberjob._registry")}
    cs = {c for c in cs if c is not reg}
    if len(cs) != 1:
        raise AnalysisError(f"role REGVALUE: expected Registry.add to construct one entry class, found {sorted(c.name for c in cs)}")
    return next(iter(cs))


def is_mutable_plan_func(m, g):
    """Does g(plan, ..., inplace) return `plan` when inplace is true and `plan.copy()` otherwise (today get_mutable_plan)?"""
    from . import engine as E
    if g.cls is not None or not g.pos_params or not any("inplace" in p for p in g.params):
        return False
    ip = [p for p in g.params if "inplace" in p][0]
    plan = g.pos_params[0]
    try:
        gr = E.guarded_returns(g)
    except Exception:
        return False
    if len(gr) != 2:
        return False
    got = {}
    for conds, v in gr:
        key = [pol for k, pol in conds if k == f"set:{ip}"]
        if len(key) != 1 or v is None:
            return False
        got[key[0]] = v
    t, f_ = got.get(True), got.get(False)
    return (isinstance(t, ast.Name) and t.id == plan and isinstance(f_, ast.Call) and isinstance(f_.func, ast.Attribute) and f_.func.attr == "copy"
            and isinstance(f_.func.value, ast.Name) and f_.func.value.id == plan and not f_.args and not f_.keywords)



def frame_token(m, tag):
    """An abstract captured frame chain for evaluations: an instance of the package's frame class whose *innermost* location is the
    same for every tag (captures made at one line of a helper) and whose outer frame differs by tag (different callers).  `.name` of
    the returned object is the tag."""
    from ..absval import Obj
    sfc = m.one_class("StackFrame", "FRAME-TOKEN")
    outer = Obj(sfc, {"name": f"caller_{tag}", "path": "/user/app.py", "line": 100 + sum(map(ord, tag)) % 800, "outer": None}, name=f"outer-of-{tag}")
    return Obj(sfc, {"name": "build", "path": "/user/helpers.py", "line": 7, "outer": outer}, name=tag)


def is_frame_token(v, tag):
    from ..absval import Obj
    return isinstance(v, Obj) and v.name == tag
