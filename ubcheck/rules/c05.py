"""C05 - exactly the out-of-date stored values are rebuilt; a repeated run does nothing (T1, W1-W3)."""
from . import engine as E
from . import runrules as R
from . import rewriterules as W
from . import stalerules as S


def check(ctx):
    ctx.rule("C05.T1", "staleness decision table equals the specification (strict comparison; pure sources only when missing; propagation through store-less nodes)")
    ctx.rule("C05.W1", "fresh entry: every out-edge of the original node is removed, argument consumers hang off the read node, plain dependents are released, no write node")
    ctx.rule("C05.W2", "one read node per entry, one write node iff stale; each call executes at most once (atomic readiness counter, exclusive partition, queue kinds)")
    ctx.rule("C05.W3", "only write nodes and the redirected output are required: with nothing stale and no output the required set is empty")
    ctx.assume("run-time counts of reads/writes are not observed; 'read at most once' additionally rests on C04")
    er = E.discover(ctx.model)
    rr = R.discover(ctx.model, er)
    S.rule_stale_table(ctx, "C05.T1", rr)
    ctx.notes["exhaustive"] = True
    S.rule_order_only(ctx, "C05.T1", rr)
    from .c18 import rule_normaliser_frames
    rule_normaliser_frames(ctx, "C05.T1")
    W.rule_edge_effect_table(ctx, "C05.W2", rr, rid_fresh="C05.W1")
    W.rule_two_entry_chains(ctx, "C05.W2", rr)
    W.rule_snapshot_before_mutation(ctx, "C05.W1", rr)
    S.rule_every_stale_entry_rebuilt(ctx, "C05.W2", rr, rid_required="C05.W3")
    S.rule_ancestor_closure(ctx, "C05.W3", rr)
    E.rule_atomic_counter(ctx, "C05.W2", er)
    E.rule_counting_agreement(ctx, "C05.W2", er)
    E.rule_one_callback_per_dequeue(ctx, "C05.W2", er)
    E.rule_queue_effects(ctx, "C05.W2", er)
