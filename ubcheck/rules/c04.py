"""C04 - each needed call runs exactly once, nothing unneeded runs (premises D1-D4)."""
from . import engine as E
from . import runrules as R
from .common import rule_pruning_preserves_paths


def check(ctx):
    ctx.rule("C04.D1", "a node is enqueued by exactly one event: exclusive 3-way partition by predecessor count, counter "
                       "decrement+zero-test in one lock region, queue kinds neither lose nor duplicate, public queue protocol only")
    ctx.rule("C04.D2", "the worker loop calls the node callback exactly once per dequeued non-sentinel item")
    ctx.rule("C04.D3", "prune-to-ancestors dominates execution on every path of run; only exact Call nodes execute, once per callback")
    ctx.rule("C04.D4", "every queue construction that seeds the container also seeds unfinished_tasks with its length")
    ctx.assume("same runtime-library assumptions as C01; the at-most-once / exactly-once argument from these premises is on paper (DESIGN 4.C04)")
    r = E.discover(ctx.model)
    rr = R.discover(ctx.model, r)
    E.rule_atomic_counter(ctx, "C04.D1", r)
    E.rule_counting_agreement(ctx, "C04.D1", r)
    E.rule_initial_ready_set(ctx, "C04.D1", r)
    E.rule_queue_effects(ctx, "C04.D1", r, rid_seed="C04.D4")
    E.rule_queue_internals(ctx, "C04.D1", r)
    E.rule_enqueue_after_success(ctx, "C04.D1", r)
    E.rule_catch_all(ctx, "C04.D1", r)
    E.rule_one_callback_per_dequeue(ctx, "C04.D2", r)
    R.rule_prune_before_execute(ctx, "C04.D3", rr)
