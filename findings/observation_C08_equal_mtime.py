"""Observation (unmodified library): a downstream value whose modified time EQUALS the rewritten upstream's one is
treated as up to date after a cut (strict '>' in the stale check). Needs a store clock with coarse granularity
(1 s / 2 s file systems, object stores, or the kernel's coarse mtime tick when two runs follow each other within a tick).
exit 0 = not observed, exit 1 = observed."""
import datetime as dt, sys
import uberjob
from uberjob._testing import TestStore

class CoarseStore(TestStore):          # a store whose clock has 1 s granularity
    now = dt.datetime(2024, 1, 1, 12, 0, 0)
    def write(self, value):
        super().write(value); self.modified_time = CoarseStore.now

seed = {"v": 1}
plan, reg = uberjob.Plan(), uberjob.Registry()
boom = {"on": False}
def f(): return seed["v"] * 10
def g(a):
    if boom["on"]: raise RuntimeError("cut")
    return a + 1
a = plan.call(f); b = plan.call(g, a)
sa, sb = CoarseStore(), CoarseStore(); reg.add(a, sa); reg.add(b, sb)
uberjob.run(plan, registry=reg, progress=None)                 # run 0: A=10, B=11, both stamped 12:00:00
seed["v"] = 2; boom["on"] = True
try: uberjob.run(plan, registry=reg, progress=None, fresh_time=CoarseStore.now + dt.timedelta(microseconds=1))
except uberjob.CallError: pass                                   # run 1 (same second): A rewritten (=20), g fails -> cut
boom["on"] = False
out = uberjob.run(plan, registry=reg, output=b, progress=None)   # run 2
print("A =", sa.value, " B =", sb.value, " output =", out, "(from scratch: 21)")
sys.exit(1 if out != 21 else 0)
